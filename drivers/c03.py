"""C03 bounded stand-in: labelled semantics -- axis order never matters; non-in-place calls never mutate.

By reflection (inspect over the MRO of the receiver classes) every method with an ``inplace`` parameter and every
``f_`` alias is found on every run; a per-method argument table (keyed ``Owner.name``) supplies argument values
computed from the receiver; methods without an entry that need arguments are reported as *not exercised* (counted
in a contract of their own, never silently skipped).

Contracts (per receiver, method, argument case):
 1. the plain spelling (``inplace=False``) leaves receiver and tensor/network arguments observably unchanged
    (fingerprint: class, labels, tags, left_inds, dtype, shape, bytes of every array, exponent, maps, site-structure
    properties); every array of the receiver is made read-only first, so numpy itself raises on an in-place write
    through an array that copies share;
 2. ``f(x)`` is the same labelled object as ``f_(copy(x))`` (tensor by tensor, modulo the names of generated
    labels), and has the same value as an independent numpy.einsum evaluation of both;
 3. ``f(x)`` is invariant (as a labelled object: numpy.einsum value over the outer labels, label/tag structure)
    under random permutations of the stored axes of every tensor of ``x`` and of tensor arguments;
 4. binary operators do not mutate their operands and are invariant under axis permutations.
"""

import functools
import inspect
import itertools

import numpy as np

from vf.rtc import driver


class Skip(Exception):
    """argument builder: this method is not applicable to this receiver"""


# ----------------------------------------------------------------------------------------------
# fingerprints and labelled equality (independent of quimb's own comparison helpers)
# ----------------------------------------------------------------------------------------------


def is_tensor(x):
    return type(x).__mro__ and any(k.__name__ == "Tensor" for k in type(x).__mro__)


def is_tn(x):
    return any(k.__name__ == "TensorNetwork" for k in type(x).__mro__)


def _arr_fp(a):
    a = np.asarray(a)
    return (str(a.dtype), a.shape, a.tobytes())


def fp_tensor(t):
    li = t.left_inds
    return (type(t).__name__, tuple(t.inds), tuple(t.tags), None if li is None else tuple(li), _arr_fp(t.data))


def _fp_val(v):
    if isinstance(v, (list, tuple)):
        return tuple(_fp_val(x) for x in v)
    if isinstance(v, dict):
        return tuple((repr(k), _fp_val(x)) for k, x in v.items())
    if isinstance(v, np.ndarray):
        return _arr_fp(v)
    return repr(v)


def fp_tn(tn):
    props = tuple((p, _fp_val(getattr(tn, p, None))) for p in type(tn)._EXTRA_PROPS)
    return (type(tn).__name__, float(np.real(tn.exponent)), props,
            tuple((tid, fp_tensor(t)) for tid, t in tn.tensor_map.items()),
            tuple((k, tuple(v)) for k, v in tn.ind_map.items()), tuple((k, tuple(v)) for k, v in tn.tag_map.items()),
            frozenset(tn._inner_inds), frozenset(tn._outer_inds))


def fingerprint(x):
    if is_tensor(x):
        return ("T", fp_tensor(x))
    if is_tn(x):
        return ("TN", fp_tn(x))
    if isinstance(x, (list, tuple)):
        return ("seq", tuple(fingerprint(v) for v in x))
    if isinstance(x, dict):
        return ("dict", tuple((repr(k), fingerprint(v)) for k, v in x.items()))
    if isinstance(x, np.ndarray):
        return ("arr", _arr_fp(x))
    return ("obj", repr(x)[:200])


def fp_diff(a, b, what="receiver"):
    """human description of the first difference between two fingerprints"""
    if a == b:
        return None
    if a[0] != b[0]:
        return f"{what}: kind {a[0]} -> {b[0]}"
    if a[0] == "T":
        names = ("class", "labels", "tags", "left_inds", "array (dtype, shape, bytes)")
        for n, u, v in zip(names, a[1], b[1]):
            if u != v:
                return f"{what}: tensor {n} changed" + (f": {u} -> {v}" if n != names[-1] else "")
    if a[0] == "TN":
        names = ("class", "exponent", "site-structure properties", "tensors", "ind_map", "tag_map", "inner labels", "outer labels")
        for n, u, v in zip(names, a[1], b[1]):
            if u != v:
                if n == "tensors":
                    if len(u) != len(v):
                        return f"{what}: number of tensors {len(u)} -> {len(v)}"
                    for (tid, ft), (tid2, ft2) in zip(u, v):
                        if tid != tid2:
                            return f"{what}: tensor ids changed"
                        if ft != ft2:
                            return fp_diff(("T", ft), ("T", ft2), f"{what} tensor {tid}")
                return f"{what}: {n} changed" + (f": {u} -> {v}" if n in ("class", "exponent", "site-structure properties") else "")
    if a[0] in ("seq", "dict"):
        return f"{what}: a sequence / mapping argument changed"
    return f"{what}: changed"


def freeze(x):
    """make every array reachable from x read-only (numpy then raises on any in-place write)"""
    if is_tensor(x):
        d = x.data
        if isinstance(d, np.ndarray):
            d.flags.writeable = False
    elif is_tn(x):
        for t in x.tensor_map.values():
            freeze(t)
    elif isinstance(x, (list, tuple)):
        for v in x:
            freeze(v)
    elif isinstance(x, dict):
        for v in x.values():
            freeze(v)
    elif isinstance(x, np.ndarray):
        x.flags.writeable = False
    return x


_CTX = {"single": False}  # precision of the case being evaluated (scalars / exponent factors lose the dtype)


def _tol(*dtypes):
    single = _CTX["single"] or any(str(d) in ("float32", "complex64") for d in dtypes)
    return (2e-3, 2e-4) if single else (1e-7, 1e-9)


def _close(a, b, what, loose=1.0):
    a, b = np.asarray(a), np.asarray(b)
    if a.shape != b.shape:
        return f"{what}: shape {a.shape} != {b.shape}"
    rtol, atol = _tol(a.dtype, b.dtype)
    scale = max(float(np.max(np.abs(a))) if a.size else 0.0, float(np.max(np.abs(b))) if b.size else 0.0)
    if not (np.isfinite(a).all() and np.isfinite(b).all()):
        if np.array_equal(np.isfinite(a), np.isfinite(b)):
            return None
        return f"{what}: non-finite entries differ"
    if a.size and np.max(np.abs(a - b)) > loose * (atol + rtol * scale):
        return f"{what}: max abs diff {np.max(np.abs(a - b)):.3e} (scale {scale:.3e})"
    return None


def is_gen(ix):
    """labels generated by quimb (rand_uuid) -- their names differ from call to call"""
    return isinstance(ix, str) and ix.startswith("_")


def dense_value(tn_or_t, outer=None):
    """independent value: numpy.einsum over all labels with the sorted outer labels as output, times 10**exponent"""
    if is_tensor(tn_or_t):
        ts, expo = [tn_or_t], 0.0
    else:
        ts, expo = list(tn_or_t.tensor_map.values()), tn_or_t.exponent
    occ = {}
    for t in ts:
        for ix in t.inds:
            occ[ix] = occ.get(ix, 0) + 1
    if outer is None:
        outer = sorted(ix for ix, c in occ.items() if c == 1)
    if not ts:
        return [], np.asarray(10.0 ** float(np.real(expo)))
    num = {ix: i for i, ix in enumerate(occ)}
    if len(num) > 52:
        raise Skip("too many labels for numpy.einsum")
    ops = []
    for t in ts:
        ops.append(np.asarray(t.data))
        ops.append([num[ix] for ix in t.inds])
    ops.append([num[ix] for ix in outer])
    if len(ts) > 2:
        path, info = np.einsum_path(*ops, optimize="greedy")
        for line in info.splitlines():
            if "Optimized FLOP count" in line and float(line.split(":")[1]) > 3e7:
                raise Skip("reference evaluation too expensive")
        val = np.einsum(*ops, optimize=path)
        return outer, val * 10.0 ** float(np.real(expo))
    val = np.einsum(*ops, optimize=False)
    return outer, val * 10.0 ** float(np.real(expo))


def structure(x):
    """label / tag structure modulo the names of generated labels: per tensor (tags, sorted (label|size) pairs)"""
    if is_tensor(x):
        ts = [x]
    else:
        ts = list(x.tensor_map.values())
    out = []
    for t in ts:
        labs = sorted(("~%d" % d) if is_gen(ix) else f"{ix}:{d}" for ix, d in zip(t.inds, t.shape))
        out.append((tuple(sorted(map(str, t.tags))), tuple(labs)))
    return sorted(out)


def same_labelled_value(a, b, what, loose=1.0, check_structure=True):
    """value-level labelled equality of two results (tensors, networks, scalars, arrays, nested sequences)"""
    if (a is None) != (b is None):
        return f"{what}: None vs value"
    if a is None:
        return None
    ka, kb = _kind(a), _kind(b)
    if ka in ("TN", "T", "scalar") and kb in ("TN", "T", "scalar") and ka != kb:
        try:
            (oa, va), (ob, vb) = _as_value(a), _as_value(b)
        except Skip:
            return None
        if oa != ob:
            return f"{what}: outer labels {oa} vs {ob}"
        return _close(va, vb, what + " (value)", loose)
    if is_tensor(a) or is_tn(a):
        if not (is_tensor(b) or is_tn(b)):
            return f"{what}: {type(a).__name__} vs {type(b).__name__}"
        if type(a).__name__ != type(b).__name__:
            return f"{what}: class {type(a).__name__} vs {type(b).__name__}"
        if is_tn(a):
            pa = tuple((p, _fp_val(getattr(a, p, None))) for p in type(a)._EXTRA_PROPS)
            pb = tuple((p, _fp_val(getattr(b, p, None))) for p in type(b)._EXTRA_PROPS)
            if pa != pb:
                return f"{what}: site-structure properties {pa} vs {pb}"
        if check_structure and structure(a) != structure(b):
            return f"{what}: label/tag structure {structure(a)[:3]} vs {structure(b)[:3]}"
        try:
            oa, va = dense_value(a)
            ob, vb = dense_value(b)
        except Skip:
            return None
        if oa != ob:
            return f"{what}: outer labels {oa} vs {ob}"
        return _close(va, vb, what + " (einsum value over the outer labels)", loose)
    if isinstance(a, (list, tuple)):
        if not isinstance(b, (list, tuple)) or len(a) != len(b):
            return f"{what}: sequence length / kind differs"
        for i, (u, v) in enumerate(zip(a, b)):
            e = same_labelled_value(u, v, f"{what}[{i}]", loose, check_structure)
            if e:
                return e
        return None
    if isinstance(a, dict):
        if not isinstance(b, dict) or list(map(repr, a)) != list(map(repr, b)):
            return f"{what}: dict keys differ"
        for k in a:
            e = same_labelled_value(a[k], b[k], f"{what}[{k!r}]", loose, check_structure)
            if e:
                return e
        return None
    if isinstance(a, (str, bytes, bool, type(None))):
        return None if a == b else f"{what}: {a!r} vs {b!r}"
    try:
        return _close(np.asarray(a), np.asarray(b), what, loose)
    except Exception:  # noqa
        return None if repr(a) == repr(b) else f"{what}: {repr(a)[:80]} vs {repr(b)[:80]}"


def _kind(v):
    if is_tn(v):
        return "TN"
    if is_tensor(v):
        return "T"
    if isinstance(v, (int, float, complex, np.number)) or (isinstance(v, np.ndarray) and v.ndim == 0):
        return "scalar"
    return "other"


def _as_value(v):
    if _kind(v) in ("TN", "T"):
        return dense_value(v)
    return [], np.asarray(v)


def same_labelled_object(a, b, what):
    """strict: tensor by tensor, labels equal modulo a bijection of generated names, arrays equal (tensor ids are
    not part of the labelled content: tensors are matched in order, else as a multiset); a fully contracted result
    may be wrapped differently by the two spellings (scalar / Tensor / one-tensor network): compared by value then"""
    ka, kb = _kind(a), _kind(b)
    if ka in ("TN", "T", "scalar") and kb in ("TN", "T", "scalar") and ka != kb:
        try:
            (oa, va), (ob, vb) = _as_value(a), _as_value(b)
        except Skip:
            return None
        if oa != ob:
            return f"{what}: outer labels {oa} vs {ob}"
        return _close(va, vb, what + " (value; the spellings wrap the result differently)")
    if ka == "TN" and kb == "TN":
        if type(a).__name__ != type(b).__name__:
            return f"{what}: class {type(a).__name__} vs {type(b).__name__}"
        ta, tb = list(a.tensor_map.values()), list(b.tensor_map.values())
        if len(ta) != len(tb):
            return f"{what}: {len(ta)} vs {len(tb)} tensors"
        e = _close(a.exponent, b.exponent, what + " exponent")
        if e:
            return e
        ren = {}
        first = None
        for k, (u, v) in enumerate(zip(ta, tb)):
            first = _same_tensor(u, v, f"{what} tensor #{k}", ren)
            if first:
                break
        if first:
            # unordered matching
            ren, left = {}, list(tb)
            for k, u in enumerate(ta):
                for v in left:
                    r2 = dict(ren)
                    if _same_tensor(u, v, "", r2) is None:
                        ren = r2
                        left.remove(v)
                        break
                else:
                    return first
        return same_labelled_value(a, b, what, check_structure=False)
    if ka == "T" and kb == "T":
        return _same_tensor(a, b, what, {})
    if isinstance(a, (list, tuple)) and isinstance(b, (list, tuple)) and len(a) == len(b):
        for i, (u, v) in enumerate(zip(a, b)):
            e = same_labelled_object(u, v, f"{what}[{i}]")
            if e:
                return e
        return None
    return same_labelled_value(a, b, what)


def _same_tensor(u, v, what, ren):
    if type(u).__name__ != type(v).__name__:
        return f"{what}: class {type(u).__name__} vs {type(v).__name__}"
    if len(u.inds) != len(v.inds):
        return f"{what}: labels {u.inds} vs {v.inds}"
    for x, y in zip(u.inds, v.inds):
        if is_gen(x) and is_gen(y):
            if ren.setdefault(x, y) != y:
                return f"{what}: generated labels do not correspond"
        elif x != y:
            return f"{what}: labels {u.inds} vs {v.inds}"
    if set(u.tags) != set(v.tags):
        return f"{what}: tags {sorted(u.tags)} vs {sorted(v.tags)}"
    lu, lv = u.left_inds, v.left_inds
    if (lu is None) != (lv is None) or (lu is not None and len(lu) != len(lv)):
        return f"{what}: left_inds {lu} vs {lv}"
    if str(u.dtype) != str(v.dtype):
        return f"{what}: dtype {u.dtype} vs {v.dtype}"
    return _close(u.data, v.data, what + " data")


def _permute_tensor(t, rng):
    if len(t.inds) > 1 and len(set(t.inds)) == len(t.inds):
        p = [int(i) for i in rng.permutation(len(t.inds))]
        li = t.left_inds
        # written with numpy directly (not Tensor.transpose_): same labelled tensor, other storage order
        t.modify(data=np.transpose(np.asarray(t.data), p), inds=[t.inds[i] for i in p])
        if li is not None:
            t.modify(left_inds=li)


def permute_axes(x, rng):
    """a copy of x in which every tensor stores its axes in a random order (labels follow)"""
    if is_tensor(x):
        y = x.copy()
        _permute_tensor(y, rng)
        return y
    if is_tn(x):
        y = x.copy()
        for t in y.tensor_map.values():
            _permute_tensor(t, rng)
        return y
    if isinstance(x, tuple):
        return tuple(permute_axes(v, rng) for v in x)
    if isinstance(x, list):
        return [permute_axes(v, rng) for v in x]
    if isinstance(x, dict):
        return {k: permute_axes(v, rng) for k, v in x.items()}
    return x


# ----------------------------------------------------------------------------------------------
# reflection
# ----------------------------------------------------------------------------------------------


def resolve(cls, name):
    """(owner class, raw attribute) as found along the MRO, or (None, None)"""
    for k in cls.__mro__:
        if name in k.__dict__:
            return k, k.__dict__[name]
    return None, None


def discover(cls):
    """every callable attribute of cls that has an ``inplace`` parameter, resolved over the MRO.

    returns a list of dicts: name, owner (class name where defined), fn (underlying function), kw (partialmethod
    keywords), inplace_default, alias (name of the in-place spelling if the class offers one), alias_ok (the alias is
    partialmethod(<this very function>, same keywords + inplace=True))"""
    out = []
    for name in sorted(dir(cls)):
        if name.startswith("__"):
            continue
        owner, raw = resolve(cls, name)
        if owner is None:
            continue
        fn, kw = raw, {}
        if isinstance(raw, functools.partialmethod):
            fn, kw = raw.func, dict(raw.keywords)
        if not inspect.isfunction(fn):
            continue
        try:
            sig = inspect.signature(fn)
        except (TypeError, ValueError):
            continue
        if "inplace" not in sig.parameters:
            continue
        if kw.get("inplace") is True:
            continue  # this IS an in-place alias; handled through its plain spelling
        rec = dict(name=name, owner=owner.__name__, fn=fn, kw=kw, inplace_default=sig.parameters["inplace"].default,
                   alias=None, alias_ok=None, alias_owner=None, sig=sig)
        aowner, araw = resolve(cls, name + "_")
        if araw is not None:
            rec["alias"] = name + "_"
            rec["alias_owner"] = aowner.__name__
            ok = isinstance(araw, functools.partialmethod) and araw.func is fn and \
                {k: v for k, v in araw.keywords.items() if k != "inplace"} == kw and araw.keywords.get("inplace") is True
            rec["alias_ok"] = bool(ok)
        out.append(rec)
    # in-place aliases whose plain spelling takes `inplace` only through **kwargs (gauge_all, contract_mps_sweep)
    have = {r["name"] for r in out}
    for name in sorted(dir(cls)):
        if name.endswith("_") and not name.startswith("_") and not name.endswith("__") and name[:-1] not in have:
            aowner, araw = resolve(cls, name)
            if isinstance(araw, functools.partialmethod) and araw.keywords.get("inplace") is True:
                owner, raw = resolve(cls, name[:-1])
                if raw is None:
                    continue
                fn, kw = (raw.func, dict(raw.keywords)) if isinstance(raw, functools.partialmethod) else (raw, {})
                if not inspect.isfunction(fn):
                    continue
                ok = araw.func is fn and {k: v for k, v in araw.keywords.items() if k != "inplace"} == kw
                out.append(dict(name=name[:-1], owner=owner.__name__, fn=fn, kw=kw, inplace_default=False, alias=name,
                                alias_ok=bool(ok), alias_owner=aowner.__name__, sig=inspect.signature(fn)))
    # in-place aliases whose plain spelling does not exist at all are listed too
    for name in sorted(dir(cls)):
        if name.endswith("_") and not name.startswith("_") and not name.endswith("__"):
            owner, raw = resolve(cls, name)
            if isinstance(raw, functools.partialmethod) and raw.keywords.get("inplace") is True:
                if resolve(cls, name[:-1])[1] is None:
                    out.append(dict(name=name[:-1], owner=owner.__name__, fn=None, kw={}, inplace_default=None, alias=name,
                                    alias_ok=False, alias_owner=owner.__name__, sig=None, orphan=True))
    return out


def required_params(rec):
    sig = rec["sig"]
    ps = list(sig.parameters.values())[1:]
    return [p.name for p in ps if p.default is inspect._empty and p.kind in (p.POSITIONAL_OR_KEYWORD, p.POSITIONAL_ONLY)
            and p.name not in rec["kw"]]


# ----------------------------------------------------------------------------------------------
# receivers
# ----------------------------------------------------------------------------------------------


def rnd(rng, shape, dtype):
    x = rng.normal(size=shape)
    if "complex" in dtype:
        x = x + 1j * rng.normal(size=shape)
    return x.astype(dtype)


def zoo(qtn, quick):
    """receiver builders: name -> (class name, builder(rng, dtype)); all small enough for numpy.einsum"""
    Z = {}

    def reg(name):
        def deco(f):
            Z[name] = f
            return f
        return deco

    @reg("Tensor")
    def _(rng, dt):
        return qtn.Tensor(rnd(rng, (2, 3, 2), dt), ("a", "e", "c"), tags=("X", "Y"))

    @reg("Tensor-dims1")
    def _(rng, dt):
        return qtn.Tensor(rnd(rng, (1, 2, 1, 2), dt), ("a", "e", "c", "d"), tags=("X",), left_inds=("a", "e"))

    @reg("Tensor-square")
    def _(rng, dt):
        return qtn.Tensor(rnd(rng, (2, 2, 2), dt), ("a", "e", "c"), tags=("X",))

    @reg("IsoTensor")
    def _(rng, dt):
        return qtn.IsoTensor(rnd(rng, (2, 3, 2), dt), ("a", "e", "c"), tags=("X",), left_inds=("a", "e"))

    @reg("Tensor-rank2")
    def _(rng, dt):
        return qtn.Tensor(rnd(rng, (2, 2), dt), ("a", "e"), tags=("X",))

    @reg("TN-left-inds")
    def _(rng, dt):
        # every tensor carries left_inds: a proper subset, ALL of its labels, and none (the last two take the
        # "effective vector -> normalize" shortcut of Tensor.isometrize)
        ts = [qtn.Tensor(rnd(rng, (2, 2), dt), ("a", "x"), tags=("A",), left_inds=("a",)),
              qtn.Tensor(rnd(rng, (2, 3, 2), dt), ("x", "y", "s"), tags=("B",), left_inds=("x", "y", "s")),
              qtn.Tensor(rnd(rng, (3, 2), dt), ("y", "e"), tags=("C",), left_inds=())]
        return qtn.TensorNetwork(ts)

    @reg("Tensor-repeated")
    def _(rng, dt):
        return qtn.Tensor(rnd(rng, (2, 2, 3), dt), ("a", "a", "c"), tags=("X",))

    @reg("TN-hyper")
    def _(rng, dt):
        # label h sits on three tensors
        ts = [qtn.Tensor(rnd(rng, (2, 2), dt), ("a", "h"), tags=("A",)), qtn.Tensor(rnd(rng, (2, 3), dt), ("h", "c"), tags=("B",)),
              qtn.Tensor(rnd(rng, (2, 2), dt), ("h", "d"), tags=("C",))]
        return qtn.TensorNetwork(ts)

    @reg("MPS-1site")
    def _(rng, dt):
        return qtn.MPS_rand_state(1, 1, dtype=dt, seed=int(rng.integers(1 << 30)))

    @reg("MPS-exponent")
    def _(rng, dt):
        psi = qtn.MPS_rand_state(3, 2, dtype=dt, seed=int(rng.integers(1 << 30)))
        psi.multiply_(37.0, spread_over=1)
        psi.equalize_norms_(1.0)
        return psi

    @reg("TN")
    def _(rng, dt):
        # a loop with a dangling tensor, one multibond, stored exponent
        ts = [qtn.Tensor(rnd(rng, (2, 3, 2), dt), ("a", "x", "y"), tags=("A", "P")),
              qtn.Tensor(rnd(rng, (3, 2, 2), dt), ("x", "z", "e"), tags=("B", "P")),
              qtn.Tensor(rnd(rng, (2, 2, 2, 2), dt), ("y", "z", "w", "v"), tags=("C", "Q")),
              qtn.Tensor(rnd(rng, (2, 2, 3), dt), ("w", "v", "c"), tags=("D", "Q"))]
        tn = qtn.TensorNetwork(ts)
        tn.exponent = 0.5
        return tn

    @reg("TN-tree")
    def _(rng, dt):
        ts = [qtn.Tensor(rnd(rng, (2, 2), dt), ("a", "x"), tags=("A",)),
              qtn.Tensor(rnd(rng, (2, 3, 1), dt), ("x", "y", "s"), tags=("B",)),
              qtn.Tensor(rnd(rng, (3, 2), dt), ("y", "e"), tags=("C",))]
        return qtn.TensorNetwork(ts)

    @reg("GenVector")
    def _(rng, dt):
        return qtn.TN_from_edges_rand([(0, 1), (1, 2), (2, 0), (2, 3)], 2, phys_dim=2, dtype=dt, seed=int(rng.integers(1 << 30)))

    @reg("GenOperator")
    def _(rng, dt):
        return qtn.TN_from_edges_rand([(0, 1), (1, 2), (2, 0)], 2, phys_dim=2, site_ind_id=("k{}", "l{}"), dtype=dt,
                                      seed=int(rng.integers(1 << 30)))

    @reg("Gen")
    def _(rng, dt):
        return qtn.TN_from_edges_rand([(0, 1), (1, 2), (2, 0), (2, 3)], 2, dtype=dt, seed=int(rng.integers(1 << 30)))

    @reg("MPS")
    def _(rng, dt):
        return qtn.MPS_rand_state(4, 3, dtype=dt, seed=int(rng.integers(1 << 30)))

    @reg("MPS-cyclic")
    def _(rng, dt):
        return qtn.MPS_rand_state(4, 2, dtype=dt, cyclic=True, seed=int(rng.integers(1 << 30)))

    @reg("MPS-2site-d3")
    def _(rng, dt):
        return qtn.MPS_rand_state(2, 2, phys_dim=3, dtype=dt, seed=int(rng.integers(1 << 30)))

    @reg("MPO")
    def _(rng, dt):
        return qtn.MPO_rand(4, 2, dtype=dt, seed=int(rng.integers(1 << 30)))

    @reg("MPO-cyclic")
    def _(rng, dt):
        return qtn.MPO_rand(3, 2, dtype=dt, cyclic=True, seed=int(rng.integers(1 << 30)))

    @reg("Dense1D")
    def _(rng, dt):
        return qtn.Dense1D(rnd(rng, (8,), dt))

    @reg("PEPS")
    def _(rng, dt):
        return qtn.PEPS.rand(2, 3, 2, dtype=dt, seed=int(rng.integers(1 << 30)))

    @reg("PEPO")
    def _(rng, dt):
        return qtn.PEPO.rand(2, 2, 2, dtype=dt, seed=int(rng.integers(1 << 30)))

    @reg("TN2D")
    def _(rng, dt):
        return qtn.TN2D_rand(3, 3, 2, dtype=dt, seed=int(rng.integers(1 << 30)))

    @reg("PEPS3D")
    def _(rng, dt):
        return qtn.PEPS3D.rand(2, 2, 2, 2, dtype=dt, seed=int(rng.integers(1 << 30)))

    @reg("TN3D")
    def _(rng, dt):
        return qtn.TN3D_rand(2, 2, 2, 2, dtype=dt, seed=int(rng.integers(1 << 30)))

    return Z


# ----------------------------------------------------------------------------------------------
# argument table: "Owner.name" -> builder(x, rng, qtn, dt) -> list of Case
# ----------------------------------------------------------------------------------------------


class Case:
    def __init__(self, *args, **kw):
        self.args, self.kw = args, kw
        self.random = False      # result depends on a random stream: only non-mutation + structure are checked
        self.noperm = False      # result legitimately depends on the stored axis order (documented positional argument)
        self.loose = 1.0         # tolerance multiplier (iterative / truncating routines)
        self.gauge = False       # result is defined up to a gauge: compare values over the outer labels only
        self.mut = ()            # positions / keywords of arguments the method is documented to update (gauges, info)
        self.note = ""

    def flag(self, **f):
        for k, v in f.items():
            setattr(self, k, v)
        return self


C = Case
ARGS = {}


def args_for(*keys):
    def deco(f):
        for k in keys:
            ARGS[k] = f
        return f
    return deco


def outer_of(x):
    if is_tensor(x):
        return list(x.inds)
    occ = {}
    for t in x.tensor_map.values():
        for ix in t.inds:
            occ[ix] = occ.get(ix, 0) + 1
    return [ix for ix, c in occ.items() if c == 1]


def inner_of(x):
    occ = {}
    for t in x.tensor_map.values():
        for ix in t.inds:
            occ[ix] = occ.get(ix, 0) + 1
    return [ix for ix, c in occ.items() if c >= 2]


def size_of(x, ix):
    if is_tensor(x):
        return x.shape[x.inds.index(ix)]
    for t in x.tensor_map.values():
        if ix in t.inds:
            return t.shape[t.inds.index(ix)]
    raise KeyError(ix)


def need(cond, why="not applicable to this receiver"):
    if not cond:
        raise Skip(why)


# ---- Tensor ----------------------------------------------------------------------------------

@args_for("Tensor.astype", "TensorNetwork.astype")
def _(x, rng, qtn, dt):
    return [C("complex128"), C("complex64" if "64" in dt or "complex" in dt else "float32"), C(dt).flag(note="same dtype")]


@args_for("Tensor.collapse_repeated", "Tensor.conj", "Tensor.negate", "Tensor.normalize", "TensorNetwork.negate",
          "TensorNetwork.fuse_multibonds")
def _(x, rng, qtn, dt):
    return [C()]


def has_multibonds(x):
    ts = list(x.tensor_map.values())
    return any(len([ix for ix in a.inds if ix in b.inds]) > 1 for a, b in itertools.combinations(ts, 2))


def is_tree(x):
    ts = list(x.tensor_map.values())
    occ = {}
    for t in ts:
        for ix in t.inds:
            occ.setdefault(ix, []).append(id(t))
    if any(len(v) > 2 for v in occ.values()) or has_multibonds(x):
        return False
    nb = sum(1 for v in occ.values() if len(v) == 2)
    # connected and acyclic
    adj = {id(t): set() for t in ts}
    for v in occ.values():
        if len(v) == 2:
            adj[v[0]].add(v[1])
            adj[v[1]].add(v[0])
    seen, stack = set(), [id(ts[0])] if ts else []
    while stack:
        u = stack.pop()
        if u not in seen:
            seen.add(u)
            stack.extend(adj[u] - seen)
    return len(seen) == len(ts) and nb == len(ts) - 1


@args_for("TensorNetwork.balance_bonds")
def _(x, rng, qtn, dt):
    need(not has_multibonds(x), "balance_bonds needs single bonds")
    return [C().flag(gauge=True)]


@args_for("Tensor.direct_product")
def _(x, rng, qtn, dt):
    need(len(set(x.inds)) == len(x.inds))
    shp = tuple(d + 1 for d in x.shape)
    T2 = qtn.Tensor(rnd(rng, shp, dt), x.inds, tags="O")
    s0 = x.inds[0]
    shp2 = tuple(d if ix == s0 else d + 1 for ix, d in zip(x.inds, x.shape))
    T3 = qtn.Tensor(rnd(rng, shp2, dt), x.inds[::-1] if False else x.inds, tags="O")
    return [C(T2), C(T3, sum_inds=(s0,)), C(T3, sum_inds=s0)]


@args_for("Tensor.flip")
def _(x, rng, qtn, dt):
    need(x.inds)
    return [C(x.inds[0]), C(x.inds[-1])]


@args_for("TensorNetwork.flip")
def _(x, rng, qtn, dt):
    o = outer_of(x) or inner_of(x)
    need(o)
    return [C([o[0]]), C(o[:2])]


@args_for("Tensor.fuse", "IsoTensor.fuse")
def _(x, rng, qtn, dt):
    need(len(x.inds) >= 2 and len(set(x.inds)) == len(x.inds))
    i = x.inds
    return [C({"f": (i[0], i[1])}), C([("f", (i[-1], i[0]))]), C({"f": (i[1],)}), C({"f": i[::-1]}),
            C({"f": (i[0],), "g": (i[-1],)}), C({}).flag(note="empty fuse map")]


@args_for("Tensor.gate")
def _(x, rng, qtn, dt):
    need(x.inds and len(set(x.inds)) == len(x.inds))
    ix = x.inds[-1]
    d = size_of(x, ix)
    G = rnd(rng, (d, d), dt)
    return [C(G, ix), C(G, ix, transpose=True), C(G, ix, preserve_inds=False).flag(note="preserve_inds=False")]


@args_for("Tensor.isel", "TensorNetwork.isel")
def _(x, rng, qtn, dt):
    o = outer_of(x) + ([] if is_tensor(x) else inner_of(x))
    need(o)
    out = [C({o[0]: 0}), C({o[-1]: size_of(x, o[-1]) - 1}), C({o[0]: slice(0, 1)}), C({}).flag(note="empty selector")]
    if len(o) > 1:
        out.append(C({o[0]: 0, o[1]: 0}))
    return out


@args_for("Tensor.unitize")
def _(x, rng, qtn, dt):
    need(len(x.inds) >= 2 and len(set(x.inds)) == len(x.inds))
    return [C(left_inds=x.inds[:-1]), C(left_inds=()), C(left_inds=x.inds)]


@args_for("Tensor.isometrize")
def _(x, rng, qtn, dt):
    need(len(x.inds) >= 2 and len(set(x.inds)) == len(x.inds))
    li = (x.inds[0],)
    allbut = x.inds[:-1]
    out = [C(left_inds=allbut, method=m) for m in ("qr", "svd", "mgs", "exp", "cayley")]
    out += [C(left_inds=li, method="svd"), C(left_inds=li, method="qr"), C(left_inds=allbut[::-1])]
    # effective vectors (empty left or empty right group): the "just normalize" shortcut, every method
    for m in ("qr", "svd", "mgs", "exp", "cayley"):
        out += [C(left_inds=(), method=m).flag(note="empty left group"),
                C(left_inds=x.inds[::-1], method=m).flag(note="left group = all labels")]
    if len(x.inds) >= 3:
        # the right group has two labels and is fused in storage order: the parametrising methods are not covariant
        out += [C(left_inds=li, method=m).flag(note="right group of >= 2 labels fused in storage order, method " + m)
                for m in ("cayley", "exp")]
    return out


@args_for("Tensor.moveindex")
def _(x, rng, qtn, dt):
    need(x.inds and len(set(x.inds)) == len(x.inds))
    return [C(x.inds[0], -1), C(x.inds[-1], 0), C(x.inds[0], 1 if len(x.inds) > 1 else 0)]


@args_for("Tensor.multiply_index_diagonal")
def _(x, rng, qtn, dt):
    need(x.inds)
    ix = x.inds[0]
    return [C(ix, rnd(rng, (size_of(x, ix),), dt))]


@args_for("Tensor.new_ind_pair_diag")
def _(x, rng, qtn, dt):
    need(x.inds and len(set(x.inds)) == len(x.inds))
    return [C(x.inds[0], "nl", "nr"), C(x.inds[-1], "nl", "nr")]


@args_for("Tensor.new_ind_pair_with_identity")
def _(x, rng, qtn, dt):
    return [C("nl", "nr", 2), C("nl", "nr", 3)]


@args_for("Tensor.rand_reduce")
def _(x, rng, qtn, dt):
    need(x.inds)
    return [C(x.inds[0], seed=7)]


@args_for("Tensor.randomize", "TensorNetwork.randomize")
def _(x, rng, qtn, dt):
    return [C(seed=3).flag(noperm=True, note="random fill follows the storage order")]


@args_for("Tensor.reindex", "TensorNetwork.reindex")
def _(x, rng, qtn, dt):
    o = outer_of(x)
    need(o)
    out = [C({o[0]: "new0"}), C({o[0]: "new0", "absent": "zz"}), C({}).flag(note="empty map"),
           C({"absent": "zz"}).flag(note="no label matches"), C({o[0]: o[0]}).flag(note="identity map")]
    if not is_tensor(x):
        i = inner_of(x)
        if i:
            out.append(C({i[0]: "newb", o[0]: "new0"}))
    same = [ix for ix in o[1:] if size_of(x, ix) == size_of(x, o[0])]
    if same and (is_tensor(x) or True):
        out.append(C({o[0]: same[0], same[0]: o[0]}).flag(note="swap"))
    return out


@args_for("Tensor.retag", "TensorNetwork.retag")
def _(x, rng, qtn, dt):
    tags = list(x.tags)
    need(tags)
    out = [C({tags[0]: "NEWTAG"}), C({}).flag(note="empty map"), C({tags[0]: tags[0]}).flag(note="identity map")]
    if len(tags) > 1:
        out.append(C({tags[0]: tags[1]}))
        out.append(C({tags[0]: tags[1], tags[1]: tags[0]}))
    return out


@args_for("Tensor.squeeze")
def _(x, rng, qtn, dt):
    big = [ix for ix, d in zip(x.inds, x.shape) if d > 1]
    return [C(), C(include=x.inds[:2]), C(exclude=x.inds[:1]), C(include=big[:1]).flag(note="nothing squeezable is included"),
            C(exclude=x.inds).flag(note="everything excluded"), C(include=())]


@args_for("Tensor.sum_reduce", "TensorNetwork.sum_reduce")
def _(x, rng, qtn, dt):
    o = outer_of(x)
    need(o)
    return [C(o[0]), C(o[-1])]


@args_for("Tensor.symmetrize")
def _(x, rng, qtn, dt):
    need(len(x.inds) >= 2 and x.shape[0] == x.shape[1] and len(set(x.inds)) == len(x.inds))
    return [C(x.inds[0], x.inds[1])]


@args_for("Tensor.to", "TensorNetwork.to")
def _(x, rng, qtn, dt):
    return [C(dtype="complex128"), C(backend="numpy")]


@args_for("Tensor.trace")
def _(x, rng, qtn, dt):
    need(len(x.inds) >= 2 and x.shape[0] == x.shape[1] and len(set(x.inds)) == len(x.inds))
    return [C(x.inds[0], x.inds[1]), C([x.inds[0]], [x.inds[1]]), C(x.inds[0], x.inds[1], preserve_tensor=True),
            C(x.inds[1], x.inds[0])]


@args_for("Tensor.transpose")
def _(x, rng, qtn, dt):
    need(len(set(x.inds)) == len(x.inds))
    return [C(*x.inds[::-1]), C(*x.inds)]


@args_for("Tensor.transpose_like")
def _(x, rng, qtn, dt):
    need(len(set(x.inds)) == len(x.inds))
    other = qtn.Tensor(rnd(rng, x.shape[::-1], dt), x.inds[::-1])
    return [C(other)]


@args_for("Tensor.unfuse")
def _(x, rng, qtn, dt):
    need(x.inds and len(set(x.inds)) == len(x.inds))
    ix = x.inds[0]
    d = size_of(x, ix)
    out = [C({ix: ("u1", "u2")}, {ix: (1, d)}), C({ix: ("u1", "u2")}, {ix: (d, 1)})]
    if d % 2 == 0 and d > 2:
        out.append(C({ix: ("u1", "u2")}, {ix: (2, d // 2)}))
    return out


@args_for("Tensor.vector_reduce", "TensorNetwork.vector_reduce")
def _(x, rng, qtn, dt):
    o = outer_of(x)
    need(o)
    return [C(o[0], rnd(rng, (size_of(x, o[0]),), dt))]


# ----------------------------------------------------------------------------------------------
# the engine
# ----------------------------------------------------------------------------------------------

K_PLAIN = "the plain (non-in-place) spelling leaves its receiver and its tensor / network arguments observably unchanged (arrays read-only)"
K_PAIR = "f(x) is the same labelled object as f_(copy(x)) (tensor by tensor modulo generated label names; same numpy.einsum value)"
K_PERM = "f(x) is invariant under random permutations of the stored axes of every tensor of x and of tensor arguments"
K_INPL = "the in-place spelling f_(y) on a copy y leaves the original x (which shares its arrays) unchanged"
K_COVER = "reflection: every method with an `inplace` parameter / every f_ alias has an argument-table entry (not exercised otherwise)"


def _fresh(case):
    """documented-mutable arguments (gauges, info dicts) are handed over as fresh deep copies on every call"""
    import copy

    if not case.mut:
        return case.args, dict(case.kw)
    return (tuple(copy.deepcopy(a) if k in case.mut else a for k, a in enumerate(case.args)),
            {k: (copy.deepcopy(v) if k in case.mut else v) for k, v in case.kw.items()})


def call_plain(x, rec, case):
    f = getattr(x, rec["name"])
    args, kw = _fresh(case)
    if rec["inplace_default"] is not False:
        kw["inplace"] = False  # in-place is the documented default: ask for the copy explicitly
    return f(*args, **kw)


def call_inplace(y, rec, case):
    args, kw = _fresh(case)
    if rec["alias"]:
        return getattr(y, rec["alias"])(*args, **kw)
    return getattr(y, rec["name"])(*args, **dict(kw, inplace=True))


def cases_for(rec, x, rng, qtn, dt):
    key = f"{rec['owner']}.{rec['name']}"
    b = ARGS.get(key)
    if b is None:
        if rec["sig"] is not None and not required_params(rec):
            return [C()]
        return None
    return b(x, rng, qtn, dt)


def exercise(cx, qtn, rname, build, rec, dt, nperm, seed_base):
    """all contracts for one (receiver, method); returns number of cases exercised"""
    key = f"{rec['owner']}.{rec['name']}"
    srng = np.random.default_rng([seed_base, abs(hash(rname)) % (1 << 30) if False else sum(map(ord, rname)), sum(map(ord, key))])
    x = build(srng, dt)
    try:
        cases = cases_for(rec, x, srng, qtn, dt)
    except Skip:
        return 0
    if cases is None:
        return None
    freeze(x)
    n = 0
    for i, case in enumerate(cases):
        prng = np.random.default_rng([seed_base, i, sum(map(ord, rname + key))])
        params = dict(receiver=rname, cls=type(x).__name__, method=key, case=i, dtype=dt, alias=rec["alias"],
                      mispaired_alias=bool(rec["alias"]) and not rec["alias_ok"], note=case.note,
                      receiver_has_exponent=bool(is_tn(x) and float(np.real(x.exponent)) != 0.0))
        freeze(case.args)
        freeze(case.kw)
        holder = {}

        single = dt in ("float32", "complex64")

        def t_plain(case=case, holder=holder):
            _CTX["single"] = single

            def afp():
                return fingerprint(([a for k, a in enumerate(case.args) if k not in case.mut],
                                    {k: v for k, v in case.kw.items() if k not in case.mut}))
            f0 = fingerprint(x)
            a0 = afp()
            try:
                r = call_plain(x, rec, case)
            except Exception as ex:  # noqa
                msg = str(ex)
                if "read-only" in msg or "readonly" in msg or "not writeable" in msg:
                    return f"in-place write into an array the receiver shares with its copies: {type(ex).__name__}: {msg[:200]}"
                e = fp_diff(f0, fingerprint(x), "receiver (although the call raised)") or fp_diff(a0, afp(), "arguments")
                if e:
                    return e
                # outside the method's domain for this receiver only if the in-place spelling refuses it too
                try:
                    call_inplace(x.copy(), rec, case)
                except Exception:  # noqa
                    raise ex
                return f"the plain spelling raises {type(ex).__name__}: {msg[:160]} -- but f_(copy(x)) accepts the same arguments"
            holder["r"] = r
            e = fp_diff(f0, fingerprint(x), "receiver") or fp_diff(a0, afp(), "arguments")
            if e:
                return e
            if r is x:
                return "the plain spelling returned the receiver itself"
            if r is None:
                return "the plain spelling returned None (the modified copy is lost)"
            return None

        # both spellings refusing the arguments = outside the method's domain for this receiver (counted as rejection)
        ok = cx.check(K_PLAIN, params, t_plain, allow_reject=True, crash_is_violation=False)
        n += 1
        if ok != "ok" and cx.only_key is None:
            continue
        if "r" not in holder:
            # replaying another contract of this case: recompute the plain result silently
            try:
                holder["r"] = call_plain(x, rec, case)
            except Exception:  # noqa
                continue
        r = holder["r"]

        def t_pair(case=case, r=r):
            _CTX["single"] = single
            y = x.copy()
            f0 = fingerprint(x)
            r_ = call_inplace(y, rec, case)
            e = fp_diff(f0, fingerprint(x), "original after f_ on its copy")
            if e:
                return ("INPLACE", e)
            if r_ is None:
                r_ = y
            if case.random:
                return same_structure(r, r_, "f(x) vs f_(copy(x))")
            if case.kw.get("strip_exponent") and _kind(r) != _kind(r_):
                # the plain spelling hands back (mantissa, exponent), the in-place one stores the exponent on the network
                return same_stripped(r, r_, "f(x) vs f_(copy(x))", case.loose)
            return same_labelled_object(r, r_, "f(x) vs f_(copy(x))")

        res = {}

        def t_pair1():
            res["v"] = t_pair()
            v = res["v"]
            return None if (v is None or isinstance(v, tuple)) else v

        cx.check(K_PAIR, params, t_pair1)
        cx.check(K_INPL, params, lambda: res["v"][1] if isinstance(res.get("v"), tuple) else None)
        if case.noperm or case.random:
            continue
        for k in range(nperm):
            xp = freeze(permute_axes(x, prng))
            ap = freeze(permute_axes(case.args, prng))
            kp = freeze(permute_axes(case.kw, prng))

            def t_perm(xp=xp, ap=ap, kp=kp, case=case, r=r):
                _CTX["single"] = single
                c2 = Case(*ap, **kp).flag(mut=case.mut)
                rp = call_plain(xp, rec, c2)
                if case.kw.get("strip_exponent") and isinstance(r, tuple):
                    return same_stripped(r, rp, "f(x) vs f(x with permuted axes)", case.loose)
                return same_labelled_value(r, rp, "f(x) vs f(x with permuted axes)", loose=case.loose,
                                           check_structure=not case.gauge)

            cx.check(K_PERM, dict(params, perm=k), t_perm)
    return n


def unstrip(v):
    """(mantissa, exponent) as returned with strip_exponent=True -> the value it denotes, as (outer labels, array);
    a network / tensor / scalar -> its value likewise"""
    if isinstance(v, tuple) and len(v) == 2 and _kind(v[1]) == "scalar" and _kind(v[0]) in ("TN", "T", "scalar"):
        o, val = _as_value(v[0])
        return o, np.asarray(val) * 10.0 ** float(np.real(v[1]))
    return _as_value(v)


def same_stripped(a, b, what, loose=1.0):
    try:
        (oa, va), (ob, vb) = unstrip(a), unstrip(b)
    except Skip:
        return None
    if oa != ob:
        return f"{what}: outer labels {oa} vs {ob}"
    return _close(va, vb, what + " (mantissa * 10**exponent)", loose)


def same_structure(a, b, what):
    if (is_tensor(a) or is_tn(a)) and (is_tensor(b) or is_tn(b)):
        if type(a).__name__ != type(b).__name__:
            return f"{what}: class differs"
        if structure(a) != structure(b):
            return f"{what}: label/tag structure differs"
        return None
    if isinstance(a, (list, tuple)) and isinstance(b, (list, tuple)) and len(a) == len(b):
        for u, v in zip(a, b):
            e = same_structure(u, v, what)
            if e:
                return e
    return None


# ---- TensorNetwork (generic; applied to every network class) -----------------------------------

def tags_of(x):
    out = []
    for t in x.tensor_map.values():
        for g in t.tags:
            if g not in out:
                out.append(g)
    return out


def unique_tags(x):
    """tags carried by exactly one tensor, in tensor order"""
    cnt = {}
    for t in x.tensor_map.values():
        for g in t.tags:
            cnt[g] = cnt.get(g, 0) + 1
    return [g for g in tags_of(x) if cnt[g] == 1]


def bonded_pair(x):
    """(tagA, tagB, bond) for two tensors with unique tags joined by exactly one plain bond"""
    ut = unique_tags(x)
    byt = {g: t for t in x.tensor_map.values() for g in t.tags if g in ut}
    occ = {}
    for t in x.tensor_map.values():
        for ix in t.inds:
            occ[ix] = occ.get(ix, 0) + 1
    for a, b in itertools.combinations(ut, 2):
        if byt[a] is byt[b]:
            continue
        sh = [ix for ix in byt[a].inds if ix in byt[b].inds]
        if len(sh) == 1 and occ[sh[0]] == 2:
            return a, b, sh[0]
    raise Skip("no pair of uniquely tagged tensors joined by a single bond")


@args_for("TensorNetwork.antidiag_gauge", "TensorNetwork.column_reduce", "TensorNetwork.diagonal_reduce",
          "TensorNetwork.split_simplify", "TensorNetwork.rank_simplify", "TensorNetwork.pair_simplify",
          "TensorNetwork.loop_simplify", "TensorNetwork.full_simplify", "TensorNetwork.hyperinds_resolve")
def _(x, rng, qtn, dt):
    return [C().flag(gauge=True)]


@args_for("TensorNetwork.compress_simplify")
def _(x, rng, qtn, dt):
    return [C().flag(gauge=True, loose=1e3), C(equalize_norms=False, final_resolve=True).flag(gauge=True, loose=1e3)]


@args_for("TensorNetwork.canonize_around")
def _(x, rng, qtn, dt):
    g = unique_tags(x)
    need(g)
    return [C(g[0]).flag(gauge=True), C(g[-1], max_distance=1, absorb="left").flag(gauge=True),
            C(g[0], max_distance=0).flag(gauge=True, note="nothing within distance")]


@args_for("TensorNetwork.gauge_local")
def _(x, rng, qtn, dt):
    g = unique_tags(x)
    need(g and inner_of(x))
    return [C(g[0]).flag(gauge=True), C(g[0], method="simple", max_distance=2).flag(gauge=True, loose=1e3)]


@args_for("TensorNetwork.compress_all", "TensorNetwork.compress_all_1d", "TensorNetwork.compress_all_simple")
def _(x, rng, qtn, dt):
    need(inner_of(x))
    return [C(max_bond=2).flag(gauge=True, loose=1e3), C().flag(gauge=True, loose=1e3)]


@args_for("TensorNetwork.compress_all_tree")
def _(x, rng, qtn, dt):
    need(inner_of(x) and is_tree(x), "assumes a tree")
    return [C(max_bond=2).flag(gauge=True, loose=1e3)]


@args_for("TensorNetwork.conj")
def _(x, rng, qtn, dt):
    return [C(), C(mangle_inner=True), C(mangle_inner="*")]


@args_for("TensorNetwork.contract")
def _(x, rng, qtn, dt):
    g = tags_of(x)
    out = [C(), C(all), C(..., optimize="greedy")]
    if len(g) >= 2:
        out += [C([g[0], g[1]]), C(g[0])]
    o = outer_of(x)
    if o:
        out.append(C(output_inds=o[::-1]))
    out.append(C(max_bond=64, cutoff=0.0).flag(gauge=True, loose=1e3, note="dispatch to contract_compressed"))
    if getattr(type(x), "_CONTRACT_STRUCTURED", False) and getattr(x, "L", 0) >= 2:
        out += [C(slice(0, 2)).flag(note="structured slice"), C(slice(0, x.L)).flag(note="structured, all sites")]
    if g:
        out.append(C(g, strip_exponent=True).flag(note="strip_exponent"))
    return out


@args_for("TensorNetwork.contract_tags")
def _(x, rng, qtn, dt):
    g = tags_of(x)
    need(g)
    out = [C(g[0]), C(g[:2], which="any")]
    if len(g) >= 2:
        out.append(C(g[:2], which="all") if any(set(g[:2]) <= set(t.tags) for t in x.tensor_map.values()) else C(g[-1]))
    # tags covering every tensor (the "contracted everything" return), plain and with the exponent stripped
    out += [C(g, which="any").flag(note="tags cover all tensors"),
            C(g, which="any", strip_exponent=True).flag(note="tags cover all tensors, strip_exponent"),
            C(g[0], strip_exponent=True).flag(note="strip_exponent"), C(g[0], preserve_tensor=True)]
    return out


@args_for("TensorNetwork.contract_cumulative")
def _(x, rng, qtn, dt):
    g = unique_tags(x)
    need(len(g) >= 2)
    return [C(g[:2]), C(g)]


@args_for("TensorNetwork.contract_around")
def _(x, rng, qtn, dt):
    g = unique_tags(x)
    need(g and not outer_of(x) or g)
    return [C(g[0], max_bond=4).flag(gauge=True, loose=1e3)]


@args_for("TensorNetwork.contract_compressed")
def _(x, rng, qtn, dt):
    # untruncated (the order of compressions follows the path, which may follow the storage order)
    return [C("greedy", max_bond=256, cutoff=0.0).flag(gauge=True, loose=1e3)]


@args_for("TensorNetwork.equalize_norms")
def _(x, rng, qtn, dt):
    return [C().flag(gauge=True), C(1.0).flag(gauge=True)]


@args_for("TensorNetwork.expand_bond_dimension", "TensorNetwork1DFlat.expand_bond_dimension",
          "TensorNetwork2DFlat.expand_bond_dimension")
def _(x, rng, qtn, dt):
    need(inner_of(x))
    return [C(4), C(5, inds_to_expand=inner_of(x)[:1]), C(1).flag(note="nothing to expand")]


@args_for("TensorNetwork.gate_inds")
def _(x, rng, qtn, dt):
    o = outer_of(x)
    need(o)
    d0 = size_of(x, o[0])
    out = [C(rnd(rng, (d0, d0), dt), [o[0]]), C(rnd(rng, (d0, d0), dt), [o[0]], contract=True, tags="G")]
    two = None
    for a, b in itertools.combinations(o, 2):
        ta = [t for t in x.tensor_map.values() if a in t.inds][0]
        tb = [t for t in x.tensor_map.values() if b in t.inds][0]
        sh = [ix for ix in ta.inds if ix in tb.inds]
        if ta is not tb and len(sh) == 1:
            two = (a, b)
            break
    if two:
        da, db = size_of(x, two[0]), size_of(x, two[1])
        G = rnd(rng, (da * db, da * db), dt)
        for mode in (False, True, "split", "reduce-split", "split-gate", "swap-split-gate", "auto-split-gate"):
            out.append(C(G, two, contract=mode).flag(gauge=mode not in (False, True), note=f"contract={mode}"))
        out.append(C(G.reshape(da, db, da, db).transpose(1, 0, 3, 2), two[::-1], contract=False).flag(note="reversed targets"))
    return out


@args_for("TensorNetwork.gate_inds_with_tn")
def _(x, rng, qtn, dt):
    o = outer_of(x)
    need(o)
    d0 = size_of(x, o[0])
    g = qtn.Tensor(rnd(rng, (d0, d0), dt), ("go", "gi"), tags="G")
    g2 = qtn.TensorNetwork([qtn.Tensor(rnd(rng, (d0, 2), dt), ("go", "gb"), tags="G1"),
                            qtn.Tensor(rnd(rng, (2, d0), dt), ("gb", "gi"), tags="G2")])
    return [C(o[0], g, "gi", "go"), C([o[0]], g2, ["gi"], ["go"]), C(["absent"], g, ["gi"], ["go"])]


@args_for("TensorNetwork.gate_sandwich_inds")
def _(x, rng, qtn, dt):
    o = outer_of(x)
    same = [(a, b) for a, b in itertools.combinations(o, 2) if size_of(x, a) == size_of(x, b)]
    need(same)
    a, b = same[0]
    d = size_of(x, a)
    return [C(rnd(rng, (d, d), dt), [a], [b]), C(rnd(rng, (d, d), dt), [a], [b], contract=True)]


@args_for("TensorNetwork.gauge_all_canonize", "TensorNetwork.gauge_all_simple", "TensorNetwork.gauge_all_belief_propagation")
def _(x, rng, qtn, dt):
    need(inner_of(x))
    return [C(max_iterations=2).flag(gauge=True, loose=1e3), C(max_iterations=0).flag(gauge=True, note="no iterations")]


@args_for("TensorNetwork.gauge_all")
def _(x, rng, qtn, dt):
    need(inner_of(x))
    return [C().flag(gauge=True, loose=1e3), C("simple", max_iterations=2).flag(gauge=True, loose=1e3)]


@args_for("TensorNetwork.gauge_all_random")
def _(x, rng, qtn, dt):
    need(inner_of(x))
    return [C(seed=3).flag(gauge=True, noperm=True, loose=1e3, note="random gauges follow the bond order")]


@args_for("TensorNetwork.insert_compressor_between_regions")
def _(x, rng, qtn, dt):
    a, b, _ = bonded_pair(x)
    return [C([a], [b], max_bond=2).flag(gauge=True, loose=1e3)]


@args_for("TensorNetwork.insert_operator")
def _(x, rng, qtn, dt):
    a, b, bond = bonded_pair(x)
    d = size_of(x, bond)
    return [C(rnd(rng, (d, d), dt), a, b), C(rnd(rng, (d, d), dt), b, a, tags="OP")]


@args_for("TensorNetwork.drape_bond_between")
def _(x, rng, qtn, dt):
    a, b, _ = bonded_pair(x)
    others = [g for g in unique_tags(x) if g not in (a, b)]
    need(others)
    return [C(a, b, others[0])]


@args_for("TensorNetwork.isometrize", "TensorNetwork.unitize")
def _(x, rng, qtn, dt):
    out = [C(allow_no_left_inds=True).flag(gauge=True)]
    if all(t.left_inds is not None for t in x.tensor_map.values()):
        out += [C(method=m).flag(gauge=True) for m in ("qr", "svd", "exp", "cayley", "mgs")]
    return out


@args_for("TensorNetwork.multiply")
def _(x, rng, qtn, dt):
    return [C(2.5), C(-1.5, spread_over=2), C(0.5 + (0.5j if "complex" in dt else 0.0), spread_over="all"),
            C(1.0).flag(note="multiply by one"), C(3.0, spread_over=1)]


@args_for("TensorNetwork.multiply_each")
def _(x, rng, qtn, dt):
    return [C(1.5)]


@args_for("TensorNetwork.partition", "TensorNetwork.partition_tensors")
def _(x, rng, qtn, dt):
    g = tags_of(x)
    need(g)
    return [C(g[0]), C(g[:2], which="all"), C(g[:2], which="any")]


@args_for("TensorNetwork.replace_with_identity")
def _(x, rng, qtn, dt):
    # a region (one uniquely tagged tensor) whose boundary consists of exactly two labels of equal size
    o = set(outer_of(x))
    out = []
    for tag in unique_tags(x):
        t = x[tag]
        if len(t.inds) == 2 and t.shape[0] == t.shape[1]:
            touches_outer = bool(o.intersection(t.inds))
            out.append(C(tag).flag(gauge=True, note="a leg of the region is an outer label of the network" if touches_outer
                                   else "both legs of the region are bonds"))
    out = out[:3] + [C(()).flag(note="empty region"), C([]).flag(note="empty region")]
    return out


@args_for("TensorNetwork.replace_with_svd")
def _(x, rng, qtn, dt):
    g = unique_tags(x)
    need(g)
    t = x[g[0]]
    need(len(t.inds) >= 2)
    return [C(g[0], t.inds[:1], 1e-10, method="svd").flag(gauge=True, loose=1e3)]


@args_for("TensorNetwork.squeeze")
def _(x, rng, qtn, dt):
    return [C(), C(fuse=True), C(exclude=outer_of(x))]


@args_for("TensorNetwork.view_as")
def _(x, rng, qtn, dt):
    return [C(qtn.TensorNetwork)]


@args_for("TensorNetwork.view_like")
def _(x, rng, qtn, dt):
    return [C(x.copy()), C(qtn.TensorNetwork([]))]


@args_for("TensorNetwork.fit")
def _(x, rng, qtn, dt):
    need(outer_of(x) and len(x.tensor_map) <= 6)
    target = x.copy()
    for t in target.tensor_map.values():
        t.modify(data=rnd(rng, t.shape, dt))
    target.mangle_inner_()  # a distinct network: `tn | target` inside the fitters then has no inner label to rename
    need(len(x.tensor_map) > 1)
    out = [C(target, steps=2, progbar=False, enforce_pos=True).flag(gauge=True, loose=1e6)]
    if is_tree(x):
        out.append(C(target, method="tree", steps=2, progbar=False).flag(gauge=True, loose=1e6))
    return out


# ---- arbitrary geometry: TensorNetworkGen / Vector / Operator ------------------------------------

def like_vector(x, rng, qtn, dt):
    """a vector network with the geometry / site labels of x but new random data"""
    y = x.copy()
    for t in y.tensor_map.values():
        t.modify(data=rnd(rng, t.shape, dt))
    return y


def phys(x, site):
    return size_of(x, x.site_ind(site))


def operator_like(x, rng, qtn, dt, sites=None, lower=None):
    """an operator network on the sites of the vector x: lower labels = x's site labels (or ``lower``), upper 'u..'"""
    if type(x)._NDIMS == 2 and sites is None:
        return qtn.PEPO.rand(x.Lx, x.Ly, 2, phys_dim=phys(x, (0, 0)), dtype=dt, seed=int(rng.integers(1 << 30)),
                             upper_ind_id="u{},{}", lower_ind_id=x.site_ind_id if lower is None else lower)
    need(type(x)._NDIMS == 1, "no operator class for this geometry")
    sites = list(x.sites) if sites is None else list(sites)
    ts = []
    for k, s in enumerate(sites):
        d = phys(x, s)
        inds = ["u{}".format(s), x.site_ind(s) if lower is None else lower.format(s)]
        shape = [d, d]
        if k > 0:
            inds.append(f"ob{k - 1}")
            shape.append(2)
        if k < len(sites) - 1:
            inds.append(f"ob{k}")
            shape.append(2)
        ts.append(qtn.Tensor(rnd(rng, shape, dt), inds, tags=x.site_tag(s)))
    tn = qtn.TensorNetwork(ts)
    return tn.view_as_(qtn.TensorNetworkGenOperator, sites=sites, site_tag_id=x.site_tag_id, upper_ind_id="u{}",
                       lower_ind_id=x.site_ind_id if lower is None else lower)


def vector_under(x, rng, qtn, dt):
    """a vector network living on the lower labels of the operator x"""
    if type(x)._NDIMS == 2:
        return qtn.PEPS.rand(x.Lx, x.Ly, 2, phys_dim=size_of(x, x.lower_ind((0, 0))), dtype=dt, seed=int(rng.integers(1 << 30)),
                             site_ind_id=x.lower_ind_id)
    need(type(x)._NDIMS == 1, "no vector class for this geometry")
    sites = list(x.sites)
    ts = []
    for k, s in enumerate(sites):
        d = size_of(x, x.lower_ind(s))
        inds, shape = [x.lower_ind(s)], [d]
        if k > 0:
            inds.append(f"vb{k - 1}")
            shape.append(2)
        if k < len(sites) - 1:
            inds.append(f"vb{k}")
            shape.append(2)
        ts.append(qtn.Tensor(rnd(rng, shape, dt), inds, tags=x.site_tag(s)))
    return qtn.TensorNetwork(ts).view_as_(qtn.TensorNetworkGenVector, sites=sites, site_tag_id=x.site_tag_id,
                                          site_ind_id=x.lower_ind_id)


@args_for("TensorNetworkGen.flatten", "TensorNetwork1D.flatten", "TensorNetwork2D.flatten", "TensorNetwork3D.flatten")
def _(x, rng, qtn, dt):
    return [C(), C(fuse_multibonds=False)]


@args_for("TensorNetworkGen.retag_all")
def _(x, rng, qtn, dt):
    n = x.site_tag_id.count("{}")
    return [C("Z" + ",".join(["{}"] * n))]


@args_for("TensorNetworkGen.retag_sites")
def _(x, rng, qtn, dt):
    n = x.site_tag_id.count("{}")
    new = "Z" + ",".join(["{}"] * n)
    return [C(new), C(new, where=list(x.sites)[:1])]


@args_for("TensorNetworkGenVector.reindex_all", "TensorNetworkGenVector.reindex_sites", "TensorNetwork1DVector.reindex_sites",
          "TensorNetwork2DVector.reindex_sites", "TensorNetwork3DVector.reindex_sites")
def _(x, rng, qtn, dt):
    n = x.site_ind_id.count("{}")
    new = "q" + ",".join(["{}"] * n)
    out = [C(new)]
    return out


@args_for("TensorNetworkGenOperator.reindex_lower_sites", "TensorNetworkGenOperator.reindex_upper_sites",
          "TensorNetwork2DOperator.reindex_lower_sites", "TensorNetwork2DOperator.reindex_upper_sites")
def _(x, rng, qtn, dt):
    n = x.upper_ind_id.count("{}")
    new = "q" + ",".join(["{}"] * n)
    return [C(new), C(new, where=list(x.sites)[:1])]


@args_for("TensorNetwork1DOperator.reindex_lower_sites", "TensorNetwork1DOperator.reindex_upper_sites")
def _(x, rng, qtn, dt):
    return [C("q{}"), C("q{}", where=slice(0, 1)), C("q{}", where=slice(1, x.L))]


def _gate_cases(x, rng, dt, modes2, extra=None):
    sites = list(x.sites)
    extra = extra or {}
    d0 = phys(x, sites[0]) if hasattr(x, "site_ind") else size_of(x, x.upper_ind(sites[0]))
    out = [C(rnd(rng, (d0, d0), dt), sites[0], **extra), C(rnd(rng, (d0, d0), dt), (sites[-1],), contract=True, **extra)]
    if len(sites) >= 2:
        pair = None
        for a, b in itertools.combinations(sites, 2):
            ta, tb = x[x.site_tag(a)], x[x.site_tag(b)]
            if is_tensor(ta) and is_tensor(tb) and len([ix for ix in ta.inds if ix in tb.inds]) == 1:
                pair = (a, b)
                break
        if pair:
            da = phys(x, pair[0]) if hasattr(x, "site_ind") else size_of(x, x.upper_ind(pair[0]))
            db = phys(x, pair[1]) if hasattr(x, "site_ind") else size_of(x, x.upper_ind(pair[1]))
            G = rnd(rng, (da * db, da * db), dt)
            for m in modes2:
                out.append(C(G, pair, contract=m, **extra).flag(gauge=m not in (False, True), note=f"contract={m}"))
            out.append(C(G, pair[::-1], contract=False, **extra).flag(note="reversed sites"))
    return out


@args_for("TensorNetworkGenVector.gate", "TensorNetwork2DVector.gate", "TensorNetwork3DVector.gate")
def _(x, rng, qtn, dt):
    return _gate_cases(x, rng, dt, (False, True, "split", "reduce-split"))


@args_for("TensorNetworkGenOperator.gate", "TensorNetworkGenOperator.gate_upper", "TensorNetworkGenOperator.gate_lower",
          "TensorNetworkGenOperator.gate_sandwich")
def _(x, rng, qtn, dt):
    return _gate_cases(x, rng, dt, (False, True, "split"))


@args_for("TensorNetworkGenVector.gate_simple", "TensorNetworkGenOperator.gate_simple")
def _(x, rng, qtn, dt):
    sites = list(x.sites)
    need(len(sites) >= 2)
    pair = None
    for a, b in itertools.combinations(sites, 2):
        ta, tb = x[x.site_tag(a)], x[x.site_tag(b)]
        if is_tensor(ta) and is_tensor(tb) and len([ix for ix in ta.inds if ix in tb.inds]) == 1:
            pair = (a, b)
            break
    need(pair)
    pd = (lambda s_: phys(x, s_)) if hasattr(x, "site_ind") else (lambda s_: size_of(x, x.upper_ind(s_)))
    da, db = pd(pair[0]), pd(pair[1])
    G = rnd(rng, (da * db, da * db), dt)
    return [C(G, pair, {}).flag(gauge=True, loose=1e3, mut=(2,)),
            C(rnd(rng, (da, da), dt), (pair[0],), {}).flag(gauge=True, loose=1e3, mut=(2,))]


@args_for("TensorNetworkGenVector.gate_with_op_lazy")
def _(x, rng, qtn, dt):
    A = operator_like(x, rng, qtn, dt)
    return [C(A), C(A, transpose=True)]


@args_for("TensorNetworkGenOperator.gate_upper_with_op_lazy", "TensorNetworkGenOperator.gate_lower_with_op_lazy")
def _(x, rng, qtn, dt):
    A = like_vector(x, rng, qtn, dt)
    return [C(A), C(A, transpose=True)]


@args_for("TensorNetworkGenOperator.gate_sandwich_with_op_lazy")
def _(x, rng, qtn, dt):
    return [C(like_vector(x, rng, qtn, dt))]


@args_for("TensorNetworkGenOperator.apply", "TensorNetworkGenOperator.dot")
def _(x, rng, qtn, dt):
    # a vector on the lower labels of x, and another operator
    v = vector_under(x, rng, qtn, dt)
    out = [C(v).flag(gauge=True), C(v, contract=False).flag(gauge=True), C(like_vector(x, rng, qtn, dt)).flag(gauge=True)]
    return out


@args_for("TensorNetworkGenOperator.partial_transpose")
def _(x, rng, qtn, dt):
    s = list(x.sites)
    return [C(s[:1]), C(s)]


@args_for("TensorNetworkGen.align")
def _(x, rng, qtn, dt):
    need(hasattr(x, "site_ind_id") or hasattr(x, "upper_ind_id"), "no site labels")
    n = (x.site_ind_id if hasattr(x, "site_ind_id") else x.upper_ind_id).count("{}")
    w = "w" + ",".join(["{}"] * n)
    if hasattr(x, "site_ind"):
        A = operator_like(x, rng, qtn, dt, lower=w)
        y = like_vector(x, rng, qtn, dt)
        return [C(A, y), C(y), C(A, y, ind_ids=(x.site_ind_id, "mid" + w[1:]))]
    if hasattr(x, "upper_ind"):
        B = like_vector(x, rng, qtn, dt)
        B.lower_ind_id = w
        return [C(B), C(B, trace=True)]
    raise Skip("no site labels")


# ---- 1D -----------------------------------------------------------------------------------------

def mpo_like(x, rng, qtn, dt, sites=None):
    L = x.L
    if sites is None:
        return qtn.MPO_rand(L, 2, phys_dim=phys(x, 0), dtype=dt, cyclic=bool(getattr(x, "cyclic", False)),
                            seed=int(rng.integers(1 << 30)), upper_ind_id="u{}", lower_ind_id=x.site_ind_id)
    return qtn.MPO_rand(L, 2, phys_dim=phys(x, sites[0]), dtype=dt, seed=int(rng.integers(1 << 30)), sites=sites)


@args_for("MatrixProductState.add_MPS")
def _(x, rng, qtn, dt):
    y = like_vector(x, rng, qtn, dt)
    return [C(y), C(y, compress=True, cutoff=0.0).flag(gauge=True)]


@args_for("MatrixProductOperator.add_MPO")
def _(x, rng, qtn, dt):
    y = like_vector(x, rng, qtn, dt)
    return [C(y), C(y, compress=True, cutoff=0.0).flag(gauge=True)]


@args_for("TensorNetwork1DFlat.as_cyclic")
def _(x, rng, qtn, dt):
    return [C()]


@args_for("TensorNetwork1DFlat.canonicalize")
def _(x, rng, qtn, dt):
    need(not x.cyclic)
    L = x.L
    out = [C(0).flag(gauge=True), C(L - 1).flag(gauge=True), C((0, L - 1)).flag(gauge=True)]
    if L > 2:
        out.append(C((2, 1)).flag(gauge=True, note="reversed pair"))
    return out


@args_for("TensorNetwork1DFlat.left_canonicalize", "TensorNetwork1DFlat.right_canonicalize")
def _(x, rng, qtn, dt):
    need(not x.cyclic)
    return [C().flag(gauge=True), C(normalize=True).flag(gauge=True)]


@args_for("TensorNetwork1DFlat.expand_bond_dimension")
def _(x, rng, qtn, dt):
    need(x.L > 1)
    return [C(5), C(4, create_bond=True), C(1).flag(note="nothing to expand")]


@args_for("TensorNetwork1DFlat.swap_site_to")
def _(x, rng, qtn, dt):
    need(x.L >= 3 and not x.cyclic and hasattr(x, "site_ind"))
    return [C(0, 2).flag(gauge=True), C(x.L - 1, 0, cutoff=0.0).flag(gauge=True), C(1, 1).flag(gauge=True, note="i == f")]


@args_for("TensorNetwork1DFlat.swap_sites_with_compress")
def _(x, rng, qtn, dt):
    need(x.L >= 2 and not x.cyclic and hasattr(x, "site_ind"))
    out = [C(0, 1).flag(gauge=True), C(1, 0, cutoff=0.0).flag(gauge=True)]
    if x.L >= 3:
        out.append(C(2, 0, cutoff=0.0).flag(gauge=True, note="non-adjacent"))
    return out


def local_terms(x, rng, dt):
    terms = {}
    for i in range(x.L - 1):
        d0, d1 = phys(x, i), phys(x, i + 1)
        terms[(i, i + 1)] = rnd(rng, (d0 * d1, d0 * d1), dt)
    terms[(0,)] = rnd(rng, (phys(x, 0), phys(x, 0)), dt)
    return terms


@args_for("MatrixProductState.compute_local_expectation_canonical")
def _(x, rng, qtn, dt):
    need(not x.cyclic and x.L >= 2)
    terms = local_terms(x, rng, dt)
    return [C(terms), C(terms, normalized=False, return_all=True), C({}).flag(note="no terms")]


@args_for("MatrixProductState.compute_local_expectation")
def _(x, rng, qtn, dt):
    need(not x.cyclic and x.L >= 2)
    terms = local_terms(x, rng, dt)
    return [C(terms), C(terms, normalized=False, return_all=True), C(terms, method="envs", max_bond=16),
            C(terms, method="canonical", return_all=True)]


@args_for("TensorNetwork1D.contract_structured")
def _(x, rng, qtn, dt):
    need(x.L >= 2)
    return [C(slice(0, 2)), C(...), C(slice(x.L - 1, 0, -1) if not getattr(x, "cyclic", False) else slice(0, x.L))]


@args_for("MatrixProductState.flip")
def _(x, rng, qtn, dt):
    return [C()]


@args_for("TensorNetwork1DVector.gate")
def _(x, rng, qtn, dt):
    L = x.L
    d0 = phys(x, 0)
    out = [C(rnd(rng, (d0, d0), dt), 0), C(rnd(rng, (d0, d0), dt), (L - 1,), contract=True)]
    if type(x).__name__ == "MatrixProductState" and not getattr(x, "cyclic", False):
        # one-site gates through the two-site machinery (ng == 1 shortcuts of gate_TN_1D)
        out += [C(rnd(rng, (d0, d0), dt), (0,), contract="swap+split").flag(gauge=True, note="one site, swap+split"),
                C(rnd(rng, (d0, d0), dt), (0,), contract="nonlocal").flag(gauge=True, note="one site, nonlocal")]
    if L >= 2:
        d1 = phys(x, 1)
        G = rnd(rng, (d0 * d1, d0 * d1), dt)
        cyc = bool(getattr(x, "cyclic", False))
        is_mps = type(x).__name__ == "MatrixProductState"
        for m in (False, True, "split", "reduce-split") + (("swap+split",) if is_mps else ()) if not cyc else (False, True, "split"):
            out.append(C(G, (0, 1), contract=m).flag(gauge=m not in (False, True), note=f"contract={m}"))
        out.append(C(G, (1, 0), contract=False).flag(note="reversed sites"))
        if L >= 3 and not cyc and is_mps:
            d2 = phys(x, 2)
            out.append(C(rnd(rng, (d0 * d2, d0 * d2), dt), (2, 0), contract="swap+split").flag(gauge=True, note="distant reversed"))
    return out


@args_for("MatrixProductState.gate_split")
def _(x, rng, qtn, dt):
    need(x.L >= 2 and not x.cyclic)
    d0, d1 = phys(x, 0), phys(x, 1)
    G = rnd(rng, (d0 * d1, d0 * d1), dt)
    return [C(G, (0, 1)).flag(gauge=True), C(G, (1, 0), cutoff=0.0).flag(gauge=True, note="reversed sites")]


@args_for("MatrixProductState.gate_with_auto_swap", "MatrixProductState.gate_nonlocal")
def _(x, rng, qtn, dt):
    need(x.L >= 2 and not x.cyclic)
    d0, d1 = phys(x, 0), phys(x, 1)
    out = [C(rnd(rng, (d0 * d1, d0 * d1), dt), (0, 1)).flag(gauge=True)]
    if x.L >= 3:
        d2 = phys(x, 2)
        out.append(C(rnd(rng, (d0 * d2, d0 * d2), dt), (2, 0), cutoff=0.0).flag(gauge=True, note="distant reversed"))
    return out


@args_for("MatrixProductState.gate_with_mpo")
def _(x, rng, qtn, dt):
    need(not x.cyclic)
    A = mpo_like(x, rng, qtn, dt)
    return [C(A).flag(gauge=True), C(A, method="zipup", max_bond=8, cutoff=0.0).flag(gauge=True),
            C(A, method="lazy").flag(gauge=True, note="lazy")]


@args_for("MatrixProductState.gate_with_submpo")
def _(x, rng, qtn, dt):
    need(not x.cyclic and x.L >= 3)
    A = mpo_like(x, rng, qtn, dt, sites=[0, 2])
    return [C(A).flag(gauge=True), C(A, method="lazy").flag(gauge=True, note="lazy")]


@args_for("MatrixProductState.measure")
def _(x, rng, qtn, dt):
    need(not x.cyclic)
    return [C(0, seed=7).flag(gauge=True), C(x.L - 1, outcome=0, remove=True).flag(gauge=True), C(0, seed=3, get="outcome")]


@args_for("MatrixProductOperator.fill_empty_sites")
def _(x, rng, qtn, dt):
    return [C(), C(mode="minimal")]


@args_for("MatrixProductOperator.gate_sandwich_with_auto_swap")
def _(x, rng, qtn, dt):
    need(not x.cyclic and x.L >= 2)
    d0 = size_of(x, x.upper_ind(0))
    d1 = size_of(x, x.upper_ind(1))
    return [C(rnd(rng, (d0 * d1, d0 * d1), dt), (0, 1)).flag(gauge=True, loose=10),
            C(rnd(rng, (d0 * d1, d0 * d1), dt), (1, 0), dagger=True).flag(gauge=True, loose=10)]


# ---- 2D / 3D ---------------------------------------------------------------------------------------

@args_for("PEPS.add_PEPS", "PEPO.add_PEPO")
def _(x, rng, qtn, dt):
    return [C(like_vector(x, rng, qtn, dt))]


def flat(x):
    need(not outer_of(x), "needs a network without physical labels")


@args_for("TensorNetwork2D.contract_boundary", "TensorNetwork3D.contract_boundary")
def _(x, rng, qtn, dt):
    flat(x)
    out = [C(max_bond=8).flag(gauge=True, loose=1e3)]
    if type(x)._NDIMS == 2:
        out.append(C(max_bond=8, sequence=["xmin", "ymax"], canonize=False, cutoff=0.0).flag(gauge=True, loose=1e3))
        out.append(C(max_bond=8, mode="full-bond", final_contract=False).flag(gauge=True, loose=1e3))
    return out


@args_for("TensorNetwork2D.contract_boundary_from")
def _(x, rng, qtn, dt):
    flat(x)
    return [C((0, 1), (0, x.Ly - 1), "xmin", max_bond=8).flag(gauge=True, loose=1e3),
            C((0, x.Lx - 1), (x.Ly - 2, x.Ly - 1), "ymax", max_bond=8, sweep_reverse=True).flag(gauge=True, loose=1e3),
            C((0, 1), (0, x.Ly - 1), "xmin", max_bond=8, mode="full-bond").flag(gauge=True, loose=1e3, note="full-bond"),
            C((0, 1), (0, x.Ly - 1), "xmin", max_bond=8, mode="projector2d").flag(gauge=True, loose=1e3, note="projector2d")]


@args_for("TensorNetwork2D.contract_boundary_from_xmin", "TensorNetwork2D.contract_boundary_from_ymin")
def _(x, rng, qtn, dt):
    flat(x)
    return [C((0, 1), max_bond=8).flag(gauge=True, loose=1e3)]


@args_for("TensorNetwork2D.contract_boundary_from_xmax")
def _(x, rng, qtn, dt):
    flat(x)
    return [C((x.Lx - 2, x.Lx - 1), max_bond=8).flag(gauge=True, loose=1e3)]


@args_for("TensorNetwork2D.contract_boundary_from_ymax")
def _(x, rng, qtn, dt):
    flat(x)
    return [C((x.Ly - 2, x.Ly - 1), max_bond=8).flag(gauge=True, loose=1e3)]


@args_for("TensorNetwork2D.contract_mps_sweep")
def _(x, rng, qtn, dt):
    flat(x)
    return [C(max_bond=8, direction="xmin").flag(gauge=True, loose=1e3)]


@args_for("TensorNetwork2D.contract_ctmrg", "TensorNetwork2D.contract_hotrg", "TensorNetwork3D.contract_ctmrg",
          "TensorNetwork3D.contract_hotrg")
def _(x, rng, qtn, dt):
    flat(x)
    return [C(max_bond=4).flag(gauge=True, loose=1e4), C(max_bond=4, final_contract=False).flag(gauge=True, loose=1e4)]


@args_for("TensorNetwork2D.coarse_grain_hotrg", "TensorNetwork3D.coarse_grain_hotrg")
def _(x, rng, qtn, dt):
    flat(x)
    return [C("x", max_bond=4).flag(gauge=True, loose=1e4), C("y", max_bond=16, cutoff=0.0).flag(gauge=True, loose=1e4)]


@args_for("TensorNetwork3D.contract_boundary_from")
def _(x, rng, qtn, dt):
    flat(x)
    return [C((0, 1), (0, x.Ly - 1), (0, x.Lz - 1), "xmin", max_bond=8).flag(gauge=True, loose=1e3),
            C((0, 1), (0, x.Ly - 1), (0, x.Lz - 1), "xmin", max_bond=8, mode="projector3d").flag(gauge=True, loose=1e3),
            C((0, 1), (0, x.Ly - 1), (0, x.Lz - 1), "zmax", max_bond=8, mode="mps").flag(gauge=True, loose=1e3)]


@args_for("TensorNetwork3D.contract_peps_sweep", "TensorNetwork3D.contract_simple_sweep")
def _(x, rng, qtn, dt):
    flat(x)
    return [C(8).flag(gauge=True, loose=1e3)]


@args_for("TensorNetwork2DFlat.expand_bond_dimension")
def _(x, rng, qtn, dt):
    return [C(3), C(4, rand_strength=0.0), C(1).flag(note="nothing to expand")]


@args_for("TensorNetwork2DVector.normalize")
def _(x, rng, qtn, dt):
    return [C(max_bond=16).flag(gauge=True, loose=1e3)]


# ----------------------------------------------------------------------------------------------
# binary operators
# ----------------------------------------------------------------------------------------------

K_BIN = "binary / unary operators leave their operands unchanged, are invariant under axis permutations of the operands and agree with numpy on the labelled values"


def binary_cases(qtn, rng, dt):
    """(name, operands tuple, function(*operands), reference(value function) or None)"""
    out = []
    T = qtn.Tensor
    a = T(rnd(rng, (2, 3, 2), dt), ("a", "e", "c"), tags="X")
    b = T(rnd(rng, (2, 2, 3), dt), ("c", "a", "e"), tags="Y")       # same labels, other storage order
    c = T(rnd(rng, (3, 4), dt), ("e", "f"), tags="Z")
    g = T(rnd(rng, (2, 4), dt), ("e", "f"), tags="Z")                 # joins the networks' outer label e (size 2)
    one = T(rnd(rng, (1, 3), dt), ("a", "e"))                          # broadcasts over a
    s = 1.5 - (0.5j if "complex" in dt else 0.0)

    def val(t, order):
        o, v = dense_value(t, outer=list(order))
        return v

    abc = ("a", "c", "e")
    out += [
        ("T+T", (a, b), lambda x, y: x + y, lambda r, x, y: _close(val(r, abc), val(x, abc) + val(y, abc), "t1+t2")),
        ("T-T", (a, b), lambda x, y: x - y, lambda r, x, y: _close(val(r, abc), val(x, abc) - val(y, abc), "t1-t2")),
        ("T*T", (a, b), lambda x, y: x * y, lambda r, x, y: _close(val(r, abc), val(x, abc) * val(y, abc), "t1*t2")),
        ("T/T", (a, b), lambda x, y: x / y, lambda r, x, y: _close(val(r, abc), val(x, abc) / val(y, abc), "t1/t2")),
        ("T+broadcast", (a, one), lambda x, y: x + y, None),
        ("T*s", (a,), lambda x: x * s, lambda r, x: _close(val(r, abc), val(x, abc) * s, "t*s")),
        ("s*T", (a,), lambda x: s * x, lambda r, x: _close(val(r, abc), val(x, abc) * s, "s*t")),
        ("T/s", (a,), lambda x: x / s, lambda r, x: _close(val(r, abc), val(x, abc) / s, "t/s")),
        ("s-T", (a,), lambda x: 2.0 - x, lambda r, x: _close(val(r, abc), 2.0 - val(x, abc), "s-t")),
        ("T**2", (a,), lambda x: x ** 2, lambda r, x: _close(val(r, abc), val(x, abc) ** 2, "t**2")),
        ("-T", (a,), lambda x: -x, lambda r, x: _close(val(r, abc), -val(x, abc), "-t")),
        ("T@T", (a, c), lambda x, y: x @ y, lambda r, x, y: _close(val(r, ("a", "c", "f")),
                                                                 np.einsum("aec,ef->acf", x.data, y.data), "t1@t2")),
        ("T@T scalar", (a, b), lambda x, y: x @ y, lambda r, x, y: _close(r, np.einsum("aec,cae->", x.data, y.data), "t1@t2")),
        ("T&T", (a, c), lambda x, y: x & y, None),
        ("T|T", (a, c), lambda x, y: x | y, None),
    ]
    # networks
    def net():
        ts = [T(rnd(rng, (2, 3), dt), ("a", "x"), tags=("A",)), T(rnd(rng, (3, 2, 2), dt), ("x", "y", "s"), tags=("B",)),
              T(rnd(rng, (2, 2), dt), ("y", "e"), tags=("C",))]
        tn = qtn.TensorNetwork(ts)
        tn.exponent = 0.25
        return tn
    n1, n2, n3 = net(), net(), net()
    n2.reindex_({"a": "a2", "e": "e2", "s": "s2"})                     # inner labels x, y clash with n1's
    n3.reindex_({"a": "a3", "e": "e3", "s": "s3", "x": "x3", "y": "y3"})  # nothing clashes
    o1_, o2_, o3_ = ["a", "e", "s"], ["a2", "e2", "s2"], ["a3", "e3", "s3"]

    def outer_prod(r, x, y, ox, oy, what):
        return _close(dense_value(r, outer=ox + oy)[1], np.multiply.outer(dense_value(x, outer=ox)[1], dense_value(y, outer=oy)[1]), what)

    out += [
        ("TN&TN", (n1, n2), lambda x, y: x & y, lambda r, x, y: outer_prod(r, x, y, o1_, o2_, "tn&tn")),
        ("TN|TN", (n1, n3), lambda x, y: x | y, lambda r, x, y: outer_prod(r, x, y, o1_, o3_, "tn|tn")),
        # `|` views the operands' tensors and renames clashing INNER labels of the second operand in place (documented
        # virtual combination): that operand must keep its labelled value (outer labels, tags, einsum value)
        ("TN|TN inner-label clash", (n1, n2), lambda x, y: x | y, lambda r, x, y: outer_prod(r, x, y, o1_, o2_, "tn|tn"), "value"),
        ("TN&T", (n1, g), lambda x, y: x & y, None),
        ("TN|T", (n1, g), lambda x, y: x | y, None),
        ("TN^all", (n1,), lambda x: x ^ all, lambda r, x: same_labelled_value(r, x, "tn^all", check_structure=False)),
        ("TN^...", (n1,), lambda x: x ^ ..., lambda r, x: same_labelled_value(r, x, "tn^...", check_structure=False)),
        ("TN^tag", (n1,), lambda x: x ^ "B", lambda r, x: same_labelled_value(r, x, "tn^tag", check_structure=False)),
        ("TN^tags", (n1,), lambda x: x ^ ["A", "B"], None),
        ("TN>>seq", (n1,), lambda x: x >> ["A", "B", "C"], lambda r, x: same_labelled_value(r, x, "tn>>", check_structure=False)),
        ("TN@TN", (n1, n1.copy()), lambda x, y: x @ y, lambda r, x, y: _close(r, np.sum(dense_value(x)[1] * dense_value(y)[1]), "tn@tn")),
        ("TN*s", (n1,), lambda x: x * s, lambda r, x: _close(dense_value(r)[1], dense_value(x)[1] * s, "tn*s")),
        ("s*TN", (n1,), lambda x: s * x, lambda r, x: _close(dense_value(r)[1], dense_value(x)[1] * s, "s*tn")),
        ("TN/s", (n1,), lambda x: x / s, lambda r, x: _close(dense_value(r)[1], dense_value(x)[1] / s, "tn/s")),
        ("-TN", (n1,), lambda x: -x, lambda r, x: _close(dense_value(r)[1], -dense_value(x)[1], "-tn")),
    ]
    # structured sums
    for cyc in (False, True):
        p1 = qtn.MPS_rand_state(4, 2, dtype=dt, cyclic=cyc, seed=int(rng.integers(1 << 30)))
        p2 = qtn.MPS_rand_state(4, 3, dtype=dt, cyclic=cyc, seed=int(rng.integers(1 << 30)))
        tag = "cyclic" if cyc else "open"
        out += [(f"MPS+MPS {tag}", (p1, p2), lambda x, y: x + y, lambda r, x, y: _close(dense_value(r)[1], dense_value(x)[1] + dense_value(y)[1], "mps+mps")),
                (f"MPS-MPS {tag}", (p1, p2), lambda x, y: x - y, lambda r, x, y: _close(dense_value(r)[1], dense_value(x)[1] - dense_value(y)[1], "mps-mps")),
                (f"MPS*s {tag}", (p1,), lambda x: x * s, lambda r, x: _close(dense_value(r)[1], dense_value(x)[1] * s, "mps*s")),
                (f"MPS/s {tag}", (p1,), lambda x: x / s, lambda r, x: _close(dense_value(r)[1], dense_value(x)[1] / s, "mps/s")),
                (f"MPS@MPS {tag}", (p1, p2), lambda x, y: x @ y, lambda r, x, y: _close(r, np.sum(dense_value(x)[1] * dense_value(y)[1]), "mps@mps"))]
    o1 = qtn.MPO_rand(3, 2, dtype=dt, seed=int(rng.integers(1 << 30)))
    o2 = qtn.MPO_rand(3, 3, dtype=dt, seed=int(rng.integers(1 << 30)))
    out += [("MPO+MPO", (o1, o2), lambda x, y: x + y, lambda r, x, y: _close(dense_value(r)[1], dense_value(x)[1] + dense_value(y)[1], "mpo+mpo")),
            ("MPO-MPO", (o1, o2), lambda x, y: x - y, lambda r, x, y: _close(dense_value(r)[1], dense_value(x)[1] - dense_value(y)[1], "mpo-mpo"))]
    q1 = qtn.PEPS.rand(2, 2, 2, dtype=dt, seed=int(rng.integers(1 << 30)))
    q2 = qtn.PEPS.rand(2, 2, 2, dtype=dt, seed=int(rng.integers(1 << 30)))
    out += [("PEPS+PEPS", (q1, q2), lambda x, y: x + y, lambda r, x, y: _close(dense_value(r)[1], dense_value(x)[1] + dense_value(y)[1], "peps+peps")),
            ("PEPS-PEPS", (q1, q2), lambda x, y: x - y, lambda r, x, y: _close(dense_value(r)[1], dense_value(x)[1] - dense_value(y)[1], "peps-peps"))]
    return out


# ----------------------------------------------------------------------------------------------
# drivers
# ----------------------------------------------------------------------------------------------

def _grid(cx):
    if cx.quick:
        return ("float64", "complex128"), 2, (0,)
    return ("float64", "complex128", "float32", "complex64"), 5, (0, 1, 2, 3)


def _skip_rec(rec):
    return rec.get("orphan") or rec["name"].startswith("_")


@driver("C03", "plain-pair-permutation", chunks=6, timeout=300,
        bound="every method with an `inplace` parameter / every f_ alias found by reflection on Tensor, TensorNetwork, "
              "TensorNetworkGen/GenVector/GenOperator, MatrixProductState (open, cyclic, 2 sites d=3), MatrixProductOperator "
              "(open, cyclic), Dense1D, PEPS 2x3, PEPO 2x2, TensorNetwork2D 3x3, PEPS3D 2x2x2, TensorNetwork3D 2x2x2 receivers; "
              "1-10 argument cases per method from the table (options, reversed / distant sites, dims of 1, stored exponent, "
              "left_inds); dtypes f64/c128 (thorough + f32/c64, 4 seeds); 2 (thorough 5) random axis permutations per case; "
              "truncating / iterative routines compared by value with a loose tolerance, untruncated where the order of "
              "compressions could follow the storage order; reference value = numpy.einsum over all tensors (skipped above 3e7 flops)")
def plain_pair_perm(cx):
    import warnings

    import quimb.tensor as qtn

    warnings.filterwarnings("ignore")
    dts, nperm, seeds = _grid(cx)
    Z = zoo(qtn, cx.quick)
    for seed in seeds:
        for dt in dts:
            for rname, build in Z.items():
                cls = type(build(np.random.default_rng(0), dt))
                for rec in discover(cls):
                    if _skip_rec(rec):
                        continue
                    if not cx.mine():
                        continue
                    if cx.out_of_time():
                        cx.inconclusive.append("plain-pair-permutation: time budget exhausted")
                        return
                    exercise(cx, qtn, rname, build, rec, dt, nperm, cx.seed * 1000 + seed)


@driver("C03", "coverage", chunks=1, timeout=200,
        bound="reflection only: every public method with an `inplace` parameter (or an f_ alias) of the 19 receiver classes "
              "must have at least one receiver for which the argument table yields a case; private (underscore) methods "
              "and aliases without a plain spelling are listed as not exercised")
def coverage(cx):
    import quimb.tensor as qtn

    Z = zoo(qtn, True)
    seen = {}
    for rname, build in Z.items():
        x = build(np.random.default_rng(1), "float64")
        for rec in discover(type(x)):
            key = f"{rec['owner']}.{rec['name']}"
            ent = seen.setdefault(key, dict(n=0, private=_skip_rec(rec), receivers=[], why=""))
            if ent["private"]:
                continue
            try:
                cases = cases_for(rec, x, np.random.default_rng(2), qtn, "float64")
            except Skip as e:
                ent["why"] = str(e)
                continue
            if cases is None:
                ent["why"] = f"no argument-table entry (needs {required_params(rec)})"
                continue
            ent["n"] += len(cases)
            ent["receivers"].append(rname)
    for key, ent in sorted(seen.items()):
        def thunk(ent=ent):
            if ent["private"]:
                return None
            if ent["n"] == 0:
                return f"not exercised: {ent['why'] or 'no receiver accepts it'}"
            return None
        cx.check(K_COVER, dict(method=key, private=ent["private"], cases=ent["n"], receivers=len(ent["receivers"])), thunk,
                 nontrivial=not ent["private"] and ent["n"] > 0)


@driver("C03", "binary-operators", chunks=2, timeout=200,
        bound="+ - * / ** @ & | ^ >> unary - and abs on Tensor (same labels stored in another order, broadcasting, scalars "
              "on both sides), TensorNetwork (stored exponent), MPS +/- (open, cyclic), MPO +/-, PEPS +/-; operands read-only; "
              "2 (thorough 5) axis permutations; values vs numpy on the einsum values of the operands")
def binary_ops(cx):
    import warnings

    import quimb.tensor as qtn

    warnings.filterwarnings("ignore")
    dts, nperm, seeds = _grid(cx)
    for seed in seeds:
        for dt in dts:
            rng = np.random.default_rng([cx.seed, seed, sum(map(ord, dt))])
            for name, operands, fn, ref, *rest in binary_cases(qtn, rng, dt):
                frame = rest[0] if rest else "exact"
                if not cx.mine():
                    continue
                freeze(operands)
                prng = np.random.default_rng([cx.seed, seed, sum(map(ord, dt + name))])
                perms = [freeze(permute_axes(operands, prng)) for _ in range(nperm + (0 if cx.quick else 1))]

                def thunk(operands=operands, fn=fn, ref=ref, perms=perms, frame=frame, dt=dt):
                    _CTX["single"] = dt in ("float32", "complex64")

                    def weak(ops):
                        return [(sorted(outer_of(o)), sorted(tuple(sorted(map(str, t.tags))) for t in o.tensor_map.values()),
                                 dense_value(o)[1]) for o in ops]
                    f0 = fingerprint(operands) if frame == "exact" else weak(operands)
                    r = fn(*operands)
                    if frame == "exact":
                        e = fp_diff(f0, fingerprint(operands), "operands")
                    else:
                        e = None
                        for (o0, t0, v0), (o1, t1, v1) in zip(f0, weak(operands)):
                            e = e or (None if (o0, t0) == (o1, t1) else "operand: outer labels / tags changed") or _close(v0, v1, "operand value")
                    if e:
                        return e
                    if any(r is o for o in operands):
                        return "the operator returned one of its operands"
                    if ref is not None:
                        e = ref(r, *operands)
                        if e:
                            return e
                    for ops in perms:
                        rp = fn(*ops)
                        e = same_labelled_value(r, rp, "op(x, y) vs op on axis-permuted operands")
                        if e:
                            return e
                    return None

                cx.check(K_BIN, dict(op=name, dtype=dt, seed=seed), thunk)
