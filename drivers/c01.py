"""C01 bounded stand-in: every route that evaluates a tensor network against its numpy.einsum denotation.

Reference semantics (shares no code with quimb): the value of a network over the output labels `out` is
``numpy.einsum`` over the raw arrays of all tensors with their labels (labels not in `out` are summed, whatever
their multiplicity) times ``10**exponent``.  Only ``t.data``, ``t.inds`` and ``tn.exponent`` are read from quimb
objects, and only to evaluate a *result* network.
"""

from collections import Counter

import numpy as np

from vf.rtc import driver

DTYPES = ["float64", "complex128", "float32", "complex64"]
SINGLE = ("float32", "complex64", "mixed")
LETTERS = "abcdefghijklmnopqrstuvwxyz"


# ----------------------------------------------------------------------------------------------
# reference semantics
# ----------------------------------------------------------------------------------------------


def _einsum(arrays, labels, out, sequential=False):
    """plain numpy einsum in sublist form; labels are arbitrary hashables.  sequential: fold the operands left to right
    in the order given (the cheap order for chains, whose operands the caller has sorted by site)"""
    sym = {}
    for lab in labels:
        for x in lab:
            sym.setdefault(x, len(sym))
    for x in out:
        if x not in sym:
            raise KeyError(f"output label {x!r} is not a label of the network")
    if len(sym) > 52:
        raise RuntimeError("reference einsum: more than 52 labels")
    args = []
    for a, lab in zip(arrays, labels):
        args.append(a)
        args.append([sym[x] for x in lab])
    args.append([sym[x] for x in out])
    # the full label space of the 1D <bra|op|ket> networks is too large for a single nested loop: numpy's own
    # pairwise ordering is used there (still numpy only)
    space = 1.0
    size = {}
    for a, lab in zip(arrays, labels):
        for d, x in zip(np.shape(a), lab):
            size[x] = d
    for d in size.values():
        space *= d
    if space <= 5000 or len(arrays) < 3:
        return np.einsum(*args)
    if sequential:
        n = len(arrays)
        path = ["einsum_path", (0, 1)] + [(0, m - 1) for m in range(n - 1, 1, -1)]
        return np.einsum(*args, optimize=path)
    return np.einsum(*args, optimize="greedy")


def den(arrays, labels, out, exponent=0.0, sequential=False):
    """(value, scale): value = einsum * 10**exponent in double precision, scale = the same sum with every entry
    replaced by its modulus (a bound on the magnitude of the summed terms, used for scale-aware tolerances)"""
    cplx = any(np.iscomplexobj(a) for a in arrays)
    up = [np.asarray(a, dtype=np.complex128 if cplx else np.float64) for a in arrays]
    f = 10.0 ** float(np.real(exponent))
    val = _einsum(up, labels, out, sequential) * f
    sc = _einsum([np.abs(a) for a in up], labels, out, sequential) * f
    return val, float(np.max(sc)) if np.size(sc) else 0.0


def _site_of(tags):
    """smallest k of the site tags I{k} of a tensor (chains), else 0"""
    ks = [int(t[1:]) for t in tags if t[:1] == "I" and t[1:].isdigit()]
    return min(ks) if ks else 0


def den_tn(tn, out):
    """denotation of a quimb network object (only .data / .inds / .tags / .exponent are read); tensors carrying site
    tags I{k} are folded in site order"""
    ts = sorted(tn.tensor_map.values(), key=lambda t: _site_of(t.tags))
    seq = any(_site_of(t.tags) for t in ts)
    return den([np.asarray(t.data) for t in ts], [tuple(t.inds) for t in ts], out, tn.exponent, sequential=seq)


def _no_nested_pools():
    """the chunk already runs in a (daemonic) worker process: tell cotengra not to create process pools of its own
    for its hyper-optimizer ('worker subprocesses should not auto-create pools')"""
    import cotengra.parallel as par

    par._IS_WORKER = True


def _rtol(dt):
    return 3e-4 if dt in SINGLE else 1e-9


def _cmp(got, ref, scale, rtol, what="value"):
    """scale-aware comparison; shapes first"""
    if not isinstance(got, (np.ndarray, np.generic, int, float, complex)):
        return f"{what}: result is a {type(got).__name__}, not a number or array"
    got = np.asarray(got)
    ref = np.asarray(ref)
    if got.shape != ref.shape:
        return f"{what}: shape {got.shape} != reference {ref.shape}"
    if not np.all(np.isfinite(got)):
        return f"{what}: non-finite entries"
    tol = rtol * max(scale, 1e-300)
    err = float(np.max(np.abs(got - ref))) if got.size else 0.0
    if err <= tol:
        return None
    return f"{what}: max abs diff {err:.3e} > tol {tol:.1e} (scale {scale:.3e}); got {got.ravel()[:3]}, ref {ref.ravel()[:3]}"


# ----------------------------------------------------------------------------------------------
# network specifications (pure data) and their realisation as quimb objects
# ----------------------------------------------------------------------------------------------


class Spec:
    """arrays / labels / tags / exponent of a network, as plain data"""

    def __init__(self, arrays, labels, tags, exponent, dtype):
        self.arrays, self.labels, self.tags, self.exponent, self.dtype = arrays, labels, tags, exponent, dtype
        self.nt = len(arrays)
        self.np_exponent = bool(len(arrays) % 2 == 0 and exponent != 0.0)
        self.counts = Counter(x for lab in labels for x in lab)
        seen = []
        for lab in labels:
            for x in lab:
                if x not in seen:
                    seen.append(x)
        self.all_labels = seen
        self.inferred = tuple(x for x in seen if self.counts[x] == 1)
        self.hyper = any(c > 2 for c in self.counts.values())
        self.self_trace = any(len(set(lab)) != len(lab) for lab in labels)
        self.sizes = {}
        for a, lab in zip(arrays, labels):
            for d, x in zip(a.shape, lab):
                self.sizes[x] = d
        self._cache = {}

    def ref(self, out):
        out = tuple(out)
        if out not in self._cache:
            order = sorted(range(self.nt), key=lambda k: _site_of(self.tags[k]))
            seq = any(_site_of(t) for t in self.tags)
            self._cache[out] = den([self.arrays[k] for k in order], [self.labels[k] for k in order], out, self.exponent,
                                   sequential=seq)
        return self._cache[out]

    def mk(self, qtn, exponent=None, which=None):
        """a fresh quimb network built from copies of the raw arrays"""
        idx = range(self.nt) if which is None else which
        tn = qtn.TensorNetwork([qtn.Tensor(self.arrays[k].copy(), inds=self.labels[k], tags=self.tags[k]) for k in idx])
        ex = self.exponent if exponent is None else exponent
        # the attribute holds a python float or (as after strip_exponent / equalize_norms) a numpy float64
        tn.exponent = np.float64(ex) if self.np_exponent else float(ex)
        return tn

    def needs_explicit(self, out):
        """True when output inference (labels occurring exactly once) does not give `out`"""
        return self.hyper or (out is not None and set(out) != set(self.inferred))

    def select(self, tags, which):
        """indices of the tensors matched by (tags, which) -- independent re-statement of the tag semantics"""
        if tags is ... or tags is all:
            return list(range(self.nt))
        tg = {tags} if isinstance(tags, str) else set(tags)
        r = []
        for k, tt in enumerate(self.tags):
            has_any, has_all = bool(tg & set(tt)), tg <= set(tt)
            if {"any": has_any, "all": has_all, "!any": not has_any, "!all": not has_all}[which]:
                r.append(k)
        return r

    def local_out(self, sel, out):
        """the labels the contraction of the tensors `sel` must keep: those that also sit on another tensor or are
        requested as (global) output; in first-occurrence order"""
        rest = Counter(x for k in range(self.nt) if k not in sel for x in self.labels[k])
        keep = []
        for k in sel:
            for x in self.labels[k]:
                if (x in rest or x in out) and x not in keep:
                    keep.append(x)
        return tuple(keep)

    def inference_fails(self, steps, out):
        """does contracting the nested groups `steps` (lists of tensor indices, growing) with *inferred* local output
        labels (labels seen exactly once in the group) differ from the required local outputs at some step?"""
        cur, done = [], set()
        for sel in steps:
            new = [k for k in sel if k not in done]
            done |= set(new)
            lab = list(cur) + [x for k in new for x in self.labels[k]]
            cnt = Counter(lab)
            if any(c > 2 for c in cnt.values()):
                return True
            naive = {x for x in lab if cnt[x] == 1}
            need = set(self.local_out(sorted(done), out))
            if naive != need:
                return True
            cur = sorted(need)
        return False


def _rand_array(rng, shape, dtype):
    x = rng.normal(size=shape)
    if dtype.startswith("complex"):
        x = x + 1j * rng.normal(size=shape)
    return np.asarray(x).astype(dtype)


def gen_spec(rng, nt, hyper, dtype, exponent, self_trace=False, maxrank=4, prefix=""):
    """random (hyper-)graph network: nt tensors of rank 0..maxrank, dims in {1,2,3}, labels of multiplicity 1..2
    (1..4 when hyper), optionally a label repeated on one tensor (self trace)"""
    nl = int(rng.integers(max(1, nt - 1), nt + 4))
    labels = [[] for _ in range(nt)]
    sizes = {}
    for j in range(nl):
        name = prefix + LETTERS[j]
        room = [k for k in range(nt) if len(labels[k]) < maxrank]
        if not room:
            break
        if hyper:
            m = int(rng.choice([1, 2, 3, 4], p=[0.25, 0.35, 0.25, 0.15]))
            if j == 0 and nt >= 3:
                m = max(m, 3)
        else:
            m = int(rng.choice([1, 2], p=[0.35, 0.65]))
        d = int(rng.choice([1, 2, 2, 3]))
        if self_trace and m == 2 and rng.random() < 0.3:
            room2 = [k for k in room if len(labels[k]) <= maxrank - 2]
            if room2:
                k = int(rng.choice(room2))
                for _ in range(2):
                    labels[k].insert(int(rng.integers(0, len(labels[k]) + 1)), name)
                sizes[name] = d
                continue
        m = min(m, len(room))
        for k in rng.choice(room, size=m, replace=False):
            labels[int(k)].insert(int(rng.integers(0, len(labels[int(k)]) + 1)), name)
        sizes[name] = d
    # bound the reference cost: total label space <= 20000
    while np.prod([float(v) for v in sizes.values()] or [1.0]) > 20000:
        big = [x for x, v in sizes.items() if v == 3]
        sizes[big[0]] = 2
    if dtype == "mixed":  # every tensor draws its own dtype; the network is judged at single precision
        arrays = [_rand_array(rng, tuple(sizes[x] for x in lab), DTYPES[int(rng.integers(0, 4))]) for lab in labels]
    else:
        arrays = [_rand_array(rng, tuple(sizes[x] for x in lab), dtype) for lab in labels]
    tags = []
    for k in range(nt):
        tg = [f"T{k}", "N"]
        for g in ("G0", "G1"):
            if rng.random() < 0.5:
                tg.append(g)
        tags.append(tuple(tg))
    return Spec(arrays, [tuple(lab) for lab in labels], tags, exponent, dtype)


def _rand_path(rng, n):
    """a random explicit contraction path in the linear (opt_einsum) format"""
    if n == 1:
        return [(0,)]
    path = []
    for m in range(n, 1, -1):
        i, j = sorted(int(v) for v in rng.choice(m, size=2, replace=False))
        path.append((i, j))
    return path


def _pick_opt(rng, n):
    o = ["default", "auto", "greedy", "auto-hq", "path"][int(rng.integers(0, 5))]
    if o == "path":
        return "path", _rand_path(rng, n)
    return o, (None if o == "default" else o)


def _exponents(dtype, quick):
    if dtype in SINGLE:
        return [0.0, 1.5, -1.5, 3.0]
    return [0.0, 1.5, -1.5, 30.0] if quick else [0.0, 1.5, -1.5, 30.0, -7.25]


def _out_choices(rng, sp, hyper_mode):
    """output-label requests: inferred (None) when defined, the inferred set in a random order, and (hyper mode) up to
    two arbitrary subsets of size <= 3 of all labels (bonds / hyper labels as outputs, dangling labels summed)"""
    outs = []
    if not sp.hyper:
        outs.append(None)
    outs.append(tuple(str(x) for x in rng.permutation(list(sp.inferred))) if sp.inferred else ())
    if hyper_mode:
        k = int(rng.integers(0, min(3, len(sp.all_labels)) + 1))
        sub = tuple(str(x) for x in rng.choice(sp.all_labels, size=k, replace=False)) if k else ()
        outs.append(sub)
        if len(sub) > 1:
            outs.append(sub[::-1])
    # de-duplicate keeping order
    res = []
    for o in outs:
        if o not in res:
            res.append(o)
    return res


# ----------------------------------------------------------------------------------------------
# turning whatever a route returns into (array, labels)
# ----------------------------------------------------------------------------------------------


def _value_of(qtn, res, out_labels, strip):
    """-> (array, labels or None, error).  TensorNetwork results are evaluated with the reference einsum over
    `out_labels`; (mantissa, exponent) pairs are multiplied out."""
    if isinstance(res, qtn.TensorNetwork):
        try:
            v, _ = den_tn(res, out_labels)
        except KeyError as e:
            return None, None, f"result network lacks a requested label: {e}"
        return v, tuple(out_labels), None
    if strip:
        if not (isinstance(res, tuple) and len(res) == 2):
            return None, None, f"strip_exponent=True but result is {type(res).__name__}, not (mantissa, exponent)"
        m, e = res
        e = np.asarray(e)
        if e.shape != () or np.iscomplexobj(e) and abs(e.imag) > 0 or not np.isfinite(e.real):
            return None, None, f"exponent {e!r} is not a finite real scalar"
        a, lab, err = _value_of(qtn, m, out_labels, False)
        if err:
            return None, None, err
        return np.asarray(a, dtype=np.complex128 if np.iscomplexobj(a) else np.float64) * 10.0 ** float(e.real), lab, None
    if isinstance(res, tuple):
        return None, None, f"unexpected tuple result of length {len(res)}"
    if isinstance(res, qtn.Tensor):
        return np.asarray(res.data), tuple(res.inds), None
    a = np.asarray(res)
    if a.dtype == object:
        return None, None, f"unexpected result type {type(res).__name__}"
    return a, (), None


def _judge(qtn, res, sp, out, strip, what="value", expect=None, rtol=None):
    """compare a route's result with the reference value of `sp` over `out` (None: inferred outputs, any order)"""
    exp_labels = sp.inferred if out is None else tuple(out)
    arr, lab, err = _value_of(qtn, res, exp_labels, strip)
    if err:
        return err
    if expect == "tn" and not isinstance(res, qtn.TensorNetwork):
        return f"in-place call returned {type(res).__name__}, not the network"
    if expect in ("value", "tensor") and isinstance(res, qtn.TensorNetwork):
        return "everything was contracted, not in place, yet a TensorNetwork came back instead of a tensor / scalar"
    if expect == "tensor":
        r0 = res[0] if strip and isinstance(res, tuple) else res
        if not isinstance(r0, qtn.Tensor):
            return f"preserve_tensor=True but got {type(r0).__name__}"
    if out is not None:
        if lab != exp_labels:
            return f"labels {lab} != requested {exp_labels}"
    else:
        if sorted(lab) != sorted(exp_labels):
            return f"labels {lab} != inferred outputs {exp_labels}"
        if lab != exp_labels and arr.ndim == len(lab):
            arr = np.transpose(arr, [lab.index(x) for x in exp_labels])
    ref, scale = sp.ref(exp_labels)
    return _cmp(arr, ref, scale, rtol or _rtol(sp.dtype), what)


# ----------------------------------------------------------------------------------------------
# driver 1: full contraction through every entry point
# ----------------------------------------------------------------------------------------------

N_ALL = "contract(all | ...) == einsum reference x 10**exponent, labels as requested"
N_TAGS_ALL = "contract(tags) with tags matching every tensor == einsum reference x 10**exponent"
N_CTAGS = "contract_tags(tags matching every tensor) == einsum reference x 10**exponent"
N_CUM = "contract_cumulative(tag groups covering every tensor) == einsum reference x 10**exponent"
N_XOR = "tn ^ all, tn ^ ..., tn ^= all == einsum reference x 10**exponent"
N_XOR_TAGS = "tn ^ tags with tags matching every tensor == einsum reference x 10**exponent"
N_RSHIFT = "tn >> tag groups covering every tensor == einsum reference x 10**exponent"
N_TC = "tensor_contract(*tensors, exponent=e) / Tensor.contract == einsum reference x 10**e"
N_ITEM = "item() * 10**tn.exponent of a network contracted in place to a scalar == einsum reference x 10**exponent"


def _cum_groups(rng, sp):
    """a random sequence of tag groups that covers every tensor; returns (tags_seq, steps as tensor index lists)"""
    order = [int(k) for k in rng.permutation(sp.nt)]
    seq, i = [], 0
    while i < len(order):
        b = int(rng.integers(1, 3))
        seq.append([f"T{k}" for k in order[i:i + b]])
        i += b
    style = int(rng.integers(0, 3))
    if style == 1:  # start with a group tag (may match several tensors, or none -> skip it)
        g = ["G0", "G1"][int(rng.integers(0, 2))]
        if sp.select(g, "any"):
            seq = [g] + seq
    elif style == 2 and len(seq) > 1:  # bare strings instead of lists for single tags
        seq = [s[0] if len(s) == 1 else s for s in seq]
    steps, acc = [], set()
    for s in seq:
        acc |= {s} if isinstance(s, str) else set(s)
        steps.append(sp.select(sorted(acc), "any"))
    return seq, steps


@driver("C01", "full-contraction-routes", chunks=6, timeout=200,
        bound="random (hyper)graph networks: 1-6 tensors (quick 1-5) of rank 0-4, dims {1,2,3}, labels of multiplicity "
              "1-4, optional label repeated on one tensor, f32/f64/c64/c128 or a different dtype per tensor, stored exponent "
              "(python float or numpy float64) {0,+-1.5,30,-7.25} (single "
              "precision {0,+-1.5,3}); outputs: inferred, inferred set permuted, arbitrary subsets of <=3 labels in 2 "
              "orders; optimize {default,auto,greedy,auto-hq,random explicit path}; strip_exponent, preserve_tensor, "
              "inplace, equalize_norms {auto,True,False}; rtol 1e-9 (double) / 3e-4 (single) of the sum of |terms|")
def full_routes(cx):
    import quimb.tensor as qtn

    _no_nested_pools()
    rng = cx.rng
    nts = [1, 2, 3, 4, 5] if cx.quick else [1, 2, 3, 4, 5, 6]
    reps = 8 if cx.quick else 60
    grid = [(nt, hy, dt, ei, r) for nt in nts for hy in (False, True) for dt in DTYPES + ["mixed"] for ei in range(5)
            for r in range(reps)]
    for i, (nt, hy, dt, ei, r) in enumerate(grid):
        exps = _exponents(dt, cx.quick)
        if ei >= len(exps):
            continue
        if not cx.mine():
            continue
        if cx.out_of_time():
            cx.inconclusive.append("full-contraction-routes: time budget exhausted before the grid was finished")
            return
        e = exps[ei]
        sp = gen_spec(rng, nt, hy, dt, e, self_trace=(r % 3 == 2))
        base = dict(i=i, nt=nt, dt=dt, e=e, has_exponent=bool(e != 0.0), hyper=sp.hyper, self_trace=sp.self_trace)
        for out in _out_choices(rng, sp, hy):
            pb = dict(base, out=None if out is None else list(out), explicit_out_needed=sp.needs_explicit(out))
            okw = {} if out is None else {"output_inds": out}
            # ---- contract(all | ...) ------------------------------------------------------------------
            for s in range(3):
                oname, opt = _pick_opt(rng, nt)
                tg = [all, ...][int(rng.integers(0, 2))]
                strip, pt = bool(rng.integers(0, 2)), bool(rng.integers(0, 2))
                inplace = s == 2
                p = dict(pb, tags="all" if tg is all else "...", opt=oname, strip=strip, pt=pt, inplace=inplace)
                if oname == "path":
                    p["path"] = [list(x) for x in opt]

                def thunk(tg=tg, opt=opt, strip=strip, pt=pt, inplace=inplace, out=out, okw=okw, sp=sp):
                    tn = sp.mk(qtn)
                    res = tn.contract(tg, optimize=opt, strip_exponent=strip, preserve_tensor=pt, inplace=inplace, **okw)
                    if inplace and res is not tn:
                        return "in-place contraction did not return the network itself"
                    err = _judge(qtn, res, sp, out, strip, expect="tn" if inplace else "tensor" if pt else "value")
                    if err or inplace:
                        return err
                    # not in place: the receiver still denotes the same value
                    return _judge(qtn, tn, sp, out, False, what="receiver after a non-in-place call")

                cx.check(N_ALL, p, thunk)
            # ---- contract(tags) / ^ tags with tags matching every tensor (dispatches to contract_tags) -------
            for s in range(2):
                present = [g for g in ("G0", "G1") if sp.select(g, "any")]
                tags = ["N", ["N"], [f"T{k}" for k in rng.permutation(nt)], present + ["N"]][int(rng.integers(0, 4))]
                oname, opt = _pick_opt(rng, nt)
                strip, inplace = bool(rng.integers(0, 2)), s == 1
                p = dict(pb, tags=tags, opt=oname, strip=strip, inplace=inplace)
                if oname == "path":
                    p["path"] = [list(x) for x in opt]
                def thunk(tags=tags, opt=opt, strip=strip, inplace=inplace, out=out, okw=okw, sp=sp):
                    tn = sp.mk(qtn)
                    res = tn.contract(tags, optimize=opt, strip_exponent=strip, inplace=inplace, **okw)
                    return _judge(qtn, res, sp, out, strip, expect="tn" if inplace else "value")

                cx.check(N_TAGS_ALL, p, thunk)
            # ---- contract_tags covering every tensor -------------------------------------------------------
            for s in range(3):
                tags, which = [("N", "any"), (["N", "T0"], "any"), (["N"], "all"), (..., "any"), (all, "all"),
                               ([f"T{k}" for k in rng.permutation(nt)], "any")][int(rng.integers(0, 6))]
                oname, opt = _pick_opt(rng, nt)
                strip, pt = bool(rng.integers(0, 2)), bool(rng.integers(0, 2))
                eq = ["auto", True, False][int(rng.integers(0, 3))]
                inplace = s == 2
                p = dict(pb, tags="..." if tags is ... else "all" if tags is all else tags, which=which, opt=oname,
                         strip=strip, pt=pt, eq=eq, inplace=inplace)
                if oname == "path":
                    p["path"] = [list(x) for x in opt]
                def thunk(tags=tags, which=which, opt=opt, strip=strip, pt=pt, eq=eq, inplace=inplace, out=out,
                          okw=okw, sp=sp):
                    tn = sp.mk(qtn)
                    if inplace and strip:  # the in-place alias
                        res = tn.contract_tags_(tags, which=which, optimize=opt, strip_exponent=strip,
                                                preserve_tensor=pt, equalize_norms=eq, **okw)
                    else:
                        res = tn.contract_tags(tags, which=which, optimize=opt, strip_exponent=strip,
                                               preserve_tensor=pt, equalize_norms=eq, inplace=inplace, **okw)
                    if inplace and res is not tn:
                        return "in-place contract_tags did not return the network itself"
                    err = _judge(qtn, res, sp, out, strip, expect="tn" if inplace else "tensor" if pt else "value")
                    if err or inplace:
                        return err
                    return _judge(qtn, tn, sp, out, False, what="receiver after a non-in-place call")

                cx.check(N_CTAGS, p, thunk)
            # ---- contract_cumulative over groups covering every tensor ----------------------------------------
            for s in range(2):
                seq, steps = _cum_groups(rng, sp)
                strip, pt = bool(rng.integers(0, 2)), bool(rng.integers(0, 2))
                eq = ["auto", True, False][int(rng.integers(0, 3))]
                oname = ["default", "auto", "greedy"][int(rng.integers(0, 3))]
                inplace = s == 1
                exp_out = sp.inferred if out is None else out
                fails = sp.inference_fails(steps, exp_out)
                p = dict(pb, seq=seq, strip=strip, pt=pt, eq=eq, opt=oname, inplace=inplace, local_inference_fails=fails)

                def thunk(seq=seq, strip=strip, pt=pt, eq=eq, oname=oname, inplace=inplace, out=out, okw=okw, sp=sp):
                    tn = sp.mk(qtn)
                    kw = dict(okw) if oname == "default" else dict(okw, optimize=oname)
                    res = tn.contract_cumulative(seq, strip_exponent=strip, preserve_tensor=pt, equalize_norms=eq,
                                                 inplace=inplace, **kw)
                    err = _judge(qtn, res, sp, out, strip, expect="tn" if inplace else "tensor" if pt else "value")
                    if err or inplace:
                        return err
                    return _judge(qtn, tn, sp, out, False, what="receiver after a non-in-place call")

                cx.check(N_CUM, p, thunk)
            # ---- tensor_contract / Tensor.contract directly ---------------------------------------------------
            oname, opt = _pick_opt(rng, nt)
            strip, pt, how = bool(rng.integers(0, 2)), bool(rng.integers(0, 2)), int(rng.integers(0, 2))
            p = dict(pb, opt=oname, strip=strip, pt=pt, how=["tensor_contract", "Tensor.contract"][how])
            if oname == "path":
                p["path"] = [list(x) for x in opt]

            def thunk(opt=opt, strip=strip, pt=pt, how=how, out=out, okw=okw, sp=sp):
                ts = sp.mk(qtn).tensors
                ex = None if sp.exponent == 0.0 and how else sp.exponent
                if how == 0:
                    res = qtn.tensor_contract(*ts, optimize=opt, strip_exponent=strip, preserve_tensor=pt, exponent=ex, **okw)
                else:
                    res = ts[0].contract(*ts[1:], optimize=opt, strip_exponent=strip, preserve_tensor=pt, exponent=ex, **okw)
                return _judge(qtn, res, sp, out, strip, expect="tensor" if pt else None)

            cx.check(N_TC, p, thunk)
            # ---- item() after an in-place contraction to a scalar ----------------------------------------------
            if (out is None and not sp.inferred) or out == ():
                def thunk(out=out, okw=okw, sp=sp):
                    tn = sp.mk(qtn)
                    tn.contract_(all, **okw)
                    # item() is the mantissa; the stored exponent is multiplied back in by the caller (as the
                    # library's own tests do)
                    return _judge(qtn, tn.item() * 10 ** tn.exponent, sp, (), False)

                cx.check(N_ITEM, pb, thunk)
            # ---- operators (only inferred outputs can be asked for) --------------------------------------------
            if out is None:
                for form in ("^all", "^...", "^=all", "^=..."):
                    def thunk(form=form, sp=sp):
                        tn = sp.mk(qtn)
                        if form == "^all":
                            res = tn ^ all
                        elif form == "^...":
                            res = tn ^ ...
                        else:
                            keep = tn
                            if form == "^=all":
                                tn ^= all
                            else:
                                tn ^= ...
                            if tn is not keep:
                                return "^= rebound the name to another object"
                            res = tn
                        return _judge(qtn, res, sp, None, False, expect="tn" if "=" in form else "value")

                    cx.check(N_XOR, dict(pb, form=form), thunk)
                tags = ["N", [f"T{k}" for k in rng.permutation(nt)]][int(rng.integers(0, 2))]
                def thunk(tags=tags, sp=sp):
                    return _judge(qtn, sp.mk(qtn) ^ tags, sp, None, False)

                cx.check(N_XOR_TAGS, dict(pb, tags=tags, inplace=False), thunk)
                seq, steps = _cum_groups(rng, sp)
                fails = sp.inference_fails(steps, sp.inferred)
                for form in (">>", ">>="):
                    def thunk(form=form, seq=seq, sp=sp):
                        tn = sp.mk(qtn)
                        if form == ">>":
                            res = tn >> seq
                        else:
                            tn >>= seq
                            res = tn
                        return _judge(qtn, res, sp, None, False, expect="tn" if "=" in form else "value")

                    cx.check(N_RSHIFT, dict(pb, form=form, seq=seq, local_inference_fails=fails), thunk)


# ----------------------------------------------------------------------------------------------
# driver 2: partial contraction leaves a network that denotes the same value
# ----------------------------------------------------------------------------------------------

N_P_CONTRACT = "contract(tags) over part of the tensors leaves a network with the same value"
N_P_CTAGS = "contract_tags(tags, which) over part of the tensors leaves a network with the same value"
N_P_CUM = "contract_cumulative(tag groups) over part of the tensors leaves a network with the same value"
N_P_OPS = "tn ^ tags, tn ^= tags, tn >> groups, tn >>= groups over part of the tensors leave a network with the same value"
N_P_BETWEEN = "contract_between(tags1, tags2) leaves a network with the same value"
N_P_IND = "contract_ind(ind) leaves a network with the same value"


def _selections(rng, sp):
    """(tags, which) requests that use only tags present in the network"""
    nt = sp.nt
    present = [g for g in ("G0", "G1") if sp.select(g, "any")]
    sels = []
    k = int(rng.integers(1, nt))
    sub = [f"T{j}" for j in rng.permutation(nt)[:k]]
    sels.append((sub, "any"))
    sels.append((f"T{int(rng.integers(0, nt))}", "any"))
    sels.append(([f"T{int(rng.integers(0, nt))}", "N"], "all"))
    for g in present:
        sels.append((g, "any"))
        sels.append(([g, "N"], "all"))
        sels.append((g, "!any"))
        sels.append(([g, f"T{int(rng.integers(0, nt))}"], "!all"))
    if len(present) == 2:
        sels.append((["G0", "G1"], "any"))
        sels.append((["G0", "G1"], "all"))
        sels.append((["G1", "G0"], "!all"))
    return sels


def _partial_judge(qtn, res, tn, sp, out, n_expected, inplace, rtol=None):
    if not isinstance(res, qtn.TensorNetwork):
        return f"partial contraction returned {type(res).__name__}, not a network"
    if inplace and res is not tn:
        return "in-place call did not return the network itself"
    if n_expected is not None and res.num_tensors != n_expected:
        return f"{res.num_tensors} tensors left, expected {n_expected}"
    err = _judge(qtn, res, sp, out, False, what="value of the resulting network", rtol=rtol)
    if err or inplace:
        return err
    if tn.num_tensors != sp.nt:
        return "receiver lost tensors in a non-in-place call"
    return _judge(qtn, tn, sp, out, False, what="receiver after a non-in-place call")


@driver("C01", "partial-contraction", chunks=4, timeout=200,
        bound="same random (hyper)graph networks with 2-6 tensors (quick 2-5); tensors selected by tag lists with which in "
              "{any, all, !any, !all} (only tags present in the network), by pairs of unique tags (contract_between) or "
              "by a label (contract_ind); local output labels supplied where inference cannot give them (hyper labels, "
              "output labels that are bonds); strip_exponent / equalize_norms / optimize / inplace varied; the resulting "
              "network is evaluated with the einsum reference over the same output labels")
def partial(cx):
    import quimb.tensor as qtn

    _no_nested_pools()
    rng = cx.rng
    nts = [2, 3, 4, 5] if cx.quick else [2, 3, 4, 5, 6]
    reps = 8 if cx.quick else 60
    grid = [(nt, hy, dt, ei, r) for nt in nts for hy in (False, True) for dt in DTYPES for ei in range(5)
            for r in range(reps)]
    for i, (nt, hy, dt, ei, r) in enumerate(grid):
        exps = _exponents(dt, cx.quick)
        if ei >= len(exps):
            continue
        if not cx.mine():
            continue
        if cx.out_of_time():
            cx.inconclusive.append("partial-contraction: time budget exhausted before the grid was finished")
            return
        e = exps[ei]
        sp = gen_spec(rng, nt, hy, dt, e, self_trace=(r % 3 == 2))
        outs = _out_choices(rng, sp, hy)
        out = outs[int(rng.integers(0, len(outs)))]
        gout = sp.inferred if out is None else out          # the global output labels
        base = dict(i=i, nt=nt, dt=dt, e=e, has_exponent=bool(e != 0.0), hyper=sp.hyper, self_trace=sp.self_trace,
                    out=list(gout))
        # ---- tag selections ------------------------------------------------------------------------------
        for tags, which in _selections(rng, sp):
            sel = sp.select(tags, which)
            if not sel or len(sel) == nt:
                continue
            lo = sp.local_out(sel, gout)
            fails = sp.inference_fails([sel], gout)
            give = fails or bool(rng.integers(0, 2))
            lo_req = tuple(str(x) for x in rng.permutation(list(lo))) if lo else ()
            okw = {"output_inds": lo_req} if give else {}
            oname, opt = _pick_opt(rng, len(sel))
            strip = bool(rng.integers(0, 2))
            eq = ["auto", True, False][int(rng.integers(0, 3))]
            inplace = bool(rng.integers(0, 2))
            n_exp = nt - len(sel) + 1
            p = dict(base, tags=tags, which=which, local_out=list(lo_req) if give else None, opt=oname, strip=strip,
                     eq=eq, inplace=inplace)
            if oname == "path":
                p["path"] = [list(x) for x in opt]

            def thunk(tags=tags, which=which, okw=okw, opt=opt, strip=strip, eq=eq, inplace=inplace, sp=sp, gout=gout,
                      n_exp=n_exp):
                tn = sp.mk(qtn)
                res = tn.contract_tags(tags, which=which, optimize=opt, strip_exponent=strip, equalize_norms=eq,
                                       inplace=inplace, **okw)
                return _partial_judge(qtn, res, tn, sp, gout, n_exp, inplace)

            cx.check(N_P_CTAGS, p, thunk)
            if which == "any":
                def thunk(tags=tags, okw=okw, opt=opt, strip=strip, inplace=inplace, sp=sp, gout=gout, n_exp=n_exp):
                    tn = sp.mk(qtn)
                    if inplace and strip:
                        res = tn.contract_(tags, optimize=opt, strip_exponent=strip, **okw)
                    else:
                        res = tn.contract(tags, optimize=opt, strip_exponent=strip, inplace=inplace, **okw)
                    return _partial_judge(qtn, res, tn, sp, gout, n_exp, inplace)

                cx.check(N_P_CONTRACT, {k: v for k, v in p.items() if k not in ("which", "eq")}, thunk)
                if not fails:
                    for form in ("^", "^="):
                        def thunk(form=form, tags=tags, sp=sp, gout=gout, n_exp=n_exp):
                            tn = sp.mk(qtn)
                            if form == "^":
                                res = tn ^ tags
                            else:
                                keep = tn
                                tn ^= tags
                                if tn is not keep:
                                    return "^= rebound the name to another object"
                                res = tn
                            return _partial_judge(qtn, res, tn, sp, gout, n_exp, form == "^=")

                        cx.check(N_P_OPS, dict(base, form=form, tags=tags), thunk)
        # ---- cumulative over a proper subset -------------------------------------------------------------
        for s in range(2):
            seq, steps = _cum_groups(rng, sp)
            cut = int(rng.integers(1, len(seq) + 1))
            seq, steps = seq[:cut], steps[:cut]
            if len(steps[-1]) == nt:
                continue
            fails = sp.inference_fails(steps, gout)
            strip = bool(rng.integers(0, 2))
            eq = ["auto", True, False][int(rng.integers(0, 3))]
            inplace = s == 1
            n_exp = nt - len(steps[-1]) + 1
            p = dict(base, seq=seq, strip=strip, eq=eq, inplace=inplace, local_inference_fails=fails)

            def thunk(seq=seq, strip=strip, eq=eq, inplace=inplace, sp=sp, gout=gout, n_exp=n_exp, fails=fails):
                tn = sp.mk(qtn)
                kw = {"output_inds": gout} if fails else {}  # the documented way to ask for non-inferable outputs
                res = tn.contract_cumulative(seq, strip_exponent=strip, equalize_norms=eq, inplace=inplace, **kw)
                return _partial_judge(qtn, res, tn, sp, gout, n_exp, inplace)

            cx.check(N_P_CUM, p, thunk)
            if s == 0 and not fails:  # the operators cannot be given output labels: only where inference is defined
                for form in (">>", ">>="):
                    def thunk(form=form, seq=seq, sp=sp, gout=gout, n_exp=n_exp):
                        tn = sp.mk(qtn)
                        if form == ">>":
                            res = tn >> seq
                        else:
                            keep = tn
                            tn >>= seq
                            if tn is not keep:
                                return ">>= rebound the name to another object"
                            res = tn
                        return _partial_judge(qtn, res, tn, sp, gout, n_exp, form == ">>=")

                    cx.check(N_P_OPS, dict(base, form=form, seq=seq), thunk)
        # ---- contract_between (always in place) ----------------------------------------------------------
        for s in range(2):
            a, b = (int(v) for v in rng.choice(nt, size=2, replace=False))
            if s == 1 and rng.random() < 0.15:
                b = a  # documented no-op
            t1 = [f"T{a}", [f"T{a}"], [f"T{a}", "N"]][int(rng.integers(0, 3))]
            t2 = [f"T{b}", [f"T{b}", "N"]][int(rng.integers(0, 2))]
            need_out = set(gout) != set(sp.inferred)
            give = need_out or bool(rng.integers(0, 2))
            eq = [False, False, True, 1.0, 2.5][int(rng.integers(0, 5))]
            oname = ["default", "auto", "greedy"][int(rng.integers(0, 3))]
            p = dict(base, t1=t1, t2=t2, give_out=give, eq=eq, opt=oname)

            def thunk(t1=t1, t2=t2, give=give, eq=eq, oname=oname, sp=sp, gout=gout, same=(a == b)):
                tn = sp.mk(qtn)
                kw = {}
                if give:
                    kw["output_inds"] = gout
                if eq is not False:
                    kw["equalize_norms"] = eq
                if oname != "default":
                    kw["optimize"] = oname
                r = tn.contract_between(t1, t2, **kw)
                if r is not None and r is not tn:
                    return f"contract_between returned {type(r).__name__}"
                return _partial_judge(qtn, tn, tn, sp, gout, sp.nt if same else sp.nt - 1, True)

            cx.check(N_P_BETWEEN, p, thunk, nontrivial=a != b)
        # ---- contract_ind (always in place) --------------------------------------------------------------
        for s in range(2):
            ind = sp.all_labels[int(rng.integers(0, len(sp.all_labels)))]
            holders = [k for k in range(nt) if ind in sp.labels[k]]
            need_out = set(gout) != set(sp.inferred)
            give = need_out or bool(rng.integers(0, 2))
            oname = ["default", "auto", "greedy"][int(rng.integers(0, 3))]
            p = dict(base, ind=ind, give_out=give, opt=oname)

            def thunk(ind=ind, give=give, oname=oname, sp=sp, gout=gout, nh=len(holders)):
                tn = sp.mk(qtn)
                kw = {"output_inds": gout} if give else {}
                if oname != "default":
                    kw["optimize"] = oname
                tn.contract_ind(ind, **kw)
                return _partial_judge(qtn, tn, tn, sp, gout, sp.nt - nh + 1, True)

            cx.check(N_P_IND, p, thunk, nontrivial=len(holders) > 1)


# ----------------------------------------------------------------------------------------------
# driver 3: to_dense, norm, overlap, trace, @
# ----------------------------------------------------------------------------------------------

N_DENSE = "to_dense(*inds_seq) == einsum reference x 10**exponent reshaped to the index groups"
N_DENSE0 = "to_dense() without index groups of a network == its 0-d einsum value"
N_NORM = "norm(squared, strip_exponent) == Frobenius norm of the einsum reference x 10**exponent"
N_OVERLAP = "overlap(other) == <other | self> of the dense references (other conjugated)"
N_TRACE = "trace(left_inds, right_inds) == einsum reference with the pairs identified x 10**exponent"
N_MATMUL = "a @ b == einsum reference of the combined network x 10**(sum of exponents)"


def _groups(rng, out):
    """split `out` (already ordered) into 1-3 consecutive groups, possibly with an empty group"""
    n = len(out)
    k = int(rng.integers(1, 4))
    cuts = sorted(int(v) for v in rng.integers(0, n + 1, size=k - 1))
    b = [0] + cuts + [n]
    g = [list(out[b[j]:b[j + 1]]) for j in range(k)]
    if not any(g):
        return None
    return g


@driver("C01", "dense-norm-overlap-trace-matmul", chunks=4, timeout=200,
        bound="same random (hyper)graph networks, 1-6 tensors (quick 1-5); to_dense with the requested labels split in 1-3 "
              "groups (empty groups allowed, any label order, tags=all|...|tag list, optimize varied, to_qarray); norm "
              "with squared / strip_exponent / output_inds; overlap of two networks over the same outer labels (inner "
              "labels clashing, different exponents); trace over 1-2 pairs of equal-size outer labels; a @ b for network "
              "@ network, network @ tensor, tensor @ network, tensor @ tensor")
def dense_norm(cx):
    import quimb.tensor as qtn

    _no_nested_pools()
    rng = cx.rng
    nts = [1, 2, 3, 4, 5] if cx.quick else [1, 2, 3, 4, 5, 6]
    reps = 8 if cx.quick else 60
    grid = [(nt, hy, dt, ei, r) for nt in nts for hy in (False, True) for dt in DTYPES for ei in range(5)
            for r in range(reps)]
    for i, (nt, hy, dt, ei, r) in enumerate(grid):
        exps = _exponents(dt, cx.quick)
        if ei >= len(exps):
            continue
        if not cx.mine():
            continue
        if cx.out_of_time():
            cx.inconclusive.append("dense-norm-overlap-trace-matmul: time budget exhausted before the grid was finished")
            return
        e = exps[ei]
        sp = gen_spec(rng, nt, hy, dt, e, self_trace=(r % 3 == 2))
        base = dict(i=i, nt=nt, dt=dt, e=e, has_exponent=bool(e != 0.0), hyper=sp.hyper, self_trace=sp.self_trace)
        rtol = _rtol(dt)
        # ---- to_dense ---------------------------------------------------------------------------------------
        dense0_done = False
        for out in _out_choices(rng, sp, hy):
            o = sp.inferred if out is None else out
            o = tuple(str(x) for x in rng.permutation(list(o))) if o else ()
            g = _groups(rng, o)
            oname, opt = _pick_opt(rng, nt)
            tg = ["default", "all", "...", "tags"][int(rng.integers(0, 4))]
            qa = bool(rng.integers(0, 2))
            if g is None:
                if dense0_done:
                    continue
                dense0_done = True
                for groups in ([], [[]]):
                    def thunk(groups=groups, sp=sp):
                        got = sp.mk(qtn).to_dense(*groups)
                        ref, scale = sp.ref(())
                        return _cmp(np.asarray(got).reshape(()) if np.size(got) == 1 else got, ref, scale, rtol, "to_dense")

                    cx.check(N_DENSE0, dict(base, groups=groups), thunk)
                continue
            p = dict(base, groups=g, opt=oname, tags=tg, to_qarray=qa)
            if oname == "path":
                p["path"] = [list(x) for x in opt]
            def thunk(g=g, o=o, opt=opt, tg=tg, qa=qa, sp=sp):
                tn = sp.mk(qtn)
                kw = {"optimize": opt}
                if tg != "default":
                    kw["tags"] = {"all": all, "...": ..., "tags": ["N"]}[tg]
                got = tn.to_qarray(*g, **kw) if qa else tn.to_dense(*g, **kw)
                ref, scale = sp.ref(o)
                shape = tuple(int(np.prod([sp.sizes[x] for x in grp])) for grp in g)
                return _cmp(got, ref.reshape(shape), scale, rtol, "to_dense")

            cx.check(N_DENSE + (" [tags matching every tensor]" if tg == "tags" else ""),
                     dict(p, inplace=False), thunk)
        # ---- norm -----------------------------------------------------------------------------------------
        for s in range(2):
            squared, strip = bool(rng.integers(0, 2)), bool(rng.integers(0, 2))
            if sp.hyper or s == 1:
                if hy:
                    k = int(rng.integers(0, min(3, len(sp.all_labels)) + 1))
                    oo = tuple(str(x) for x in rng.choice(sp.all_labels, size=k, replace=False)) if k else ()
                else:
                    oo = tuple(str(x) for x in rng.permutation(list(sp.inferred))) if sp.inferred else ()
                okw = {"output_inds": oo}
            else:
                oo, okw = sp.inferred, {}
            oname, opt = _pick_opt(rng, 2 * nt)
            p = dict(base, squared=squared, strip=strip, out=list(oo) if okw else None, opt=oname)
            if oname == "path":
                p["path"] = [list(x) for x in opt]

            def thunk(squared=squared, strip=strip, oo=oo, okw=okw, opt=opt, sp=sp):
                tn = sp.mk(qtn)
                got = tn.norm(squared=squared, strip_exponent=strip, optimize=opt, **okw)
                ref, scale = sp.ref(oo)
                n2 = float(np.sum(np.abs(ref) ** 2))
                # scale of the summed terms of <T|T>: entries bounded by `scale`
                sc2 = float(np.size(ref)) * scale ** 2 if np.size(ref) else scale ** 2
                if strip:
                    if not (isinstance(got, tuple) and len(got) == 2):
                        return f"strip_exponent=True but got {type(got).__name__}"
                    got = np.asarray(got[0], dtype=np.complex128) * 10.0 ** float(np.real(got[1]))
                if squared:
                    return _cmp(got, n2, sc2, 4 * rtol, "norm squared")
                # |sqrt(x) - sqrt(y)| <= |x - y| / sqrt(y)
                return _cmp(got, np.sqrt(n2), sc2 / max(np.sqrt(n2), 1e-300), 4 * rtol, "norm")

            cx.check(N_NORM, p, thunk)
        # ---- overlap --------------------------------------------------------------------------------------
        # `other`: a second network over the same outer labels, reusing the *same* inner label names (clash) and
        # with its own exponent
        e2 = [0.0, e, -0.75][int(rng.integers(0, 3))]
        if hy:
            k = int(rng.integers(0, min(3, len(sp.all_labels)) + 1))
            oo = tuple(str(x) for x in rng.choice(sp.all_labels, size=k, replace=False)) if k else ()
            okw = {"output_inds": oo}
        else:
            oo = sp.inferred
            okw = {} if rng.random() < 0.5 else {"output_inds": oo}
        kind = int(rng.integers(0, 3))
        if kind == 0:  # same geometry, fresh data
            sp2 = Spec([_rand_array(rng, a.shape, dt) for a in sp.arrays], sp.labels, sp.tags, e2, dt)
        elif kind == 1:  # a single tensor network over the output labels
            perm = tuple(str(x) for x in rng.permutation(list(oo))) if oo else ()
            sp2 = Spec([_rand_array(rng, tuple(sp.sizes[x] for x in perm), dt)], [perm], [("T0", "N")], e2, dt)
        else:  # the network itself (norm squared)
            sp2 = Spec(sp.arrays, sp.labels, sp.tags, sp.exponent, dt)
        oname, opt = _pick_opt(rng, sp.nt + sp2.nt)
        p = dict(base, e2=sp2.exponent, out=list(oo) if okw else None, other=["same-geometry", "single-tensor", "self"][kind],
                 opt=oname)
        if oname == "path":
            p["path"] = [list(x) for x in opt]
        # a hyper `other` needs its labels outside `oo` to be private: with output_inds given quimb mangles them
        ok_domain = okw or not sp2.hyper

        def thunk(sp2=sp2, oo=oo, okw=okw, opt=opt, sp=sp, as_tensor=(kind == 1)):
            a, b = sp.mk(qtn), sp2.mk(qtn)
            got = a.overlap(b, optimize=opt, **okw)
            ra, sa = sp.ref(oo)
            rb, sb = sp2.ref(oo)
            ref = np.sum(np.conj(rb) * ra)
            err = _cmp(got, ref, max(np.size(ra), 1) * sa * sb, 4 * rtol, "overlap")
            if err or not as_tensor or sp2.exponent != 0.0:
                return err
            # Tensor.overlap(network) == conj(network.overlap(tensor)); TensorNetwork.overlap(tensor)
            t = b.tensors[0]
            got2 = a.overlap(t, optimize=opt, **okw)
            err = _cmp(got2, ref, max(np.size(ra), 1) * sa * sb, 4 * rtol, "overlap with a Tensor")
            if err or okw:
                return err
            got3 = t.overlap(a)
            return _cmp(got3, np.conj(ref), max(np.size(ra), 1) * sa * sb, 4 * rtol, "Tensor.overlap(network)")

        if ok_domain:
            cx.check(N_OVERLAP, p, thunk)
        # ---- trace ----------------------------------------------------------------------------------------
        outer = list(sp.inferred)
        pairs = [(x, y) for x in outer for y in outer if x < y and sp.sizes[x] == sp.sizes[y]]
        if pairs and not sp.hyper:
            npairs = 1 + int(rng.integers(0, 2))
            chosen, used = [], set()
            for j in rng.permutation(len(pairs)):
                x, y = pairs[int(j)]
                if x in used or y in used:
                    continue
                if rng.random() < 0.5:
                    x, y = y, x
                chosen.append((x, y))
                used |= {x, y}
                if len(chosen) == npairs:
                    break
            left, right = [c[0] for c in chosen], [c[1] for c in chosen]
            rest = tuple(x for x in outer if x not in used)
            oname, opt = _pick_opt(rng, nt)
            strip = bool(rng.integers(0, 2))
            p = dict(base, left=left, right=right, opt=oname, strip=strip)
            if oname == "path":
                p["path"] = [list(x) for x in opt]
            ren = dict(zip(left, right))
            spt = Spec(sp.arrays, [tuple(ren.get(x, x) for x in lab) for lab in sp.labels], sp.tags, e, dt)
            def thunk(left=left, right=right, rest=rest, opt=opt, strip=strip, sp=sp, spt=spt):
                tn = sp.mk(qtn)
                got = tn.trace(left, right, optimize=opt, strip_exponent=strip)
                err = _judge(qtn, got, spt, None, strip, what="trace")
                if err:
                    return err
                return _judge(qtn, tn, sp, None, False, what="receiver after trace")

            cx.check(N_TRACE, p, thunk)
        # ---- a @ b ------------------------------------------------------------------------------------------
        if not sp.hyper and nt >= 2:
            k = int(rng.integers(1, nt))
            ia = sorted(int(v) for v in rng.permutation(nt)[:k])
            ib = [j for j in range(nt) if j not in ia]
            ea = [0.0, e, 0.5][int(rng.integers(0, 3))]
            eb = e - ea
            p = dict(base, a=ia, b=ib, ea=ea)

            def thunk(ia=ia, ib=ib, ea=ea, eb=eb, sp=sp):
                a, b = sp.mk(qtn, ea, ia), sp.mk(qtn, eb, ib)
                err = _judge(qtn, a @ b, sp, None, False, what="network @ network")
                if err:
                    return err
                if len(ib) == 1 and eb == 0.0:
                    err = _judge(qtn, a @ b.tensors[0], sp, None, False, what="network @ tensor")
                    if err:
                        return err
                if len(ia) == 1 and len(ib) == 1 and sp.exponent == 0.0 and ea == 0.0 and not sp.self_trace:
                    err = _judge(qtn, a.tensors[0] @ b.tensors[0], sp, None, False, what="tensor @ tensor")
                return err

            cx.check(N_MATMUL, p, thunk)
        # bra-ket style: b reuses a's inner labels (clash -> must be kept apart), shares the outer labels
        if not sp.hyper:
            sp2 = Spec([_rand_array(rng, a.shape, dt) for a in sp.arrays], sp.labels, sp.tags, 0.25, dt)
            p = dict(base, kind="same inner labels on both sides")

            def thunk(sp=sp, sp2=sp2):
                a, b = sp.mk(qtn), sp2.mk(qtn)
                got = a @ b
                ra, sa = sp.ref(sp.inferred)
                rb, sb = sp2.ref(sp.inferred)
                ref = np.sum(ra * rb)
                return _cmp(got, ref, max(np.size(ra), 1) * sa * sb, 4 * rtol, "a @ b with clashing inner labels")

            cx.check(N_MATMUL, p, thunk)


# ----------------------------------------------------------------------------------------------
# driver 4: the network as a linear operator
# ----------------------------------------------------------------------------------------------

N_LO = "TNLinearOperator from a network: "
VIEWS = {
    # name: (operator -> view, dense matrix -> expected dense matrix, view conjugates the data)
    "base": (lambda A: A, lambda M: M, False),
    "H": (lambda A: A.H, lambda M: M.conj().T, True),
    "T": (lambda A: A.T, lambda M: M.T, False),
    "conj": (lambda A: A.conj(), lambda M: M.conj(), True),
    "H.H": (lambda A: A.H.H, lambda M: M, False),
    "T.conj()": (lambda A: A.T.conj(), lambda M: M.conj().T, True),
    "conj().T": (lambda A: A.conj().T, lambda M: M.conj().T, True),
    "H.T": (lambda A: A.H.T, lambda M: M.conj(), True),
    "adjoint()": (lambda A: A.adjoint(), lambda M: M.conj().T, True),
    "transpose()": (lambda A: A.transpose(), lambda M: M.T, False),
}


@driver("C01", "linear-operator", chunks=4, timeout=200,
        bound="same random (hyper)graph networks, 1-5 tensors; left/right = random split (either side may be empty) of the "
              "outer labels in random order, or of <=4 arbitrary labels (hyper mode: bonds and hyper labels as operator "
              "indices); built by tn.aslinearoperator, TNLinearOperator(tn, ...) (with and without ldims/rdims, optimize) "
              "and TNLinearOperator(tensors, ...); views base/.H/.T/.conj()/compositions; matvec (1-d, column), matmat "
              "1-3 columns, rmatvec, rmatmat, dot, astype to the other precision / to complex, to_dense (default and "
              "custom groups), .A, trace / np.trace (square, non-hyper); vectors real or complex")
def linop(cx):
    import quimb.tensor as qtn
    from quimb.tensor.tensor_core import TNLinearOperator as TNLO

    _no_nested_pools()
    rng = cx.rng
    nts = [1, 2, 3, 4] if cx.quick else [1, 2, 3, 4, 5]
    reps = 6 if cx.quick else 45
    grid = [(nt, hy, dt, ei, r) for nt in nts for hy in (False, True) for dt in DTYPES for ei in range(5)
            for r in range(reps)]
    vnames = list(VIEWS)
    for i, (nt, hy, dt, ei, r) in enumerate(grid):
        exps = _exponents(dt, cx.quick)
        if ei >= len(exps):
            continue
        if not cx.mine():
            continue
        if cx.out_of_time():
            cx.inconclusive.append("linear-operator: time budget exhausted before the grid was finished")
            return
        e = exps[ei]
        sp = gen_spec(rng, nt, hy, dt, e, self_trace=(r % 3 == 2))
        if hy:
            k = int(rng.integers(0, min(4, len(sp.all_labels)) + 1))
            o = [str(x) for x in rng.choice(sp.all_labels, size=k, replace=False)] if k else []
        else:
            o = [str(x) for x in rng.permutation(list(sp.inferred))] if sp.inferred else []
        cut = int(rng.integers(0, len(o) + 1))
        left, right = tuple(o[:cut]), tuple(o[cut:])
        ld = int(np.prod([sp.sizes[x] for x in left])) if left else 1
        rd = int(np.prod([sp.sizes[x] for x in right])) if right else 1
        how = ["aslinearoperator", "TNLinearOperator(tn)", "TNLinearOperator(tn, ldims, rdims)",
               "TNLinearOperator(tensors)"][int(rng.integers(0, 4))]
        from_tensors = how == "TNLinearOperator(tensors)"
        spx = Spec(sp.arrays, sp.labels, sp.tags, 0.0, dt) if from_tensors else sp   # a tensor list has no exponent
        has_e = bool(spx.exponent != 0.0)
        cplx = dt.startswith("complex")
        oname = ["default", "auto", "greedy"][int(rng.integers(0, 3))]
        base = dict(i=i, nt=nt, dt=dt, e=spx.exponent, has_exponent=has_e, hyper=sp.hyper, self_trace=sp.self_trace,
                    left=list(left), right=list(right), how=how, opt=oname, complex=cplx,
                    scalar_operator=not (left or right),
                    empty_side_and_size1_label=bool((not left or not right) and len(left + right) >= 2
                                                    and any(sp.sizes[x] == 1 for x in left + right)))
        rtol = _rtol(dt)

        def build(spx=spx, left=left, right=right, how=how, oname=oname):
            tn = spx.mk(qtn)
            kw = {} if oname == "default" else {"optimize": oname}
            if how == "aslinearoperator":
                return tn.aslinearoperator(left, right, **kw)
            if how == "TNLinearOperator(tn)":
                return TNLO(tn, left, right, **kw)
            if how == "TNLinearOperator(tn, ldims, rdims)":
                return TNLO(tn, left, right, tuple(spx.sizes[x] for x in left),
                                            tuple(spx.sizes[x] for x in right), **kw)
            return TNLO(tn.tensors, left, right, **kw)

        def dense(spx=spx, left=left, right=right, ld=ld, rd=rd):
            ref, scale = spx.ref(left + right)
            return ref.reshape(ld, rd), scale

        def vec(n, k=None, force_complex=False):
            shape = (n,) if k is None else (n, k)
            x = rng.normal(size=shape)
            if cplx or force_complex:
                x = x + 1j * rng.normal(size=shape)
            return x
        # the views to exercise for this operator: base + 3 others
        vsel = ["base"] + [vnames[int(j)] for j in rng.permutation(np.arange(1, len(vnames)))[:3]]
        for vn in vsel:
            mkview, mview, vconj = VIEWS[vn]
            pv = dict(base, view=vn, conj_view=vconj)
            nrow, ncol = mview(np.zeros((ld, rd))).shape
            # ---- matvec / matmat / dot ---------------------------------------------------------------------
            kcols = int(rng.integers(1, 4))
            x1, xk = vec(ncol, None, force_complex=bool(rng.integers(0, 2))), vec(ncol, kcols)
            y1, yk = vec(nrow), vec(nrow, kcols)
            def thunk(mkview=mkview, mview=mview, x1=x1, xk=xk, nrow=nrow, ncol=ncol):
                A = mkview(build())
                M, scale = dense()
                M = mview(M)
                if tuple(A.shape) != M.shape:
                    return f"operator shape {A.shape} != {M.shape}"
                for nm, got, ref, xx in (("A @ v", lambda: A @ x1, M @ x1, x1), ("A.matvec(v)", lambda: A.matvec(x1), M @ x1, x1),
                                         ("A.dot(v)", lambda: A.dot(x1), M @ x1, x1),
                                         ("A @ column", lambda: A @ x1[:, None], (M @ x1)[:, None], x1),
                                         ("A @ V", lambda: A @ xk, M @ xk, xk), ("A.matmat(V)", lambda: A.matmat(xk), M @ xk, xk)):
                    err = _cmp(got(), ref, scale * float(np.max(np.sum(np.abs(xx), axis=0))), 4 * rtol, nm)
                    if err:
                        return err

            cx.check(N_LO + "matvec / matmat of the view == dense reference (x 10**exponent) @ x",
                     pv, thunk)

            def thunk(mkview=mkview, mview=mview, y1=y1, yk=yk):
                A = mkview(build())
                M, scale = dense()
                MH = mview(M).conj().T
                for nm, got, ref, xx in (("A.rmatvec(w)", lambda: A.rmatvec(y1), MH @ y1, y1),
                                         ("A.rmatmat(W)", lambda: A.rmatmat(yk), MH @ yk, yk)):
                    err = _cmp(got(), ref, scale * float(np.max(np.sum(np.abs(xx), axis=0))), 4 * rtol, nm)
                    if err:
                        return err

            cx.check(N_LO + "rmatvec / rmatmat of the view == adjoint of the dense reference @ w",
                     pv, thunk)
            # ---- to_dense of the view ------------------------------------------------------------------------
            custom = bool(rng.integers(0, 2))
            def thunk(mkview=mkview, mview=mview, custom=custom, vn=vn):
                A = mkview(build())
                M, scale = dense()
                kw = {"output_inds": tuple(left) + tuple(right)} if sp.needs_explicit(tuple(left) + tuple(right)) else {}
                err = _cmp(A.to_dense(**kw), mview(M), scale, 4 * rtol, "to_dense()")
                if err or kw:
                    return err
                err = _cmp(A.A, mview(M), scale, 4 * rtol, ".A")
                if err or not custom:
                    return err
                # custom grouping: (right, left) of the *base* labels -> transpose of the base matrix, conjugated
                # when the view conjugates
                Mc = M.conj() if VIEWS[vn][2] else M
                return _cmp(A.to_dense(right, left), Mc.T, scale, 4 * rtol, "to_dense(right, left)")

            cx.check(N_LO + "to_dense of the view == dense reference (x 10**exponent)",
                     dict(pv, custom=custom), thunk)
            # ---- astype of the view --------------------------------------------------------------------------
            targets = {"float64": ["float32", "complex128"], "float32": ["float64", "complex64"],
                       "complex128": ["complex64"], "complex64": ["complex128"]}[dt]
            dt2 = targets[int(rng.integers(0, len(targets)))]
            def thunk(mkview=mkview, mview=mview, x1=x1, dt2=dt2):
                A = mkview(build()).astype(dt2)
                M, scale = dense()
                M = mview(M)
                if tuple(A.shape) != M.shape:
                    return f"operator shape {A.shape} != {M.shape}"
                if np.dtype(A.dtype) != np.dtype(dt2):
                    return f"astype({dt2}) gave dtype {A.dtype}"
                rt = 4 * max(rtol, _rtol(dt2))
                return _cmp(A @ x1, M @ x1, scale * float(np.sum(np.abs(x1))), rt, "astype(dt) @ v")

            cx.check(N_LO + "astype(dtype) of the view still acts as the view",
                     dict(pv, astype=dt2), thunk)
        # ---- trace (square operators of non-hyper networks) ----------------------------------------------------
        if ld == rd and len(left) == len(right) and not sp.hyper and all(
                sp.sizes[a] == sp.sizes[b] for a, b in zip(left, right)) and set(left + right) == set(sp.inferred):
            def thunk():
                A = build()
                M, scale = dense()
                # pairing left[k] with right[k]: trace of the matrix with rows (left) and columns (right)
                ref = np.trace(M)
                err = _cmp(A.trace(), ref, scale * ld, 4 * rtol, "A.trace()")
                return err or _cmp(np.trace(A), ref, scale * ld, 4 * rtol, "np.trace(A)")

            cx.check(N_LO + "trace() == trace of the dense reference (x 10**exponent)",
                     base, thunk)


# ----------------------------------------------------------------------------------------------
# driver 5: 1D networks -- structured contraction (contract(...) / ^ ... / slices / contract_structured)
# ----------------------------------------------------------------------------------------------

N_S_FULL = "1D structured: contract(...) / ^ ... / contract_structured over all sites == einsum reference x 10**exponent"
N_S_PART = "1D structured: contracting a slice of sites leaves a network with the same value"
N_S_COMB = "1D: bra & ket, bra | op | ket, @ and overlap/norm == independent dense expectation x 10**(sum of exponents)"
N_S_DENSE = "1D: MPS.to_dense() / MPO.to_dense() default index groupings == einsum reference x 10**exponent"
N_S_TRACE = "1D: MPO.trace() == trace of the dense reference x 10**exponent"


def _chain_arrays(rng, L, cyclic, dtype, nphys, maxbond=3):
    """arrays of an MPS (nphys=1, shape 'lrp') or MPO (nphys=2, shape 'lrud'); open ends have no dangling bond"""
    nb = L if cyclic else L - 1
    bonds = [int(rng.integers(1, maxbond + 1)) for _ in range(nb)]
    phys = [int(rng.choice([1, 2, 2, 3])) for _ in range(L)]
    arrays = []
    for k in range(L):
        if cyclic:
            shape = (bonds[k - 1], bonds[k])
        else:
            shape = (() if k == 0 else (bonds[k - 1],)) + (() if k == L - 1 else (bonds[k],))
        arrays.append(_rand_array(rng, shape + (phys[k],) * nphys, dtype))
    return arrays, phys


def _spec_of(tn, dtype):
    """snapshot of a quimb network as plain data (arrays copied)"""
    ts = list(tn.tensor_map.values())
    return Spec([np.array(t.data) for t in ts], [tuple(t.inds) for t in ts], [tuple(t.tags) for t in ts],
                float(tn.exponent), dtype)


@driver("C01", "structured-1d", chunks=4, timeout=200,
        bound="MPS / MPO of 1-6 sites (quick 1-5), open and cyclic, bond dims 1-3, physical dims {1,2,3}, 4 dtypes, stored "
              "exponent as above; <bra|ket> and <bra|op|ket> networks (2-3 tensors per site), networks with already merged "
              "sites; contract(...), ^ ..., contract_structured with structure_bsz {1,2,3,5}, strip_exponent, inplace, "
              "output_inds permutations, equalize_norms; slices (plain, open-ended, reversed with ..., wrapping for cyclic); "
              "to_dense defaults, MPO.trace, norm, overlap, @")
def structured(cx):
    import quimb.tensor as qtn

    _no_nested_pools()
    rng = cx.rng
    Ls = [1, 2, 3, 4, 5] if cx.quick else [1, 2, 3, 4, 5, 6]
    reps = 8 if cx.quick else 50
    grid = [(L, cyc, dt, ei, r) for L in Ls for cyc in (False, True) for dt in DTYPES for ei in range(5)
            for r in range(reps)]
    for i, (L, cyc, dt, ei, r) in enumerate(grid):
        exps = _exponents(dt, cx.quick)
        if ei >= len(exps):
            continue
        if not cx.mine():
            continue
        if cx.out_of_time():
            cx.inconclusive.append("structured-1d: time budget exhausted before the grid was finished")
            return
        e = exps[ei]
        rtol = _rtol(dt)
        kind = ["mps", "mpo", "braket", "braopket", "merged-mps"][int(rng.integers(0, 5))]
        a1, phys = _chain_arrays(rng, L, cyc, dt, 1)
        a2 = [_rand_array(rng, a.shape, dt) for a in a1]
        ao, _ = _chain_arrays(rng, L, cyc, dt, 2)
        # make the operator's physical dims match the states'
        ao = [_rand_array(rng, a.shape[:-2] + (phys[k], phys[k]), dt) for k, a in enumerate(ao)]
        e_ket, e_bra = e, [0.0, 0.5][int(rng.integers(0, 2))]
        merge = sorted(int(v) for v in rng.choice(L, size=2, replace=False)) if L >= 2 else None
        base = dict(i=i, L=L, cyclic=cyc, dt=dt, e=e, has_exponent=bool(e != 0.0), kind=kind)

        def build(kind=kind, a1=a1, a2=a2, ao=ao, e_ket=e_ket, e_bra=e_bra, merge=merge, L=L):
            """-> (network, independent expected full value or None)"""
            ket = qtn.MatrixProductState([a.copy() for a in a1], shape="lrp")
            ket.exponent = e_ket
            if kind in ("mps", "merged-mps"):
                if kind == "merged-mps" and merge is not None:
                    ket.contract_tags_([ket.site_tag(merge[0]), ket.site_tag(merge[1])])
                return ket, None
            if kind == "mpo":
                op = qtn.MatrixProductOperator([a.copy() for a in ao], shape="lrud")
                op.exponent = e_ket
                return op, None
            bra = qtn.MatrixProductState([a.copy() for a in a2], shape="lrp")
            bra.exponent = e_bra
            dk, _ = den_tn(ket, [f"k{k}" for k in range(L)])
            db, _ = den_tn(bra, [f"k{k}" for k in range(L)])
            if kind == "braket":
                return bra.H & ket, np.sum(np.conj(db) * dk)
            op = qtn.MatrixProductOperator([a.copy() for a in ao], shape="lrud", upper_ind_id="k{}", lower_ind_id="b{}")
            op.exponent = -0.25
            do_, _ = den_tn(op, [f"k{k}" for k in range(L)] + [f"b{k}" for k in range(L)])
            ketb = ket.reindex_sites("b{}")
            n = L
            val = np.einsum(np.conj(db), list(range(n)), do_, list(range(2 * n)), dk, list(range(n, 2 * n)), [])
            return (bra.H | op | ketb), val

        # ---- independent value of the combined networks ------------------------------------------------------
        if kind in ("braket", "braopket"):
            def thunk():
                tn, val = build()
                sp = _spec_of(tn, dt)
                ref, scale = sp.ref(())
                # first: the combined network object denotes the independent value (exponents add up)
                err = _cmp(ref, val, scale, 10 * rtol, "denotation of the combined network vs dense expectation")
                if err:
                    return err
                if not isinstance(tn, qtn.TensorNetwork1D):
                    return f"combined network is a {type(tn).__name__}, not a TensorNetwork1D"
                return _cmp(tn ^ ..., val, scale, 10 * rtol, "combined ^ ...")

            cx.check(N_S_COMB, base, thunk)
            if kind == "braket":
                def thunk(a1=a1, a2=a2, e_ket=e_ket, e_bra=e_bra):
                    ket = qtn.MatrixProductState([a.copy() for a in a1], shape="lrp")
                    bra = qtn.MatrixProductState([a.copy() for a in a2], shape="lrp")
                    ket.exponent, bra.exponent = e_ket, e_bra
                    labs = [f"k{k}" for k in range(L)]
                    (dk, sk), (db, sb) = den_tn(ket, labs), den_tn(bra, labs)
                    val, sc = np.sum(np.conj(db) * dk), np.size(dk) * sk * sb
                    for nm, got, ref, s_ in (("bra.H @ ket", lambda: bra.H @ ket, val, sc),
                                             ("ket.overlap(bra)", lambda: ket.overlap(bra), val, sc),
                                             ("ket.norm()", lambda: ket.norm(), np.sqrt(np.sum(np.abs(dk) ** 2)),
                                              np.size(dk) * sk * sk / max(np.sqrt(np.sum(np.abs(dk) ** 2)), 1e-300)),
                                             ("ket.H @ ket", lambda: ket.H @ ket, np.sum(np.abs(dk) ** 2), np.size(dk) * sk * sk)):
                        err = _cmp(got(), ref, s_, 10 * rtol, nm)
                        if err:
                            return err

                cx.check(N_S_COMB, dict(base, routes="@ / overlap / norm"), thunk)
        # ---- to_dense defaults / MPO.trace ----------------------------------------------------------------------
        if kind in ("mps", "mpo"):
            def thunk():
                tn, _ = build()
                sp = _spec_of(tn, dt)
                if kind == "mps":
                    labs = [f"k{k}" for k in range(L)]
                    ref, scale = sp.ref(labs)
                    return _cmp(tn.to_dense(), ref.reshape(-1, 1), scale, rtol, "MPS.to_dense()")
                up, lo = [f"k{k}" for k in range(L)], [f"b{k}" for k in range(L)]
                ref, scale = sp.ref(up + lo)
                d = int(np.prod(phys))
                return _cmp(tn.to_dense(), ref.reshape(d, d), scale, rtol, "MPO.to_dense()")

            cx.check(N_S_DENSE, base, thunk)
            if kind == "mpo":
                def thunk():
                    tn, _ = build()
                    sp = _spec_of(tn, dt)
                    up, lo = [f"k{k}" for k in range(L)], [f"b{k}" for k in range(L)]
                    ref, scale = sp.ref(up + lo)
                    d = int(np.prod(phys))
                    return _cmp(tn.trace(), np.trace(ref.reshape(d, d)), scale * d, 4 * rtol, "MPO.trace()")

                cx.check(N_S_TRACE, base, thunk)
        # ---- full structured contraction -------------------------------------------------------------------------
        for s in range(4):
            bsz = [1, 2, 3, 5][int(rng.integers(0, 4))]
            strip, inplace = bool(rng.integers(0, 2)), s == 3
            eq = ["auto", True, False][int(rng.integers(0, 3))]
            form = ["contract(...)", "^ ...", "contract_structured(...)", "contract(slice(0, L))", "contract(slice(None))"][
                int(rng.integers(0, 5))] if s else "^ ..."
            permute = bool(rng.integers(0, 2))
            oname = ["default", "auto", "greedy"][int(rng.integers(0, 3))]
            pseed = int(rng.integers(0, 1 << 30))
            p = dict(base, form=form, bsz=bsz, strip=strip, inplace=inplace, eq=eq, permute_out=permute, opt=oname, s=s)

            def thunk(bsz=bsz, strip=strip, inplace=inplace, eq=eq, form=form, permute=permute, oname=oname, pseed=pseed):
                tn, _ = build()
                sp = _spec_of(tn, dt)
                out = None
                kw = dict(structure_bsz=bsz, strip_exponent=strip, inplace=inplace, equalize_norms=eq)
                if oname != "default":
                    kw["optimize"] = oname
                if permute:
                    out = tuple(np.random.default_rng(pseed).permutation(list(sp.inferred))) if sp.inferred else ()
                    out = tuple(str(x) for x in out)
                    kw["output_inds"] = out
                if form == "^ ...":
                    if inplace:
                        keep = tn
                        tn ^= ...
                        if tn is not keep:
                            return "^= rebound the name"
                        res = tn
                    else:
                        res = tn ^ ...
                    strip_, out = False, None
                elif form == "contract(...)":
                    res, strip_ = tn.contract(..., **kw), strip
                elif form == "contract_structured(...)":
                    res, strip_ = tn.contract_structured(..., **kw), strip
                elif form == "contract(slice(0, L))":
                    res, strip_ = tn.contract(slice(0, L), **kw), strip
                else:
                    res, strip_ = tn.contract(slice(None), **kw), strip
                err = _judge(qtn, res, sp, out, strip_, expect="tn" if inplace else "value")
                if err or inplace:
                    return err
                return _judge(qtn, tn, sp, None, False, what="receiver after a non-in-place call")

            cx.check(N_S_FULL, p, thunk)
        # ---- slices --------------------------------------------------------------------------------------------
        if L >= 2:
            for s in range(4):
                a = int(rng.integers(0, L - 1))
                b = int(rng.integers(a + 1, L + 1))
                forms = [("slice(a, b)", slice(a, b)), ("slice(None, b)", slice(None, b)), ("slice(a, None)", slice(a, None)),
                         ("slice(..., a, -1)", slice(..., a, -1)), ("slice(b-1, a-1, -1)", slice(b - 1, a - 1, -1) if a > 0 else slice(a, b)),
                         ("slice(a, b, 2)", slice(a, b, 2))]
                if cyc:
                    forms.append(("slice(a, b+L-1) wrapping", slice(a + 1, a + L)))
                    forms.append(("slice(-2, 1) wrapping", slice(-2, 1)))
                fname, sl = forms[int(rng.integers(0, len(forms)))]
                bsz = [1, 2, 5][int(rng.integers(0, 3))]
                strip, inplace = bool(rng.integers(0, 2)), bool(rng.integers(0, 2))
                how = ["^", "contract", "contract_structured"][int(rng.integers(0, 3))]
                p = dict(base, form=fname, a=a, b=b, bsz=bsz, strip=strip, inplace=inplace, how=how, s=s)

                def thunk(sl=sl, fname=fname, a=a, b=b, bsz=bsz, strip=strip, inplace=inplace, how=how):
                    tn, _ = build()
                    sp = _spec_of(tn, dt)
                    n0 = tn.num_tensors
                    if how == "^":
                        if inplace:
                            keep = tn
                            tn ^= sl
                            if tn is not keep:
                                return "^= rebound the name"
                            res = tn
                        else:
                            res = tn ^ sl
                    elif how == "contract":
                        res = tn.contract(sl, structure_bsz=bsz, strip_exponent=strip, inplace=inplace)
                    else:
                        res = tn.contract_structured(sl, structure_bsz=bsz, strip_exponent=strip, inplace=inplace)
                    if isinstance(res, qtn.TensorNetwork):
                        # plain slice(a, b): the tensors carrying a site tag in [a, b) are merged into one
                        if fname == "slice(a, b)":
                            hit = sum(1 for tg in sp.tags if any(f"I{k}" in tg for k in range(a, b)))
                            if res.num_tensors != n0 - hit + 1:
                                return f"{res.num_tensors} tensors left, expected {n0 - hit + 1}"
                        err = _judge(qtn, res, sp, None, False, what="value of the resulting network")
                    else:
                        # everything was merged: a tensor / scalar comes back (only when not in place)
                        if inplace:
                            return f"in-place call returned {type(res).__name__}"
                        err = _judge(qtn, res, sp, None, strip and how != "^")
                    if err or inplace:
                        return err
                    return _judge(qtn, tn, sp, None, False, what="receiver after a non-in-place call")

                cx.check(N_S_PART, p, thunk)
