#!/bin/bash
# usage: tools_seed_collect.sh <PROP>   -- copy a seeding agent's deliverables from /tmp/seed-<PROP> to seeded/<PROP>-<n>/ and drop its worktree
P=$1; W=/tmp/seed-$P
[ -d $W ] || { echo "no $W"; exit 1; }
for n in 1 2 3; do
  [ -f $W/change_$n.diff ] || continue
  D=/verif/seeded/$P-$n; mkdir -p $D
  cp $W/change_$n.diff $D/patch.diff; cp $W/demo_$n.py $D/demo.py; cp $W/notes.md $D/notes.md
  git -C /repo apply --check $D/patch.diff && echo "$P-$n: patch applies to /repo HEAD" || echo "$P-$n: PATCH DOES NOT APPLY to /repo HEAD"
done
git -C /repo worktree remove --force $W; rm -rf /tmp/numba-cache-*seed-$P* 2>/dev/null
