#!/bin/bash
# usage: tools_seed_collect.sh <PROP> [worktree-prefix=/tmp/seed-] [first-number=1]
#   copy a seeding agent's deliverables (change_i.diff demo_i.py notes.md) from <prefix><PROP> to seeded/<PROP>-<n>/
#   (n = first-number + i - 1) and drop its worktree
P=$1; PRE=${2:-/tmp/seed-}; FIRST=${3:-1}; W=$PRE$P
[ -d $W ] || { echo "no $W"; exit 1; }
for i in 1 2 3; do
  [ -f $W/change_$i.diff ] || continue
  n=$((FIRST + i - 1))
  D=/verif/seeded/$P-$n; mkdir -p $D
  cp $W/change_$i.diff $D/patch.diff; cp $W/demo_$i.py $D/demo.py; cp $W/notes.md $D/notes.md
  git -C /repo apply --check $D/patch.diff && echo "$P-$n: patch applies to /repo HEAD" || echo "$P-$n: PATCH DOES NOT APPLY to /repo HEAD"
done
git -C /repo worktree remove --force $W; rm -rf /tmp/numba-cache-*$(basename $PRE)$P* 2>/dev/null
