"""deliberate breakages of the real source that the C06 extension contracts (contracts/c06_ext.py) must catch
(see vf/selftest.py): MUTANTS = [(relpath, function_suffix, old_text, new_text, "expect-fail" | "benign"), ...]"""
MODULES = ["contracts.c06_ext"]

G = "quimb/tensor/gating.py"
T1 = "quimb/tensor/tn1d/core.py"
AG = "quimb/tensor/tnag/core.py"
TC = "quimb/tensor/tensor_core.py"
T2 = "quimb/tensor/tn2d/core.py"
T3 = "quimb/tensor/tn3d/core.py"

_TN1D = "::gate_TN_1D"
_LAZY = "::_tensor_network_gate_inds_lazy_split"
_WTN = "::TensorNetwork.gate_inds_with_tn"
_SPL = "::MatrixProductState.gate_split"
_SWP = "::MatrixProductState.gate_with_auto_swap"
_NLC = "::MatrixProductState.gate_nonlocal"
_AGG = "::tensor_network_ag_gate"
_MFG = "::maybe_factor_gate"
_TG = "::Tensor.gate"
_OPL = "::TensorNetworkGenVector.gate_with_op_lazy"
_SUB = "::MatrixProductState.gate_with_submpo"
_G2 = "::TensorNetwork2DVector.gate"
_G3 = "::TensorNetwork3DVector.gate"

MUTANTS = [
    # ---- gate_TN_1D: mode string -> implementation
    (T1, _TN1D, '        elif ng == 2:\n            contract = "swap+split"', '        elif ng == 3:\n            contract = "swap+split"',
     "expect-fail"),
    (T1, _TN1D, '    elif contract == "nonlocal":\n        if ng == 1:', '    elif contract == "nonlocal":\n        if ng <= 2:', "expect-fail"),
    (T1, _TN1D, "            return tn.gate_with_auto_swap(\n                G,\n                where,\n                cur_orthog=cur_orthog,",
     "            return tn.gate_nonlocal(\n                G,\n                where,\n                cur_orthog=cur_orthog,", "expect-fail"),
    (T1, _TN1D, "        propagate_tags=propagate_tags,\n        info=info,\n        inplace=inplace,\n        **compress_opts,\n    )",
     "        propagate_tags=propagate_tags,\n        info=info,\n        inplace=False,\n        **compress_opts,\n    )", "expect-fail"),
    (T1, _TN1D, "        contract=contract,\n        tags=tags,\n        propagate_tags=propagate_tags,\n        info=info,\n        inplace=inplace,",
     "        contract=True,\n        tags=tags,\n        propagate_tags=propagate_tags,\n        info=info,\n        inplace=inplace,", "expect-fail"),
    (T1, _TN1D, "            return tn.gate_nonlocal(\n                G,\n                where,\n                cur_orthog=cur_orthog,\n                info=info,\n                inplace=inplace,\n                **compress_opts,",
     "            return tn.gate_nonlocal(\n                G,\n                where,\n                cur_orthog=cur_orthog,\n                info=info,\n                inplace=inplace,", "expect-fail"),
    (T1, _TN1D, '        if ng == 1:\n            contract = True\n        elif ng == 2:\n            contract = "swap+split"',
     '        if ng < 2:\n            contract = True\n        elif ng == 2:\n            contract = "swap+split"', "benign"),
    # ---- _tensor_network_gate_inds_lazy_split
    (G, _LAZY, "    gix = rix + lix if transpose else lix + rix", "    gix = lix + rix if transpose else rix + lix", "expect-fail"),
    (G, _LAZY, '        tnG_spat = TG.split(("l0", "r0"), bond_ind=bix, **compress_opts)',
     '        tnG_spat = TG.split(("l0", "l1"), bond_ind=bix, **compress_opts)', "expect-fail"),
    (G, _LAZY, "        if swap_rank < spat_rank:", "        if swap_rank <= spat_rank:", "expect-fail"),
    (G, _LAZY, "    return tn.gate_inds_with_tn_(inds, tnG, rix, lix)", "    return tn.gate_inds_with_tn_(inds, tnG, lix, rix)", "expect-fail"),
    (G, _LAZY, '        tnG_swap = TG.split(("l0", "r1"), bond_ind=bix, **compress_opts)',
     '        tnG_swap = TG.split(("l0", "r1"), bond_ind=bix)', "expect-fail"),
    (G, _LAZY, '    if contract == "swap-split-gate":\n        tnG = tnG_swap\n    elif contract == "split-gate":\n        tnG = tnG_spat',
     '    if contract == "swap-split-gate":\n        tnG = TG\n    elif contract == "split-gate":\n        tnG = tnG_spat', "expect-fail"),
    (G, _LAZY, "        elif spat_rank < prod(G.shape[:ng]):", "        elif prod(G.shape[:ng]) > spat_rank:", "benign"),
    # ---- TensorNetwork.gate_inds_with_tn
    (TC, _WTN, "                tixmap[tix] = gixmap[iix] = rand_uuid()", "                tixmap[tix] = gixmap[oix] = rand_uuid()", "expect-fail"),
    (TC, _WTN, "                gixmap[oix] = tix\n", "                gixmap[oix] = iix\n", "expect-fail"),
    (TC, _WTN, "        for tix, iix, oix in zip(inds, gate_inds_inner, gate_inds_outer):",
     "        for tix, iix, oix in zip(inds, gate_inds_outer, gate_inds_inner):", "expect-fail"),
    (TC, _WTN, "        tn_target |= gate.reindex(gixmap)", "        tn_target |= gate.reindex(tixmap)", "expect-fail"),
    (TC, _WTN, "            if tix in tn_target.ind_map:\n                tixmap[tix] = gixmap[iix] = rand_uuid()",
     "            if tix not in tn_target.ind_map:\n                tixmap[tix] = gixmap[iix] = rand_uuid()", "expect-fail"),
    (TC, _WTN, "        tn_target = self if inplace else self.copy()\n\n        tixmap = {}", "        tn_target = self\n\n        tixmap = {}",
     "expect-fail"),
    (TC, _WTN, "                tixmap[tix] = gixmap[iix] = rand_uuid()", "                tixmap[tix] = rand_uuid()\n                gixmap[iix] = rand_uuid()",
     "expect-fail"),
    (TC, _WTN, "        tn_target.reindex_(tixmap)\n        tn_target |= gate.reindex(gixmap)",
     "        g2 = gate.reindex(gixmap)\n        tn_target.reindex_(tixmap)\n        tn_target |= g2", "benign"),
    # ---- MatrixProductState.gate_split
    (T1, _SPL, "        ix_i, ix_j = map(self.site_ind, where)\n        # note that 'reduce-split'", "        ix_j, ix_i = map(self.site_ind, where)\n        # note that 'reduce-split'",
     "expect-fail"),
    (T1, _SPL, '            G, (ix_i, ix_j), contract="split", inplace=inplace, **compress_opts',
     '            G, (ix_i, ix_j), contract=True, inplace=inplace, **compress_opts', "expect-fail"),
    (T1, _SPL, '            G, (ix_i, ix_j), contract="split", inplace=inplace, **compress_opts',
     '            G, (ix_i, ix_j), contract="split", inplace=True, **compress_opts', "expect-fail"),
    (T1, _SPL, "        set_default_compress_mode(compress_opts, self.cyclic)\n        ix_i, ix_j = map(self.site_ind, where)",
     "        set_default_compress_mode(compress_opts, not self.cyclic)\n        ix_i, ix_j = map(self.site_ind, where)", "expect-fail"),
    (T1, _SPL, '            G, (ix_i, ix_j), contract="split", inplace=inplace, **compress_opts',
     '            G, (ix_i, ix_j), contract="split", inplace=inplace', "expect-fail"),
    (T1, _SPL, "        ix_i, ix_j = map(self.site_ind, where)\n        # note that 'reduce-split'",
     "        ix_i, ix_j = tuple(map(self.site_ind, where))\n        # note that 'reduce-split'", "benign"),
    # ---- MatrixProductState.gate_with_auto_swap
    (T1, _SWP, '            final_gate_where = (i + 1, i)\n            absorb = "left"', '            final_gate_where = (i, i + 1)\n            absorb = "left"',
     "expect-fail"),
    (T1, _SWP, "        need_to_swap = i + 1 != j", "        need_to_swap = i + 2 != j", "expect-fail"),
    (T1, _SWP, "            mps.swap_site_to(\n                j, i + 1, info=info, inplace=True, **compress_opts",
     "            mps.swap_site_to(\n                j, i, info=info, inplace=True, **compress_opts", "expect-fail"),
    (T1, _SWP, "        mps.canonicalize_((i, i + 1), info=info)", "        mps.canonicalize_((i, j), info=info)", "expect-fail"),
    (T1, _SWP, '        info["cur_orthog"] = (i + 1, i + 1)', '        info["cur_orthog"] = (i, i)', "expect-fail"),
    (T1, _SWP, "        if need_to_swap and swap_back:", "        if need_to_swap:", "expect-fail"),
    (T1, _SWP, '            final_gate_where = (i, i + 1)\n            absorb = "right"', '            final_gate_where = (i, i + 1)\n            absorb = "left"',
     "expect-fail"),
    (T1, _SWP, "            mps.swap_site_to(\n                i + 1, j, info=info, inplace=True, **compress_opts",
     "            mps.swap_site_to(\n                j, i + 1, info=info, inplace=True, **compress_opts", "expect-fail"),
    (T1, _SWP, "        i, j = where\n\n        if i > j:\n            # work with i < j but flip", "        i, j = where\n\n        if j < i:\n            # work with i < j but flip",
     "benign"),
    # ---- MatrixProductState.gate_nonlocal
    (T1, _NLC, "            dims = tuple(self.phys_dim(i) for i in where)\n\n        if dagger:",
     "            dims = tuple(self.phys_dim(i) for i in where[::-1])\n\n        if dagger:", "expect-fail"),
    (T1, _NLC, '            G = do("conj", G)\n            transpose = True\n\n        # create a sub-MPO',
     '            G = do("conj", G)\n\n        # create a sub-MPO', "expect-fail"),
    (T1, _NLC, '            G = do("conj", G)\n            transpose = True\n\n        # create a sub-MPO',
     '            transpose = True\n\n        # create a sub-MPO', "expect-fail"),
    (T1, _NLC, "            G, dims=dims, sites=where, L=self.L\n        )\n\n        return self.gate_with_submpo_(",
     "            G, dims=dims, sites=where[::-1], L=self.L\n        )\n\n        return self.gate_with_submpo_(", "expect-fail"),
    (T1, _NLC, "            transpose=transpose,\n            info=info,\n            inplace=inplace,\n            inplace_mpo=True,",
     "            transpose=False,\n            info=info,\n            inplace=inplace,\n            inplace_mpo=True,", "expect-fail"),
    (T1, _NLC, "            transpose=transpose,\n            info=info,\n            inplace=inplace,\n            inplace_mpo=True,",
     "            transpose=transpose,\n            info=info,\n            inplace=True,\n            inplace_mpo=True,", "expect-fail"),
    (T1, _NLC, "            transpose=transpose,\n            info=info,\n            inplace=inplace,\n            inplace_mpo=True,",
     "            transpose=transpose,\n            info=info,\n            inplace=inplace,\n            inplace_mpo=False,", "benign"),
    # ---- tensor_network_ag_gate
    (AG, _AGG, "            inds = tuple(map(tn.site_ind, where))", "            inds = tuple(map(tn.site_ind, where[::-1]))", "expect-fail"),
    (AG, _AGG, '        elif which == "upper":\n            inds = tuple(map(tn.upper_ind, where))',
     '        elif which == "upper":\n            inds = tuple(map(tn.lower_ind, where))', "expect-fail"),
    (AG, _AGG, "        inds_lower = tuple(map(tn.lower_ind, where))\n        inds = inds_upper + inds_lower",
     "        inds_lower = tuple(map(tn.upper_ind, where))\n        inds = inds_upper + inds_lower", "expect-fail"),
    (AG, _AGG, '        if isinstance(tn, TensorNetworkGenOperator):\n            which = "sandwich"',
     '        if isinstance(tn, TensorNetworkGenOperator):\n            which = "upper"', "expect-fail"),
    (AG, _AGG, "            dagger=dagger,\n            transpose=transpose,\n            tags=tags,\n            tags_upper=tags_upper,",
     "            dagger=dagger,\n            transpose=dagger,\n            tags=tags,\n            tags_upper=tags_upper,", "expect-fail"),
    (AG, _AGG, '        propagate_tags in (True, "sites")\n    ):', '        propagate_tags in (True, "sites", "register")\n    ):', "expect-fail"),
    (AG, _AGG, "            t.add_tag(tn.site_tag(site))\n\n    return tn", "            t.add_tag(tn.site_tag(where[0]))\n\n    return tn", "expect-fail"),
    (AG, _AGG, "        where = (*where, *where)", "        where = tuple(where)", "expect-fail"),
    (AG, _AGG, "            tags.update(tags_to_oset(tags_upper))", "            tags.update(tags_to_oset(tags_lower))", "expect-fail"),
    (AG, _AGG, "    tn = self if inplace else self.copy()\n\n    if tn.has_site(where):", "    tn = self\n\n    if tn.has_site(where):", "expect-fail"),
    (AG, _AGG, '    elif which == "both":\n        # shorter alias for sandwich', '    elif which in ("both",):\n        # shorter alias for sandwich', "benign"),
    # ---- maybe_factor_gate
    (G, _MFG, "    if ndimG != 2 * ng:", "    if ndimG != 2:", "expect-fail"),
    (G, _MFG, "            G = xp.reshape(G, dims * 2)", "            G = xp.reshape(G, dims + dims[::-1])", "expect-fail"),
    (G, _MFG, "            dims = tuple(tn.ind_size(ix) for ix in inds)", "            dims = tuple(tn.ind_size(ix) for ix in inds[::-1])", "expect-fail"),
    (G, _MFG, "            gate_shape = (dg,) * (2 * ng)", "            gate_shape = (dg,) * ng", "expect-fail"),
    (G, _MFG, "            dg = round(xp.size(G) ** (1 / (2 * ng)))", "            dg = round(xp.size(G) ** (1 / ng))", "expect-fail"),
    (G, _MFG, "    if ndimG != 2 * ng:", "    if 2 * ng != ndimG:", "benign"),
    # ---- Tensor.gate
    (TC, _TG, '            new_data = do("tensordot", G, t.data, ((1,), (ax,)))', '            new_data = do("tensordot", G, t.data, ((0,), (ax,)))',
     "expect-fail"),
    (TC, _TG, "            perm = (*range(1, ax + 1), 0, *range(ax + 1, t.ndim))", "            perm = (*range(1, ax), 0, *range(ax, t.ndim))",
     "expect-fail"),
    (TC, _TG, "            perm = (*range(1, ax + 1), 0, *range(ax + 1, t.ndim))", "            perm = (0, *range(1, t.ndim))", "expect-fail"),
    (TC, _TG, "            new_inds = (ind, *t.inds[:ax], *t.inds[ax + 1 :])", "            new_inds = (*t.inds[:ax], ind, *t.inds[ax + 1 :])",
     "expect-fail"),
    (TC, _TG, "            transpose = transposed\n", "            transpose = not transposed\n", "expect-fail"),
    (TC, _TG, "        t = self if inplace else self.copy()\n\n        ax = t.inds.index(ind)", "        t = self\n\n        ax = t.inds.index(ind)",
     "expect-fail"),
    (TC, _TG, '        if transpose:\n            new_data = do("tensordot", G, t.data, ((0,), (ax,)))',
     '        if not transpose:\n            new_data = do("tensordot", G, t.data, ((0,), (ax,)))', "expect-fail"),
    (TC, _TG, "        ax = t.inds.index(ind)\n\n        if transpose:", "        ax = self.inds.index(ind)\n\n        if transpose:", "benign"),
    # ---- TensorNetwork2DVector.gate
    (T2, _G2, "            where = tuple(where)\n\n        # can just use generic arbgeom methods",
     "            where = tuple(where)[::-1]\n\n        # can just use generic arbgeom methods", "expect-fail"),
    (T2, _G2, "            G=G,\n            where=where,\n            contract=contract,\n            tags=tags,\n            propagate_tags=propagate_tags,\n            inplace=inplace,",
     "            G=G,\n            where=where,\n            contract=contract,\n            tags=tags,\n            propagate_tags=propagate_tags,\n            inplace=False,", "expect-fail"),
    (T2, _G2, "            G=G,\n            where=where,\n            contract=contract,\n            tags=tags,", "            G=G,\n            where=where,\n            contract=False,\n            tags=tags,",
     "expect-fail"),
    (T2, _G2, "            propagate_tags=propagate_tags,\n            inplace=inplace,\n            info=info,\n            **compress_opts,\n        )\n\n    gate_ = ",
     "            propagate_tags=propagate_tags,\n            inplace=inplace,\n            info=info,\n        )\n\n    gate_ = ", "expect-fail"),
    (T2, _G2, "            where = tuple(where)\n\n        # can just use generic arbgeom methods",
     "            where = tuple(list(where))\n\n        # can just use generic arbgeom methods", "benign"),
    # ---- TensorNetwork3DVector.gate
    (T3, _G3, "        inds = tuple(map(self.site_ind, where))\n        return super().gate_inds(",
     "        inds = tuple(map(self.site_ind, where[::-1]))\n        return super().gate_inds(", "expect-fail"),
    (T3, _G3, "            contract=contract,\n            tags=tags,\n            info=info,\n            inplace=inplace,\n            **compress_opts,\n        )\n\n    gate_ = ",
     "            contract=contract,\n            tags=tags,\n            info=info,\n            inplace=True,\n            **compress_opts,\n        )\n\n    gate_ = ", "expect-fail"),
    (T3, _G3, "            contract=contract,\n            tags=tags,\n            info=info,\n            inplace=inplace,\n            **compress_opts,\n        )\n\n    gate_ = ",
     "            contract=contract,\n            tags=None,\n            info=info,\n            inplace=inplace,\n            **compress_opts,\n        )\n\n    gate_ = ", "expect-fail"),
    (T3, _G3, "            contract=contract,\n            tags=tags,\n            info=info,\n            inplace=inplace,\n            **compress_opts,\n        )\n\n    gate_ = ",
     "            contract=contract,\n            tags=tags,\n            info=info,\n            inplace=inplace,\n        )\n\n    gate_ = ", "expect-fail"),
    (T3, _G3, "            where = tuple(where)\n\n        inds = tuple(map(self.site_ind, where))",
     "            where = tuple(list(where))\n\n        inds = tuple(map(self.site_ind, where))", "benign"),
    # ---- TensorNetworkGenVector.gate_with_op_lazy
    (AG, _OPL, '            which_A="upper" if transpose else "lower",\n            contract=False,\n            inplace=inplace,\n            inplace_A=inplace_op,',
     '            which_A="lower" if transpose else "upper",\n            contract=False,\n            inplace=inplace,\n            inplace_A=inplace_op,', "expect-fail"),
    (AG, _OPL, '            which_A="upper" if transpose else "lower",\n            contract=False,\n            inplace=inplace,\n            inplace_A=inplace_op,',
     '            which_A="upper" if transpose else "lower",\n            contract=True,\n            inplace=inplace,\n            inplace_A=inplace_op,', "expect-fail"),
    (AG, _OPL, '            which_A="upper" if transpose else "lower",\n            contract=False,\n            inplace=inplace,\n            inplace_A=inplace_op,',
     '            which_A="upper" if transpose else "lower",\n            contract=False,\n            inplace=inplace,\n            inplace_A=inplace,', "expect-fail"),
    (AG, _OPL, '            which_A="upper" if transpose else "lower",\n            contract=False,\n            inplace=inplace,\n            inplace_A=inplace_op,',
     '            which_A="upper" if transpose else "lower",\n            contract=False,\n            inplace=True,\n            inplace_A=inplace_op,', "expect-fail"),
    (AG, _OPL, '            which_A="upper" if transpose else "lower",\n            contract=False,\n            inplace=inplace,\n            inplace_A=inplace_op,',
     '            which_A="lower" if not transpose else "upper",\n            contract=False,\n            inplace=inplace,\n            inplace_A=inplace_op,', "benign"),
    # ---- MatrixProductState.gate_with_submpo
    (T1, _SUB, "            si, sf = min(where), max(where)", "            si, sf = where[0], where[-1]", "expect-fail"),
    (T1, _SUB, "            psi.canonicalize_((si, sf), info=info)", "            psi.canonicalize_((si, si), info=info)", "expect-fail"),
    (T1, _SUB, "            transpose=transpose,\n            inplace_op=inplace_mpo,", "            transpose=False,\n            inplace_op=inplace_mpo,",
     "expect-fail"),
    (T1, _SUB, "        sub_site_tags = [psi.site_tag(s) for s in range(si, sf + 1)]", "        sub_site_tags = [psi.site_tag(s) for s in range(si, sf)]",
     "expect-fail"),
    (T1, _SUB, '            info["cur_orthog"] = (sf, sf)\n        else:\n            info["cur_orthog"] = (si, si)',
     '            info["cur_orthog"] = (si, si)\n        else:\n            info["cur_orthog"] = (sf, sf)', "expect-fail"),
    (T1, _SUB, "        psi |= subpsi\n\n        return psi\n\n    gate_with_submpo_", "        return psi\n\n    gate_with_submpo_", "expect-fail"),
    (T1, _SUB, "            # the sub TN can't be automatically permuted when missing sites\n            permute_arrays=False,",
     "            # the sub TN can't be automatically permuted when missing sites\n            permute_arrays=True,", "expect-fail"),
    (T1, _SUB, '        if method != "lazy":\n            si, sf = min(where), max(where)', '        if not (method == "lazy"):\n            si, sf = min(where), max(where)',
     "benign"),
]
