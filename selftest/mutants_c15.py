"""deliberate breakages of the real source that the C15 contracts must catch (see vf/selftest.py).

A mutant counts as caught only when it makes an obligation fail that is discharged on the unchanged tree (the
dims>=1 cases of _dim_compressor / dim_compress fail on the unchanged tree: known finding, they are not counted)."""
import os

MODULES = ['contracts.c15_kron']

C = 'quimb/core.py'
MUTANTS = [
    # ---- dynal
    (C, '::dynal', 'bs_szs = [prod(bases[i + 1 :])', 'bs_szs = [prod(bases[i:])', 'expect-fail'),
    (C, '::dynal', '        x -= div * b', '        x -= div', 'expect-fail'),
    (C, '::dynal', '        div = x // b', '        div = x // b + 1', 'expect-fail'),
    (C, '::dynal', '        div = x // b', '        div = x % b', 'expect-fail'),
    (C, '::dynal', 'for i in range(len(bases))]\n\n    for b in bs_szs', 'for i in range(1, len(bases))]\n\n    for b in bs_szs', 'expect-fail'),
    # ---- gen_matching_dynal
    (C, '::gen_matching_dynal', '        if d1 == d2:\n            yield (d1, d2)\n        else:\n            yield (d1, d2)\n            break',
     '        if d1 == d2:\n            yield (d1, d2)\n        else:\n            break', 'expect-fail'),
    (C, '::gen_matching_dynal', '        if d1 == d2:\n            yield (d1, d2)\n        else:\n            yield (d1, d2)\n            break',
     '        if d1 == d2:\n            yield (d1, d2)\n        else:\n            yield (d1, d2)', 'expect-fail'),
    (C, '::gen_matching_dynal', 'zip(dynal(ri, dims), dynal(rf, dims))', 'zip(dynal(ri, dims), dynal(ri, dims))', 'expect-fail'),
    (C, '::gen_matching_dynal', '        else:\n            yield (d1, d2)\n            break', '        else:\n            yield (d2, d1)\n            break', 'expect-fail'),
    (C, '::gen_matching_dynal', '        if d1 == d2:\n            yield (d1, d2)', '        if d1 <= d2:\n            yield (d1, d2)', 'expect-fail'),
    # ---- gen_ops_maybe_sliced
    (C, '::gen_ops_maybe_sliced', '                yield op[slice(d1, d2 + 1), :]', '                yield op[slice(d1, d2), :]', 'expect-fail'),
    (C, '::gen_ops_maybe_sliced', '                yield op[slice(d1, d2 + 1), :]', '                yield op[slice(d1 + 1, d2 + 1), :]', 'expect-fail'),
    (C, '::gen_ops_maybe_sliced', 'yield op.tocsr()[slice(d1, d2 + 1), :].tocoo()', 'yield op.tocsr()[slice(d1, d2 + 1), :]', 'expect-fail'),
    (C, '::gen_ops_maybe_sliced', 'yield op.tocsr()[slice(d1, d2 + 1), :].tocoo()', 'yield op[slice(d1, d2 + 1), :]', 'expect-fail'),
    (C, '::gen_ops_maybe_sliced', '        else:\n            yield op\n', '        else:\n            pass\n', 'expect-fail'),
    (C, '::gen_ops_maybe_sliced', '            d1, d2 = i\n', '            d2, d1 = i\n', 'expect-fail'),
    # ---- kron (ownership arithmetic)
    (C, '::kron', 'matching_dyn = tuple(gen_matching_dynal(ri, rf - 1, dims))', 'matching_dyn = tuple(gen_matching_dynal(ri, rf, dims))', 'expect-fail'),
    (C, '::kron', 'mtchn_bs = [prod(dims[i + 1 :]) for i in range(len(matching_dyn))]', 'mtchn_bs = [prod(dims[i:]) for i in range(len(matching_dyn))]', 'expect-fail'),
    (C, '::kron', 'rf_got = sum(d * b[1] for d, b in coeffs_bases) + mtchn_bs[-1]', 'rf_got = sum(d * b[1] for d, b in coeffs_bases) + 1', 'expect-fail'),
    (C, '::kron', 'rf_got = sum(d * b[1] for d, b in coeffs_bases) + mtchn_bs[-1]', 'rf_got = sum(d * b[0] for d, b in coeffs_bases) + mtchn_bs[-1]', 'expect-fail'),
    (C, '::kron', 'di, df = ri - ri_got, rf - rf_got', 'di, df = ri - ri_got, rf_got - rf', 'expect-fail'),
    (C, '::kron', 'X = X[di : (None if df == 0 else df), :]', 'X = X[di:df, :]', 'expect-fail'),
    (C, '::kron', '        if di or df:', '        if di and df:', 'expect-fail'),
    (C, '::kron', '        if di or df:', '        if di:', 'expect-fail'),
    (C, '::kron', 'if not ((0 <= ri < D) and (0 < rf <= D)):', 'if not ((0 <= ri < D) and (0 < rf < D)):', 'expect-fail'),
    (C, '::kron', 'if not ((0 <= ri < D) and (0 < rf <= D)):', 'if not ((0 <= ri < D) and (0 < rf <= D + 1)):', 'expect-fail'),
    (C, '::kron', '            if sp.isspmatrix_coo(X):\n                X = X.tocsr()\n            X = X[di', '            X = X[di', 'expect-fail'),
    (C, '::kron', 'sliced_ops = list(gen_ops_maybe_sliced(ops, matching_dyn))', 'sliced_ops = list(gen_ops_maybe_sliced(ops, matching_dyn[:-1]))', 'expect-fail'),
    (C, '::kron', '            ri_got, rf_got = 0, D', '            ri_got, rf_got = 0, D - 1', 'benign'),  # dead for K >= 1
]

_BASELINE = {}


def run_mutant(tmp, relpath, suffix, old, new):
    """like vf.selftest.run_e1_mutant, but a mutant is 'failed' only through obligations that are discharged on the
    unchanged tree (so the known-finding cases of dim_compress do not mask anything)"""
    from vf import pyvc
    cons = [v for k, v in pyvc.REGISTRY.items() if k.endswith(suffix)]
    if not cons:
        return "stale", f"no contract registered for {suffix}"
    con = cons[0]
    if con.target not in _BASELINE:
        rep0 = pyvc.verify(con)
        _BASELINE[con.target] = {o.oid for o in rep0.failed + rep0.unknown}
    src = open(os.path.join("/repo", relpath)).read()
    if src.count(old) < 1:
        return "stale", "old text not found in the current source"
    dst = os.path.join(tmp, relpath)
    os.makedirs(os.path.dirname(dst), exist_ok=True)
    open(dst, "w").write(src.replace(old, new, 1))
    pyvc.REPO = tmp
    pyvc._SRC_CACHE.clear()
    try:
        rep = pyvc.verify(con)
    finally:
        pyvc.REPO = "/repo"
        pyvc._SRC_CACHE.clear()
        os.remove(dst)
    base = _BASELINE[con.target]
    newfail = [o for o in rep.failed if o.oid not in base]
    if newfail:
        return "failed", ", ".join(sorted({o.label.split("#")[0] for o in newfail})[:3])
    if rep.status != "ok":
        return rep.status, rep.detail[:120]
    newunk = [o for o in rep.unknown if o.oid not in base]
    if newunk:
        return "unknown", f"{len(newunk)} undecided: " + ", ".join(sorted({o.label for o in newunk})[:3])
    return "discharged", ""
