"""deliberate breakages of the real source that the C15 contracts must catch (see vf/selftest.py).

A mutant counts as caught only when it makes an obligation fail that is discharged on the unchanged tree (the
dims>=1 cases of _dim_compressor / dim_compress fail on the unchanged tree: known finding, they are not counted)."""
import os

MODULES = ['contracts.c15_kron']

C = 'quimb/core.py'
O = 'quimb/gen/operators.py'
MUTANTS = [
    # ---- dynal
    (C, '::dynal', 'bs_szs = [prod(bases[i + 1 :])', 'bs_szs = [prod(bases[i:])', 'expect-fail'),
    (C, '::dynal', '        x -= div * b', '        x -= div', 'expect-fail'),
    (C, '::dynal', '        div = x // b', '        div = x // b + 1', 'expect-fail'),
    (C, '::dynal', '        div = x // b', '        div = x % b', 'expect-fail'),
    (C, '::dynal', 'for i in range(len(bases))]\n\n    for b in bs_szs', 'for i in range(1, len(bases))]\n\n    for b in bs_szs', 'expect-fail'),
    # ---- gen_matching_dynal
    (C, '::gen_matching_dynal', '        if d1 == d2:\n            yield (d1, d2)\n        else:\n            yield (d1, d2)\n            break',
     '        if d1 == d2:\n            yield (d1, d2)\n        else:\n            break', 'expect-fail'),
    (C, '::gen_matching_dynal', '        if d1 == d2:\n            yield (d1, d2)\n        else:\n            yield (d1, d2)\n            break',
     '        if d1 == d2:\n            yield (d1, d2)\n        else:\n            yield (d1, d2)', 'expect-fail'),
    (C, '::gen_matching_dynal', 'zip(dynal(ri, dims), dynal(rf, dims))', 'zip(dynal(ri, dims), dynal(ri, dims))', 'expect-fail'),
    (C, '::gen_matching_dynal', '        else:\n            yield (d1, d2)\n            break', '        else:\n            yield (d2, d1)\n            break', 'expect-fail'),
    (C, '::gen_matching_dynal', '        if d1 == d2:\n            yield (d1, d2)', '        if d1 <= d2:\n            yield (d1, d2)', 'expect-fail'),
    # ---- gen_ops_maybe_sliced
    (C, '::gen_ops_maybe_sliced', '                yield op[slice(d1, d2 + 1), :]', '                yield op[slice(d1, d2), :]', 'expect-fail'),
    (C, '::gen_ops_maybe_sliced', '                yield op[slice(d1, d2 + 1), :]', '                yield op[slice(d1 + 1, d2 + 1), :]', 'expect-fail'),
    (C, '::gen_ops_maybe_sliced', 'yield op.tocsr()[slice(d1, d2 + 1), :].tocoo()', 'yield op.tocsr()[slice(d1, d2 + 1), :]', 'expect-fail'),
    (C, '::gen_ops_maybe_sliced', 'yield op.tocsr()[slice(d1, d2 + 1), :].tocoo()', 'yield op[slice(d1, d2 + 1), :]', 'expect-fail'),
    (C, '::gen_ops_maybe_sliced', '        else:\n            yield op\n', '        else:\n            pass\n', 'expect-fail'),
    (C, '::gen_ops_maybe_sliced', '            d1, d2 = i\n', '            d2, d1 = i\n', 'expect-fail'),
    # ---- kron (ownership arithmetic)
    (C, '::kron', 'matching_dyn = tuple(gen_matching_dynal(ri, rf - 1, dims))', 'matching_dyn = tuple(gen_matching_dynal(ri, rf, dims))', 'expect-fail'),
    (C, '::kron', 'mtchn_bs = [prod(dims[i + 1 :]) for i in range(len(matching_dyn))]', 'mtchn_bs = [prod(dims[i:]) for i in range(len(matching_dyn))]', 'expect-fail'),
    (C, '::kron', 'rf_got = sum(d * b[1] for d, b in coeffs_bases) + mtchn_bs[-1]', 'rf_got = sum(d * b[1] for d, b in coeffs_bases) + 1', 'expect-fail'),
    (C, '::kron', 'rf_got = sum(d * b[1] for d, b in coeffs_bases) + mtchn_bs[-1]', 'rf_got = sum(d * b[0] for d, b in coeffs_bases) + mtchn_bs[-1]', 'expect-fail'),
    (C, '::kron', 'di, df = ri - ri_got, rf - rf_got', 'di, df = ri - ri_got, rf_got - rf', 'expect-fail'),
    (C, '::kron', 'X = X[di : (None if df == 0 else df), :]', 'X = X[di:df, :]', 'expect-fail'),
    (C, '::kron', '        if di or df:', '        if di and df:', 'expect-fail'),
    (C, '::kron', '        if di or df:', '        if di:', 'expect-fail'),
    (C, '::kron', 'if not ((0 <= ri < D) and (0 < rf <= D)):', 'if not ((0 <= ri < D) and (0 < rf < D)):', 'expect-fail'),
    (C, '::kron', 'if not ((0 <= ri < D) and (0 < rf <= D)):', 'if not ((0 <= ri < D) and (0 < rf <= D + 1)):', 'expect-fail'),
    (C, '::kron', '            if sp.isspmatrix_coo(X):\n                X = X.tocsr()\n            X = X[di', '            X = X[di', 'expect-fail'),
    (C, '::kron', 'sliced_ops = list(gen_ops_maybe_sliced(ops, matching_dyn))', 'sliced_ops = list(gen_ops_maybe_sliced(ops, matching_dyn[:-1]))', 'expect-fail'),
    (C, '::kron', '            ri_got, rf_got = 0, D', '            ri_got, rf_got = 0, D - 1', 'benign'),  # dead for K >= 1
    # ---- _dim_map_1d
    (C, '::_dim_map_1d', "def _dim_map_1d(sza, coos):\n    for coo in coos:\n        if 0 <= coo < sza:", "def _dim_map_1d(sza, coos):\n    for coo in coos:\n        if 0 <= coo <= sza:", 'expect-fail'),
    (C, '::_dim_map_1d', "def _dim_map_1d(sza, coos):\n    for coo in coos:\n        if 0 <= coo < sza:", "def _dim_map_1d(sza, coos):\n    for coo in coos:\n        if 0 < coo < sza:", 'expect-fail'),
    (C, '::_dim_map_1d', "        if 0 <= coo < sza:\n            yield coo\n        else:\n            raise ValueError", "        if 0 <= coo < sza:\n            yield coo + 1\n        else:\n            raise ValueError", 'expect-fail'),
    (C, '::_dim_map_1d', "        if 0 <= coo < sza:\n            yield coo\n        else:\n            raise ValueError(\"One or more coordinates out of range.\")", "        if 0 <= coo < sza:\n            yield coo\n        else:\n            continue", 'expect-fail'),
    (C, '::_dim_map_1d', "        if 0 <= coo < sza:\n            yield coo\n        else:\n            raise ValueError(\"One or more coordinates out of range.\")", "        if 0 <= coo < sza:\n            yield coo\n        else:\n            yield coo % sza", 'expect-fail'),
    # ---- _dim_map_1dtrim
    (C, '::_dim_map_1dtrim', "return (coo for coo in coos if (0 <= coo < sza))", "return (coo for coo in coos if (0 <= coo <= sza))", 'expect-fail'),
    (C, '::_dim_map_1dtrim', "return (coo for coo in coos if (0 <= coo < sza))", "return (coo for coo in coos if (0 < coo < sza))", 'expect-fail'),
    (C, '::_dim_map_1dtrim', "return (coo for coo in coos if (0 <= coo < sza))", "return (coo for coo in coos)", 'expect-fail'),
    (C, '::_dim_map_1dtrim', "return (coo for coo in coos if (0 <= coo < sza))", "return (coo for coo in coos[1:] if (0 <= coo < sza))", 'expect-fail'),
    (C, '::_dim_map_1dtrim', "return (coo for coo in coos if (0 <= coo < sza))", "return (coo for coo in reversed(coos) if (0 <= coo < sza))", 'expect-fail'),
    # ---- _dim_map_1dcyclic
    (C, '::_dim_map_1dcyclic', "return (coo % sza for coo in coos)", "return (coo for coo in coos)", 'expect-fail'),
    (C, '::_dim_map_1dcyclic', "return (coo % sza for coo in coos)", "return (coo % (sza + 1) for coo in coos)", 'expect-fail'),
    (C, '::_dim_map_1dcyclic', "return (coo % sza for coo in coos)", "return (coo // sza for coo in coos)", 'expect-fail'),
    (C, '::_dim_map_1dcyclic', "return (coo % sza for coo in coos)", "return (abs(coo) % sza for coo in coos)", 'expect-fail'),
    # ---- _dim_map_2dcyclic
    (C, '::_dim_map_2dcyclic', "return (szb * (coo[0] % sza) + coo[1] % szb for coo in coos)", "return (sza * (coo[0] % sza) + coo[1] % szb for coo in coos)", 'expect-fail'),
    (C, '::_dim_map_2dcyclic', "return (szb * (coo[0] % sza) + coo[1] % szb for coo in coos)", "return (szb * (coo[0] % szb) + coo[1] % szb for coo in coos)", 'expect-fail'),
    (C, '::_dim_map_2dcyclic', "return (szb * (coo[0] % sza) + coo[1] % szb for coo in coos)", "return (szb * (coo[0] % sza) + coo[1] for coo in coos)", 'expect-fail'),
    (C, '::_dim_map_2dcyclic', "return (szb * (coo[0] % sza) + coo[1] % szb for coo in coos)", "return (szb * (coo[1] % sza) + coo[0] % szb for coo in coos)", 'expect-fail'),
    # ---- _dim_map_2dtrim
    (C, '::_dim_map_2dtrim', "def _dim_map_2dtrim(sza, szb, coos):\n    for coo in coos:\n        x, y = coo\n        if 0 <= x < sza and 0 <= y < szb:\n            yield szb * x + y", "def _dim_map_2dtrim(sza, szb, coos):\n    for coo in coos:\n        x, y = coo\n        if 0 <= x < sza and 0 <= y <= szb:\n            yield szb * x + y", 'expect-fail'),
    (C, '::_dim_map_2dtrim', "def _dim_map_2dtrim(sza, szb, coos):\n    for coo in coos:\n        x, y = coo\n        if 0 <= x < sza and 0 <= y < szb:\n            yield szb * x + y", "def _dim_map_2dtrim(sza, szb, coos):\n    for coo in coos:\n        x, y = coo\n        if 0 <= x < sza and 0 <= y < szb:\n            yield sza * x + y", 'expect-fail'),
    (C, '::_dim_map_2dtrim', "def _dim_map_2dtrim(sza, szb, coos):\n    for coo in coos:\n        x, y = coo\n        if 0 <= x < sza and 0 <= y < szb:", "def _dim_map_2dtrim(sza, szb, coos):\n    for coo in coos:\n        x, y = coo\n        if 0 <= x < sza or 0 <= y < szb:", 'expect-fail'),
    (C, '::_dim_map_2dtrim', "def _dim_map_2dtrim(sza, szb, coos):\n    for coo in coos:\n        x, y = coo\n        if 0 <= x < sza and 0 <= y < szb:", "def _dim_map_2dtrim(sza, szb, coos):\n    for coo in coos:\n        x, y = coo\n        if 0 <= x < szb and 0 <= y < sza:", 'expect-fail'),
    (C, '::_dim_map_2dtrim', "def _dim_map_2dtrim(sza, szb, coos):\n    for coo in coos:\n        x, y = coo\n", "def _dim_map_2dtrim(sza, szb, coos):\n    for coo in coos:\n        y, x = coo\n", 'expect-fail'),
    # ---- _dim_map_2d
    (C, '::_dim_map_2d', "def _dim_map_2d(sza, szb, coos):\n    for coo in coos:\n        x, y = coo\n        if 0 <= x < sza and 0 <= y < szb:\n            yield szb * x + y", "def _dim_map_2d(sza, szb, coos):\n    for coo in coos:\n        x, y = coo\n        if 0 <= x < sza and 0 <= y < szb:\n            yield sza * x + y", 'expect-fail'),
    (C, '::_dim_map_2d', "def _dim_map_2d(sza, szb, coos):\n    for coo in coos:\n        x, y = coo\n        if 0 <= x < sza and 0 <= y < szb:\n            yield szb * x + y", "def _dim_map_2d(sza, szb, coos):\n    for coo in coos:\n        x, y = coo\n        if 0 <= x < sza and 0 <= y < szb:\n            yield szb * y + x", 'expect-fail'),
    (C, '::_dim_map_2d', "def _dim_map_2d(sza, szb, coos):\n    for coo in coos:\n        x, y = coo\n        if 0 <= x < sza and 0 <= y < szb:", "def _dim_map_2d(sza, szb, coos):\n    for coo in coos:\n        x, y = coo\n        if 0 <= x <= sza and 0 <= y < szb:", 'expect-fail'),
    (C, '::_dim_map_2d', "def _dim_map_2d(sza, szb, coos):\n    for coo in coos:\n        x, y = coo\n        if 0 <= x < sza and 0 <= y < szb:", "def _dim_map_2d(sza, szb, coos):\n    for coo in coos:\n        x, y = coo\n        if 0 <= x < sza and -1 <= y < szb:", 'expect-fail'),
    (C, '::_dim_map_2d', "            yield szb * x + y\n        else:\n            raise ValueError", "            yield szb * x + y\n        elif x < 0:\n            raise ValueError", 'expect-fail'),
    # ---- _dim_map_nd
    (C, '::_dim_map_nd', "for sz in szs[-1:0:-1]:", "for sz in szs[-1::-1]:", 'expect-fail'),
    (C, '::_dim_map_nd', "for sz in szs[-1:0:-1]:", "for sz in szs[-2::-1]:", 'expect-fail'),
    (C, '::_dim_map_nd', "strides.insert(0, sz * strides[0])", "strides.insert(0, sz * strides[-1])", 'expect-fail'),
    (C, '::_dim_map_nd', "strides.insert(0, sz * strides[0])", "strides.append(sz * strides[0])", 'expect-fail'),
    (C, '::_dim_map_nd', "    if cyclic:\n        coos = ((c % sz", "    if cyclic and not trim:\n        coos = ((c % sz", 'expect-fail'),
    (C, '::_dim_map_nd', "coos = (c for c in coos if all(x == x % sz for x, sz in zip(c, szs)))", "coos = (c for c in coos if any(x == x % sz for x, sz in zip(c, szs)))", 'expect-fail'),
    (C, '::_dim_map_nd', "elif not all(all(c == c % sz for c, sz in zip(coo, szs)) for coo in coos):", "elif not any(all(c == c % sz for c, sz in zip(coo, szs)) for coo in coos):", 'expect-fail'),
    (C, '::_dim_map_nd', "return (sum(c * m for c, m in zip(coo, strides)) for coo in coos)", "return (sum(c * m for c, m in zip(coo, strides[::-1])) for coo in coos)", 'expect-fail'),
    (C, '::_dim_map_nd', "coos = ((c % sz for c, sz in zip(coo, szs)) for coo in coos)", "coos = ((c % sz for c, sz in zip(coo, szs[::-1])) for coo in coos)", 'expect-fail'),
    # ---- calc.partial_transpose
    ('quimb/calc.py', '::partial_transpose', "            perm_ket_inds.append(i + ndims)\n            perm_bra_inds.append(i)", "            perm_ket_inds.append(i)\n            perm_bra_inds.append(i)", 'expect-fail'),
    ('quimb/calc.py', '::partial_transpose', "        if i in sysa:\n            perm_ket_inds.append(i + ndims)", "        if i not in sysa:\n            perm_ket_inds.append(i + ndims)", 'expect-fail'),
    ('quimb/calc.py', '::partial_transpose', "    for i in range(ndims):\n        if i in sysa:\n            perm_ket_inds.append(i + ndims)", "    for i in range(ndims - 1):\n        if i in sysa:\n            perm_ket_inds.append(i + ndims)", 'expect-fail'),
    ('quimb/calc.py', '::partial_transpose', ".transpose((*perm_ket_inds, *perm_bra_inds))", ".transpose((*perm_bra_inds, *perm_ket_inds))", 'expect-fail'),
    ('quimb/calc.py', '::partial_transpose', "            perm_ket_inds.append(i)\n            perm_bra_inds.append(i + ndims)", "            perm_ket_inds.append(i)\n            perm_bra_inds.append(i + ndims - 1)", 'expect-fail'),
    ('quimb/calc.py', '::partial_transpose', "        .reshape((*dims, *dims))\n        .transpose((*perm_ket_inds, *perm_bra_inds))", "        .transpose((*perm_ket_inds, *perm_bra_inds))", 'expect-fail'),
    ('quimb/calc.py', '::partial_transpose', "    for i in range(ndims):\n        if i in sysa:\n            perm_ket_inds.append(i + ndims)", "    for i in range(1, ndims):\n        if i in sysa:\n            perm_ket_inds.append(i + ndims)", 'expect-fail'),
    # ---- _dim_compressor
    (C, '::_dim_compressor', "        elif i in inds:\n            if blocksize_id > 1:\n                yield (blocksize_id, 0)\n                blocksize_id = 1", "        elif i in inds:\n            if blocksize_id > 1:\n                yield (blocksize_id, 0)", 'expect-fail'),
    (C, '::_dim_compressor', "            blocksize_op *= dim\n        else:", "            blocksize_op += dim\n        else:", 'expect-fail'),
    (C, '::_dim_compressor', "        else:\n            if blocksize_op > 1:\n                yield (blocksize_op, 1)\n                blocksize_op = 1", "        else:\n            if blocksize_op > 1:\n                yield (blocksize_op, 0)\n                blocksize_op = 1", 'expect-fail'),
    (C, '::_dim_compressor', "        elif i in inds:\n            if blocksize_id > 1:", "        elif i + 1 in inds:\n            if blocksize_id > 1:", 'expect-fail'),
    (C, '::_dim_compressor', "    yield (\n        (blocksize_op, 1)\n        if blocksize_op > 1\n        else (blocksize_id, 0)", "    yield (\n        (blocksize_op, 1)\n        if blocksize_op > 2\n        else (blocksize_id, 0)", 'expect-fail'),
    (C, '::_dim_compressor', "            blocksize_id *= dim\n    yield (", "            blocksize_id = dim\n    yield (", 'expect-fail'),
    (C, '::_dim_compressor', "        else:\n            if blocksize_op > 1:\n                yield (blocksize_op, 1)\n                blocksize_op = 1", "        else:\n            if blocksize_op > 1:\n                blocksize_op = 1", 'expect-fail'),
    # ---- dim_compress
    (C, '::dim_compress', "inds = tuple(i for i, b in enumerate(inds) if b)", "inds = tuple(i for i, b in enumerate(inds) if not b)", 'expect-fail'),
    (C, '::dim_compress', "inds = tuple(i for i, b in enumerate(inds) if b)", "inds = tuple(i + 1 for i, b in enumerate(inds) if b)", 'expect-fail'),
    (C, '::dim_compress', "    dims, inds = zip(*_dim_compressor(dims, inds))", "    inds, dims = zip(*_dim_compressor(dims, inds))", 'expect-fail'),
    (C, '::dim_compress', "    if isinstance(inds, Integral):\n        inds = (inds,)\n\n    dims, inds = zip", "    if isinstance(inds, Integral):\n        inds = (inds + 1,)\n\n    dims, inds = zip", 'expect-fail'),
    (C, '::dim_compress', "    dims, inds = zip(*_dim_compressor(dims, inds))", "    dims, inds = zip(*_dim_compressor(dims[::-1], inds))", 'expect-fail'),
    # ---- ikron.gen_ops
    (C, '::ikron.gen_ops', "                if cff_id > 1:\n                    yield eye(cff_id, **eye_kws)\n                    cff_id = 1  # reset cumulative identity size", "                if cff_id > 1:\n                    yield eye(cff_id, **eye_kws)", 'expect-fail'),
    (C, '::ikron.gen_ops', "                if cff_ov * dim == sz_op or dim == -1:\n                    yield op\n                    cff_ov = 1", "                if cff_ov * dim == sz_op or dim == -1:\n                    yield op", 'expect-fail'),
    (C, '::ikron.gen_ops', "            elif cff_ov > 1:\n                cff_ov *= dim", "            elif cff_ov > 1:\n                cff_id *= dim", 'expect-fail'),
    (C, '::ikron.gen_ops', "        if cff_id > 1:\n            yield eye(cff_id, **eye_kws)\n\n    return kron(", "        if cff_id > 2:\n            yield eye(cff_id, **eye_kws)\n\n    return kron(", 'expect-fail'),
    (C, '::ikron.gen_ops', "                else:\n                    cff_ov *= dim\n", "                else:\n                    cff_ov += dim\n", 'expect-fail'),
    (C, '::ikron.gen_ops', "            else:\n                cff_id *= dim\n", "            else:\n                cff_id = dim\n", 'expect-fail'),
    (C, '::ikron.gen_ops', "                if cff_ov == 1:\n                    op = next(ops)", "                if cff_ov >= 1:\n                    op = next(ops)", 'expect-fail'),
    (C, '::ikron.gen_ops', "                    yield eye(cff_id, **eye_kws)\n                    cff_id = 1", "                    yield eye(cff_id)\n                    cff_id = 1", 'expect-fail'),
    # ---- dim_map (dispatcher; the table _dim_mapper_methods is read from the real source)
    (C, '::dim_map', "    (1, False, True): _dim_map_1dtrim,", "    (1, False, True): _dim_map_1dcyclic,", 'expect-fail'),
    (C, '::dim_map', "    (2, False, False): _dim_map_2d,", "    (2, False, False): _dim_map_2dtrim,", 'expect-fail'),
    (C, '::dim_map', "    (2, True, False): _dim_map_2dcyclic,", "    (2, True, True): _dim_map_2dcyclic,", 'benign'),  # the n-d fallback computes the same wrapped index
    (C, '::dim_map', "            coos = (c[0] for c in coos)", "            coos = (c[0] + 1 for c in coos)", 'expect-fail'),
    (C, '::dim_map', "        inds = _dim_map_nd(szs, coos, cyclic, trim)", "        inds = _dim_map_nd(szs, coos, trim, cyclic)", 'expect-fail'),
    (C, '::dim_map', "    while ndim > 1:\n        dims = itertools.chain", "    while ndim > 2:\n        dims = itertools.chain", 'expect-fail'),
    (C, '::dim_map', "inds = _dim_mapper_methods[(ndim, cyclic, trim)](*szs, coos)", "inds = _dim_mapper_methods[(ndim, trim, cyclic)](*szs, coos)", 'expect-fail'),
    # ---- gen.operators.ham_heis / ham_heis.gen_term
    (O, '::ham_heis', "0 if not any((bx, by, bz)) else -1, n if cyclic else n - 1", "0 if any((bx, by, bz)) else -1, n if cyclic else n - 1", 'expect-fail'),
    (O, '::ham_heis', "0 if not any((bx, by, bz)) else -1, n if cyclic else n - 1", "0 if not any((bx, by, bz)) else -1, n - 1 if cyclic else n", 'expect-fail'),
    (O, '::ham_heis', "0 if not any((bx, by, bz)) else -1, n if cyclic else n - 1", "0 if not any((bx, by)) else -1, n if cyclic else n - 1", 'expect-fail'),
    (O, '::ham_heis', "0 if not any((bx, by, bz)) else -1, n if cyclic else n - 1", "0 if not any((bx, by, bz)) else -1, n if cyclic else n - 2", 'expect-fail'),
    (O, '::ham_heis', "b * kron(spin_operator(s, **op_kws), eye(2, **op_kws))", "b * kron(eye(2, **op_kws), spin_operator(s, **op_kws))", 'expect-fail'),
    (O, '::ham_heis', "        -b * spin_operator(s, **op_kws)\n", "        b * spin_operator(s, **op_kws)\n", 'expect-fail'),
    (O, '::ham_heis', "j * kron(spin_operator(s, **op_kws), spin_operator(s, **op_kws))", "kron(spin_operator(s, **op_kws), spin_operator(s, **op_kws))", 'expect-fail'),
    (O, '::ham_heis', "        bz = b\n        bx = by = 0.0", "        bx = b\n        bz = by = 0.0", 'expect-fail'),
    (O, '::ham_heis', "        ham = sum(map(gen_term, terms_needed))", "        ham = sum(map(gen_term, terms_needed[1:]))", 'expect-fail'),
    (O, '::ham_heis', "    ) - sum(\n        b * kron(", "    ) + sum(\n        b * kron(", 'expect-fail'),
    (O, '::ham_heis.gen_term', "        if i == -1:\n            return ikron(single_site_b, dims, n - 1, **ikron_kws)", "        if i == 0:\n            return ikron(single_site_b, dims, n - 1, **ikron_kws)", 'expect-fail'),
    (O, '::ham_heis.gen_term', "return ikron(single_site_b, dims, n - 1, **ikron_kws)", "return ikron(single_site_b, dims, n - 2, **ikron_kws)", 'expect-fail'),
    (O, '::ham_heis.gen_term', "spin_operator(s, **op_kws), dims, [0, n - 1], **ikron_kws", "spin_operator(s, **op_kws), dims, [0, n - 2], **ikron_kws", 'expect-fail'),
    (O, '::ham_heis.gen_term', "return ikron(two_site_term, dims, [i, i + 1], **ikron_kws)", "return ikron(two_site_term, dims, [i, i + 2], **ikron_kws)", 'expect-fail'),
    (O, '::ham_heis.gen_term', "        if i == n - 1:\n            return sum(", "        if i == n:\n            return sum(", 'expect-fail'),
    (O, '::ham_heis.gen_term', "                j\n                * ikron(", "                1\n                * ikron(", 'expect-fail'),
    (O, '::ham_heis.gen_term', "return ikron(two_site_term, dims, [i, i + 1], **ikron_kws)", "return ikron(single_site_b, dims, [i, i + 1], **ikron_kws)", 'expect-fail'),
    (O, '::ham_heis.gen_term', "                for j, s in zip((jx, jy, jz), \"xyz\")\n                if j != 0.0\n            )", "                for j, s in zip((jx, jy, jz), \"xyz\")\n            )", 'benign'),
    (O, '::ham_heis.gen_term', "return ikron(two_site_term, dims, [i, i + 1], **ikron_kws)", "return ikron(two_site_term, dims, [i, i + 1])", 'expect-fail'),
    # ---- aliases of ham_heis
    (O, '::ham_ising', "return ham_heis(n, j=(0, 0, jz), b=(bx, 0, 0), **ham_opts)", "return ham_heis(n, j=(jz, 0, 0), b=(bx, 0, 0), **ham_opts)", 'expect-fail'),
    (O, '::ham_ising', "return ham_heis(n, j=(0, 0, jz), b=(bx, 0, 0), **ham_opts)", "return ham_heis(n, j=(0, 0, jz), b=(0, 0, bx), **ham_opts)", 'expect-fail'),
    (O, '::ham_ising', "return ham_heis(n, j=(0, 0, jz), b=(bx, 0, 0), **ham_opts)", "return ham_heis(n + 1, j=(0, 0, jz), b=(bx, 0, 0), **ham_opts)", 'expect-fail'),
    (O, '::ham_ising', "return ham_heis(n, j=(0, 0, jz), b=(bx, 0, 0), **ham_opts)", "return ham_heis(n, j=(0, 0, jz), b=(bx, 0, 0))", 'expect-fail'),
    (O, '::ham_XY', "return ham_heis(n, j=(jxy, jxy, 0), b=(0, 0, bz), **ham_opts)", "return ham_heis(n, j=(jxy, 0, jxy), b=(0, 0, bz), **ham_opts)", 'expect-fail'),
    (O, '::ham_XY', "return ham_heis(n, j=(jxy, jxy, 0), b=(0, 0, bz), **ham_opts)", "return ham_heis(n, j=(jxy, jxy, 0), b=(bz, 0, 0), **ham_opts)", 'expect-fail'),
    (O, '::ham_XY', "return ham_heis(n, j=(jxy, jxy, 0), b=(0, 0, bz), **ham_opts)", "return ham_heis(n - 1, j=(jxy, jxy, 0), b=(0, 0, bz), **ham_opts)", 'expect-fail'),
    (O, '::ham_XY', "return ham_heis(n, j=(jxy, jxy, 0), b=(0, 0, bz), **ham_opts)", "return ham_heis(n, j=(jxy, jxy, 0), b=(0, 0, bz))", 'expect-fail'),
    (O, '::ham_XXZ', "return ham_heis(n, j=(jxy, jxy, delta), b=0, **ham_opts)", "return ham_heis(n, j=(delta, jxy, jxy), b=0, **ham_opts)", 'expect-fail'),
    (O, '::ham_XXZ', "return ham_heis(n, j=(jxy, jxy, delta), b=0, **ham_opts)", "return ham_heis(n, j=(jxy, jxy, delta), b=1, **ham_opts)", 'expect-fail'),
    (O, '::ham_XXZ', "return ham_heis(n, j=(jxy, jxy, delta), b=0, **ham_opts)", "return ham_heis(n + 1, j=(jxy, jxy, delta), b=0, **ham_opts)", 'expect-fail'),
    (O, '::ham_XXZ', "return ham_heis(n, j=(jxy, jxy, delta), b=0, **ham_opts)", "return ham_heis(n, j=(jxy, jxy, delta), b=0)", 'expect-fail'),
]

_BASELINE = {}


def run_mutant(tmp, relpath, suffix, old, new):
    """like vf.selftest.run_e1_mutant, but a mutant is 'failed' only through obligations that are discharged on the
    unchanged tree (so the known-finding cases of dim_compress do not mask anything)"""
    from vf import pyvc
    cons = [v for k, v in pyvc.REGISTRY.items() if k.endswith(suffix)]
    if not cons:
        return "stale", f"no contract registered for {suffix}"
    con = cons[0]
    if con.target not in _BASELINE:
        rep0 = pyvc.verify(con)
        _BASELINE[con.target] = {o.oid for o in rep0.failed + rep0.unknown}
    src = open(os.path.join("/repo", relpath)).read()
    if src.count(old) < 1:
        return "stale", "old text not found in the current source"
    dst = os.path.join(tmp, relpath)
    os.makedirs(os.path.dirname(dst), exist_ok=True)
    open(dst, "w").write(src.replace(old, new, 1))
    pyvc.REPO = tmp
    pyvc._SRC_CACHE.clear()
    try:
        rep = pyvc.verify(con)
    finally:
        pyvc.REPO = "/repo"
        pyvc._SRC_CACHE.clear()
        os.remove(dst)
    base = _BASELINE[con.target]
    newfail = [o for o in rep.failed if o.oid not in base]
    if newfail:
        return "failed", ", ".join(sorted({o.label.split("#")[0] for o in newfail})[:3])
    if rep.status != "ok":
        return rep.status, rep.detail[:120]
    newunk = [o for o in rep.unknown if o.oid not in base]
    if newunk:
        return "unknown", f"{len(newunk)} undecided: " + ", ".join(sorted({o.label for o in newunk})[:3])
    return "discharged", ""
