"""deliberate breakage of quimb/evo.py: every behaviour-changing mutant must turn a named obligation of the C18
contracts from discharged to failed.  Two carriers already fail on the unchanged tree (known finding C18-b: a 2x2 matrix is
mis-parsed as a presolved pair) -- for those
the runner below only counts obligations that fail IN ADDITION to the baseline set."""
import os
import re

MODULES = ["contracts.c18_evo"]
E = "quimb/evo.py"

MUTANTS = [
    # ---- _calc_evo_eq
    (E, "::_calc_evo_eq", "(1, 0, 0, 0): schrodinger_eq_dop,", "(1, 0, 0, 0): schrodinger_eq_ket,", "expect-fail"),
    (E, "::_calc_evo_eq", "(0, 1, 0, 1): schrodinger_eq_ket_timedep,", "(0, 1, 0, 1): schrodinger_eq_ket,", "expect-fail"),
    (E, "::_calc_evo_eq", "(1, 1, 0, 1): schrodinger_eq_dop_timedep,", "(1, 1, 0, 1): schrodinger_eq_dop_vectorized,", "expect-fail"),
    (E, "::_calc_evo_eq", "(1, 0, 1, 0): lindblad_eq,", "(1, 0, 1, 0): schrodinger_eq_dop,", "expect-fail"),
    (E, "::_calc_evo_eq", "(0, 0, 0, 1): schrodinger_eq_ket_timedep,", "", "expect-fail"),
    (E, "::_calc_evo_eq", "(1, 1, 0, 0): schrodinger_eq_dop_vectorized,", "(1, 1, 0, 0): schrodinger_eq_dop,", "benign"),
    # ---- properties
    (E, "Evolution.t", 'return self._stepper.t if self._method == "integrate" else self._t',
     'return self._stepper.t if self._method != "integrate" else self._t', "expect-fail"),
    (E, "Evolution.t", 'return self._stepper.t if self._method == "integrate" else self._t',
     'return self._t', "expect-fail"),
    (E, "Evolution.t", 'return self._stepper.t if self._method == "integrate" else self._t',
     'return self._stepper.t if self._method == "integrate" else self.t0', "expect-fail"),
    (E, "Evolution.t", 'return self._stepper.t if self._method == "integrate" else self._t',
     'return self._stepper.t if self._method == "solve" else self._t', "expect-fail"),
    (E, "Evolution.pt", "return qarray(self._stepper.y.reshape(self._d, -1))\n        else:\n            return self._pt",
     "return qarray(self._stepper.y.reshape(self._d, -1))\n        else:\n            return self._p0", "expect-fail"),
    (E, "Evolution.pt", 'if self._method == "integrate":\n            return qarray', 'if self._method == "expm":\n            return qarray', "expect-fail"),
    (E, "Evolution.pt", "return qarray(self._stepper.y.reshape(self._d, -1))", "return qarray(self._stepper.y)", "expect-fail"),
    (E, "Evolution.pt", "return qarray(self._stepper.y.reshape(self._d, -1))", "return self._pt", "expect-fail"),
    # ---- _update_to_expm_ket
    (E, "._update_to_expm_ket", "factor = -1j * (t - self.t)", "factor = -1j * (t - self.t0)", "expect-fail"),
    (E, "._update_to_expm_ket", "factor = -1j * (t - self.t)", "factor = 1j * (t - self.t)", "expect-fail"),
    (E, "._update_to_expm_ket", "factor = -1j * (t - self.t)", "factor = -1j * t", "expect-fail"),
    (E, "._update_to_expm_ket", "                )\n            )\n        self._t = t", "                )\n            )", "expect-fail"),
    # the one-sided evolution of a density operator put back (finding 5), and a wrong second pass
    (E, "._update_to_expm_ket", "        if self._isdop:\n            # a density operator evolves on both sides", "        if False:\n            # a density operator evolves on both sides", "expect-fail"),
    (E, "._update_to_expm_ket", "                    dag(self._pt),\n", "                    self._pt,\n", "expect-fail"),
    (E, "._update_to_expm_ket", "            self._pt,\n            backend=self.expm_backend,", "            self._p0,\n            backend=self.expm_backend,", "expect-fail"),
    (E, "._update_to_expm_ket", "self._step_callback(t, self._pt, self._ham)", "self._step_callback(self.t0, self._pt, self._ham)", "expect-fail"),
    (E, "._update_to_expm_ket", "factor = -1j * (t - self.t)", "self._t = t\n        factor = -1j * (t - self.t)", "expect-fail"),
    # ---- _update_to_solved_ket
    (E, "._update_to_solved_ket", "lt = explt(evals, t - self.t0)\n        self._pt = evecs @ ldmul(lt, self.pe0)",
     "lt = explt(evals, t - self._t)\n        self._pt = evecs @ ldmul(lt, self.pe0)", "expect-fail"),
    (E, "._update_to_solved_ket", "lt = explt(evals, t - self.t0)\n        self._pt = evecs @ ldmul(lt, self.pe0)",
     "lt = explt(evals, t)\n        self._pt = evecs @ ldmul(lt, self.pe0)", "expect-fail"),
    (E, "._update_to_solved_ket", "self._pt = evecs @ ldmul(lt, self.pe0)", "self._pt = ldmul(lt, self.pe0)", "expect-fail"),
    (E, "._update_to_solved_ket", "self._pt = evecs @ ldmul(lt, self.pe0)", "self._pt = evecs @ ldmul(lt, self._p0)", "expect-fail"),
    (E, "._update_to_solved_ket", "self._t = t\n        evals, evecs = self._ham\n        lt = explt(evals, t - self.t0)\n        self._pt = evecs @ ldmul",
     "evals, evecs = self._ham\n        lt = explt(evals, t - self.t0)\n        self._pt = evecs @ ldmul", "expect-fail"),
    (E, "._update_to_solved_ket", "lt = explt(evals, t - self.t0)\n        self._pt = evecs @ ldmul(lt, self.pe0)",
     "lt = explt(evals, self.t0 - t)\n        self._pt = evecs @ ldmul(lt, self.pe0)", "expect-fail"),
    # ---- _update_to_solved_dop
    (E, "._update_to_solved_dop", "lvpvl = rdmul(ldmul(lt, self.pe0), lt.conj())", "lvpvl = ldmul(lt, self.pe0)", "expect-fail"),
    (E, "._update_to_solved_dop", "lvpvl = rdmul(ldmul(lt, self.pe0), lt.conj())", "lvpvl = rdmul(ldmul(lt, self.pe0), lt)", "expect-fail"),
    (E, "._update_to_solved_dop", "self._pt = evecs @ (lvpvl @ dag(evecs))", "self._pt = evecs @ lvpvl", "expect-fail"),
    (E, "._update_to_solved_dop", "lt = explt(evals, t - self.t0)\n        lvpvl", "lt = explt(evals, t - self._t)\n        lvpvl", "expect-fail"),
    (E, "._update_to_solved_dop", "self._pt = evecs @ (lvpvl @ dag(evecs))", "self._pt = dag(evecs) @ (lvpvl @ evecs)", "expect-fail"),
    # ---- _update_to_integrate
    (E, "._update_to_integrate", "self._stepper.integrate(t)", "self._stepper.integrate(t - self.t0)", "expect-fail"),
    (E, "._update_to_integrate", "self._stepper.integrate(t)", "self._stepper.integrate(self.t0)", "expect-fail"),
    (E, "._update_to_integrate", "self._stepper.integrate(t)", "pass", "expect-fail"),
    (E, "._update_to_integrate", "self._stepper.integrate(t)", "self._stepper.integrate(t)\n        self._stepper.integrate(self.t0)", "expect-fail"),
    # ---- update_to
    (E, "Evolution.update_to", "                self._stepper.set_solout(solout)\n                self._update_method(t)\n        else:\n            self._update_method(t)",
     "                self._stepper.set_solout(solout)\n                self._update_method(t)\n        else:\n            pass", "expect-fail"),
    (E, "Evolution.update_to", "                self._stepper.set_solout(solout)\n                self._update_method(t)",
     "                self._stepper.set_solout(solout)\n                self._update_method(t)\n                self._update_method(self.t0)", "expect-fail"),
    (E, "Evolution.update_to", "                self._stepper.set_solout(solout)\n                self._update_method(t)",
     "                self._stepper.set_solout(solout)\n                self._update_method(self.t)", "expect-fail"),
    (E, "Evolution.update_to", "int_stop_res = self._int_step_callback(t, y, self._ham)\n                        pbar.cupdate(t)\n                        return int_stop_res",
     "int_stop_res = self._int_step_callback(t, y, self._ham)\n                        pbar.cupdate(t)\n                        return None", "expect-fail"),
    (E, "Evolution.update_to", "                self._stepper.set_solout(solout)\n", "", "expect-fail"),
    (E, "Evolution.update_to", "int_stop_res = self._int_step_callback(t, y, self._ham)\n                        pbar", "int_stop_res = self._int_step_callback(self.t0, y, self._ham)\n                        pbar", "expect-fail"),
    # ---- at_times
    (E, "Evolution.at_times", "self._update_method(t)\n            yield self.pt", "self._update_method(t)\n            yield self._p0", "expect-fail"),
    (E, "Evolution.at_times", "self._update_method(t)\n            yield self.pt", "yield self.pt\n            self._update_method(t)", "expect-fail"),
    (E, "Evolution.at_times", "self._update_method(t)\n            yield self.pt", "self._update_method(t)\n            yield self.pt\n            yield self.pt", "expect-fail"),
    (E, "Evolution.at_times", "self._update_method(t)\n            yield self.pt", "self._update_method(t)\n        yield self.pt", "expect-fail"),
    (E, "Evolution.at_times", "self._update_method(t)\n            yield self.pt", "self._update_method(t - self.t0)\n            yield self.pt", "expect-fail"),
    (E, "Evolution.at_times", "self._update_method(t)\n            yield self.pt", "self._update_method(ts[0])\n            yield self.pt", "expect-fail"),
    # ---- _setup_solved_ham
    (E, "._setup_solved_ham", 'evals, evecs = self._ham\n            self._method = "solve"', "evals, evecs = self._ham", "expect-fail"),
    (E, "._setup_solved_ham", "self.pe0 = dot(dag(evecs), self._p0)", "self.pe0 = dot(evecs, self._p0)", "expect-fail"),
    (E, "._setup_solved_ham", "self.pe0 = dot(dag(evecs), dot(self._p0, evecs))", "self.pe0 = dot(dag(evecs), self._p0)", "expect-fail"),
    (E, "._setup_solved_ham", "            self._update_method = self._update_to_solved_dop\n        else:", "            self._update_method = self._update_to_solved_ket\n        else:", "expect-fail"),
    (E, "._setup_solved_ham", "self._ham = (evals, evecs)", "pass", "expect-fail"),
    (E, "._setup_solved_ham", "# Current state (start with same as initial)\n        self._pt = self._p0",
     "# Current state (start with same as initial)\n        self._pt = self.pe0", "expect-fail"),
    (E, "._setup_solved_ham", "if self._isdop:\n            self.pe0", "if not self._isdop:\n            self.pe0", "expect-fail"),
    # ---- _start_integrator
    (E, "._start_integrator", "evo_eq = _calc_evo_eq(self._isdop, issparse(H0), False, self._timedep)", "evo_eq = _calc_evo_eq(False, issparse(H0), False, self._timedep)", "expect-fail"),
    (E, "._start_integrator", "evo_eq = _calc_evo_eq(self._isdop, issparse(H0), False, self._timedep)", "evo_eq = _calc_evo_eq(self._isdop, issparse(H0), False, False)", "expect-fail"),
    (E, "._start_integrator", "self._p0.toarray().reshape(-1), self.t0", "self._p0.toarray().reshape(-1), 0.0", "expect-fail"),
    (E, "._start_integrator", "self._update_method = self._update_to_integrate", "self._update_method = self._update_to_expm_ket", "expect-fail"),
    (E, "._start_integrator", "res = self._int_step_callback(t, y, self._ham)\n                return res", "res = self._int_step_callback(t, y, self._ham)\n                return None", "expect-fail"),
    (E, "._start_integrator", 'int_mthd, step_fct = ("dopri5", 150) if small_step else ("dop853", 50)', 'int_mthd, step_fct = ("dopri5", 150) if not small_step else ("dop853", 50)', "expect-fail"),
    (E, "._start_integrator", "self._stepper = complex_ode(evo_eq(ham))", "self._stepper = complex_ode(evo_eq(H0))", "expect-fail"),
    (E, "._start_integrator", "if self._int_step_callback is not None:\n\n            def solout", "if self._int_step_callback is None:\n\n            def solout", "expect-fail"),
    # ---- _setup_callback
    (E, "._setup_callback", "pt = qarray(y.reshape(self._d, -1))\n                    step_callback(t, pt, H)\n                    return int_stop_try2then3args(t, pt, H)",
     "pt = qarray(y.reshape(self._d, -1))\n                    step_callback(t, y, H)\n                    return int_stop_try2then3args(t, pt, H)", "expect-fail"),
    (E, "._setup_callback", "fn_result = v(t, pt, H)\n                        self._results[k].append(fn_result)", "fn_result = v(t, pt, H)", "expect-fail"),
    (E, "._setup_callback", "step_callback(t, pt, H)\n                    return int_stop_try2then3args(t, pt, H)", "step_callback(t, pt, H)\n                    int_stop_try2then3args(t, pt, H)", "expect-fail"),
    (E, "._setup_callback", "                    pt = qarray(y.reshape(self._d, -1))\n                    step_callback(t, pt, H)\n\n        self._step_callback",
     "                    pt = qarray(y.reshape(self._d, -1))\n\n        self._step_callback", "expect-fail"),
    (E, "._setup_callback", "fn_result = fn_try2then3args(t, pt, H)\n                    self._results.append(fn_result)", "fn_result = fn_try2then3args(0.0, pt, H)\n                    self._results.append(fn_result)", "expect-fail"),
    (E, "._setup_callback", "            elif self._progbar:\n\n                def int_step_callback(t, y, H):\n                    pass", "            elif False:\n\n                def int_step_callback(t, y, H):\n                    pass", "expect-fail"),
    (E, "._setup_callback", "self._step_callback = step_callback\n", "self._step_callback = None\n", "expect-fail"),
    # ---- __init__
    (E, "Evolution.__init__", 'if method == "solve" or isinstance(ham, (tuple, list)):', 'if method == "solve":', "expect-fail"),
    (E, "Evolution.__init__", "self._t = self.t0 = t0", "self._t = self.t0 = 0", "expect-fail"),
    (E, "Evolution.__init__", 'elif self._timedep:\n                raise TypeError(\n                    "You can\'t use the \'solve\' method "', 'elif False:\n                raise TypeError(\n                    "You can\'t use the \'solve\' method "', "expect-fail"),
    (E, "Evolution.__init__", 'if isinstance(ham, LinearOperator):\n                raise TypeError(\n                    "You can\'t use the \'expm\' method with an "', 'if False:\n                raise TypeError(\n                    "You can\'t use the \'expm\' method with an "', "expect-fail"),
    (E, "Evolution.__init__", "self._update_method = self._update_to_expm_ket\n            self._pt = self._p0", "self._update_method = self._update_to_expm_ket", "expect-fail"),
    (E, "Evolution.__init__", "self._isdop = isop(self._p0)", "self._isdop = False", "expect-fail"),
    (E, "Evolution.__init__", '        else:\n            raise ValueError(\n                f"Did not understand evolution method', '        elif False:\n            raise ValueError(\n                f"Did not understand evolution method', "expect-fail"),
    (E, "Evolution.__init__", "self._setup_callback(compute, int_stop)", "self._setup_callback(None, int_stop)", "expect-fail"),
    # int_stop is outside the text of C18 (demoted to a note): an ignored stopping condition does not change the evolution
    (E, "Evolution.__init__", 'if (int_stop is not None) and (method != "integrate"):', 'if (int_stop is not None) and (method == "solve"):', "benign"),
    (E, "Evolution.__init__", "self._start_integrator(ham, int_small_step)\n            self._ham = ham", "self._start_integrator(ham, int_small_step)", "expect-fail"),
    (E, "Evolution.__init__", 'elif method == "integrate":\n            self._start_integrator', 'elif method == "integrate" and not self._isdop:\n            self._start_integrator', "expect-fail"),
    (E, "Evolution.__init__", "self._method = method\n", 'self._method = "integrate"\n', "expect-fail"),
    # (DESIGN finding 5: the repair is now the second, adjoint pass in _update_to_expm_ket; its reverts are listed there)
]


_BASE = {}  # failing obligations on the unchanged tree, per carrier


def run_mutant(tmp, relpath, suffix, old, new):
    """like vf.selftest.run_e1_mutant, but 'failed' means: obligations fail that do not fail on the unchanged tree"""
    from vf import pyvc

    def ids(rep):
        return {re.sub(r"@\d+", "@L", o.oid) for o in rep.failed}

    src = open(os.path.join("/repo", relpath)).read()
    if src.count(old) < 1:
        return "stale", "old text not found in the current source"
    cons = [v for k, v in pyvc.REGISTRY.items() if k.endswith(suffix)]
    if not cons:
        return "stale", f"no contract registered for {suffix}"
    if suffix not in _BASE:
        _BASE[suffix] = ids(pyvc.verify(cons[0]))
    base = _BASE[suffix]
    # callee contracts live in other source files: give the scratch tree unchanged copies of every file under contract
    import shutil
    for tgt in list(pyvc.REGISTRY):
        rp = tgt.split("::")[0]
        if rp != relpath and os.path.exists(os.path.join("/repo", rp)) and not os.path.exists(os.path.join(tmp, rp)):
            os.makedirs(os.path.dirname(os.path.join(tmp, rp)), exist_ok=True)
            shutil.copy(os.path.join("/repo", rp), os.path.join(tmp, rp))
    dst = os.path.join(tmp, relpath)
    os.makedirs(os.path.dirname(dst), exist_ok=True)
    open(dst, "w").write(src.replace(old, new, 1))
    pyvc.REPO = tmp
    pyvc._SRC_CACHE.clear()
    try:
        rep = pyvc.verify(cons[0], discharge_now=False)
    finally:
        pyvc.REPO = "/repo"
        pyvc._SRC_CACHE.clear()
        open(dst, "w").write(src)
    if rep.status != "ok":
        return rep.status, rep.detail[:120]
    # discharge one by one and stop at the first obligation that fails although it does not fail on the unchanged tree
    unknown = 0
    for ob in rep.obligations:
        oid = re.sub(r"@\d+", "@L", ob.oid)
        if oid in base:
            continue
        pyvc.discharge(ob, timeout_ms=5000, portfolio=False)
        if ob.status == "failed":
            return "failed", oid.split("::")[-1]
        unknown += ob.status == "unknown"
    if unknown:
        return "unknown", f"{unknown} undecided"
    return "discharged", ""
