"""deliberate breakages for the C03 frame / alias-pairing provider (contracts/c03_frame.py).

MUTANTS = [(relpath, function_suffix, old_text, new_text, "expect-fail" | "benign"), ...]
  function_suffix = substring of the obligation id that must flip from discharged to failed (expect-fail) or stay
  discharged (benign).  `old_text` must occur in the file; only its FIRST occurrence is replaced.

run:  cd /verif && .venv/bin/python selftest/mutants_c03.py [index ...]
"""
import os
import shutil
import subprocess
import sys

TC = "quimb/tensor/tensor_core.py"
T1 = "quimb/tensor/tn1d/core.py"
T2 = "quimb/tensor/tn2d/core.py"
T3 = "quimb/tensor/tn3d/core.py"
AG = "quimb/tensor/tnag/core.py"
D2 = "quimb/tensor/belief_propagation/d2bp.py"
_MEID = "TensorNetwork.multiply_each::frame-"
_ME = ("        multiplied = self if inplace else self.copy()\n\n        for t in multiplied.tensors:\n"
       "            t.modify(apply=lambda data: data * x)\n")

MUTANTS = [
    # (1) remove .copy() from an idiom line
    (TC, "Tensor.transpose::frame-",
     "        t = self if inplace else self.copy()\n\n        output_inds = tuple(output_inds)",
     "        t = self if inplace else self\n\n        output_inds = tuple(output_inds)", "expect-fail"),
    (TC, "TensorNetwork.conj::frame-",
     "        tn = self if inplace else self.copy()\n\n        for t in tn:\n            t.conj_()",
     "        tn = self\n\n        for t in tn:\n            t.conj_()", "expect-fail"),
    (AG, "tensor_network_ag_sum::frame-", "    tna = tna if inplace else tna.copy()", "    tna = tna if inplace else tna",
     "expect-fail"),
    (AG, "tensor_network_align::frame-", "        tns = [tn.copy() for tn in tns]", "        tns = [tn for tn in tns]",
     "expect-fail"),
    (T1, "TensorNetwork1DFlat.canonicalize::frame-", "        mps = self if inplace else self.copy()\n\n        if isinstance(where, Integral):",
     "        mps = self if not inplace else self.copy()\n\n        if isinstance(where, Integral):", "expect-fail"),
    # (2) a write to the receiver before the idiom
    (TC, "TensorNetwork.multiply::frame-", "        multiplied = self if inplace else self.copy()\n",
     "        self.exponent = 0.0\n        multiplied = self if inplace else self.copy()\n", "expect-fail"),
    (TC, "Tensor.isel::frame-", "        new = self if inplace else self.copy()\n",
     "        self.modify(tags=())\n        new = self if inplace else self.copy()\n", "expect-fail"),
    (TC, "TensorNetwork.squeeze::frame-", "        tn = self if inplace else self.copy()\n\n        for t in tn:\n            t.squeeze_(",
     "        tn = self if inplace else self.copy()\n\n        for t in self:\n            t.squeeze_(", "expect-fail"),
    (T2, "TensorNetwork2D.contract_boundary_from::frame-", "        tn = self if inplace else self.copy()\n",
     "        tn = self if inplace else self.copy()\n        self.drop_tags('X')\n", "expect-fail"),
    # the same write under a test that implies inplace is fine
    (TC, "TensorNetwork.multiply::frame-", "        multiplied = self if inplace else self.copy()\n",
     "        if inplace:\n            self.exponent = 0.0\n        multiplied = self if inplace else self.copy()\n", "benign"),
    # (3) delegation with the flag forced
    (TC, "Tensor.moveindex::frame-", "        return self.transpose(*new_inds, inplace=inplace)",
     "        return self.transpose(*new_inds, inplace=True)", "expect-fail"),
    (T1, "MatrixProductState.add_MPS::frame-", "return tensor_network_ag_sum(self, other, inplace=inplace, **kwargs)",
     "return tensor_network_ag_sum(self, other, inplace=True, **kwargs)", "expect-fail"),
    (T3, "TensorNetwork3DVector.gate::frame-", "            inplace=inplace,\n            **compress_opts,\n        )\n\n    gate_ = ",
     "            inplace=True,\n            **compress_opts,\n        )\n\n    gate_ = ", "expect-fail"),
    (TC, "TensorNetwork.view_as::frame-", "return cls.from_TN(self, inplace=inplace, **kwargs)",
     "return cls.from_TN(self, inplace=not inplace, **kwargs)", "expect-fail"),
    (TC, "TensorNetwork.contract_around::frame-", "            callback=callback,\n            inplace=inplace,\n            **kwargs,\n        )\n\n    contract_around_ =",
     "            callback=callback,\n            inplace=True,\n            **kwargs,\n        )\n\n    contract_around_ =", "expect-fail"),
    # (4) subclass override of the plain spelling without re-binding the alias  (O3, reflection)
    (T1, "alias-pairing[MatrixProductState.reindex_]", "class MatrixProductState(TensorNetwork1DVector, TensorNetwork1DFlat):\n",
     "class MatrixProductState(TensorNetwork1DVector, TensorNetwork1DFlat):\n    def reindex(self, index_map, inplace=False):\n"
     "        return TensorNetwork.reindex(self, index_map, inplace=inplace)\n\n", "expect-fail"),
    (TC, "alias-pairing[TensorNetwork.conj_]", "    conj_ = functools.partialmethod(conj, inplace=True)\n\n    @property\n    def H(self):\n        \"\"\"Conjugate all the tensors in this network (leaves all indices).",
     "    conj_ = functools.partialmethod(retag, inplace=True)\n\n    @property\n    def H(self):\n        \"\"\"Conjugate all the tensors in this network (leaves all indices).", "expect-fail"),
    (TC, "alias-pairing[TensorNetwork.negate_]", "    negate_ = functools.partialmethod(negate, inplace=True)\n\n    def __mul__(self, other):\n        \"\"\"Scalar multiplication.\"\"\"",
     "    negate_ = functools.partialmethod(multiply_each, inplace=True)\n\n    def __mul__(self, other):\n        \"\"\"Scalar multiplication.\"\"\"", "expect-fail"),
    # (5) in-place operator on the original receiver instead of the copy
    (TC, "TensorNetwork.insert_operator::frame-", "        tn |= TA\n\n        return tn\n", "        self |= TA\n\n        return tn\n", "expect-fail"),
    (T1, "MatrixProductState.measure::frame-", "                tn ^= slice(site, site + 2)", "                self ^= slice(site, site + 2)",
     "expect-fail"),
    (AG, "tensor_network_apply_op_vec::frame-", "    x = x if inplace else x.copy()\n    A = A if inplace_A else A.copy()\n",
     "    x0 = x\n    x = x if inplace else x.copy()\n    A = A if inplace_A else A.copy()\n    x0 |= A\n", "expect-fail"),
    # others: a part of the receiver written through an alias / an attribute chain / a view
    (TC, "TensorNetwork.negate::frame-", "        negated = self if inplace else self.copy()\n",
     "        negated = self if inplace else self.copy()\n        t0 = next(iter(self.tensor_map.values()))\n        t0.modify(tags=())\n",
     "expect-fail"),
    (TC, "TensorNetwork.flip::frame-", "        tn = self if inplace else self.copy()\n\n        if isinstance(inds, str):\n            inds = (inds,)\n\n        for ind in inds:\n            tids = tn.ind_map[ind]",
     "        tn = self if inplace else self.copy()\n        self.select(inds).reindex_({})\n\n        if isinstance(inds, str):\n            inds = (inds,)\n\n        for ind in inds:\n            tids = tn.ind_map[ind]", "expect-fail"),
    (TC, "TensorNetwork.flip::frame-", "        tn = self if inplace else self.copy()\n\n        if isinstance(inds, str):\n            inds = (inds,)\n\n        for ind in inds:\n            tids = tn.ind_map[ind]",
     "        tn = self if inplace else self.copy()\n        self.select(inds, virtual=False).reindex_({})\n\n        if isinstance(inds, str):\n            inds = (inds,)\n\n        for ind in inds:\n            tids = tn.ind_map[ind]", "benign"),
    (TC, "TensorNetwork.retag::frame-", "        tn = self if inplace else self.copy()\n",
     "        tn = self if inplace else self.copy()\n        del self.tag_map['x']\n", "expect-fail"),
    # ---- soundness probes on one small method (TensorNetwork.multiply_each): every way of reaching the original
    (TC, _MEID, _ME, _ME.replace("multiplied.tensors", "self.tensors"), "expect-fail"),                 # view of the original
    (TC, _MEID, _ME, _ME + "        x0 = self\n        x0.exponent = 1.0\n", "expect-fail"),              # alias
    (TC, _MEID, _ME, _ME + "        def _f():\n            self.drop_tags('a')\n        _f()\n", "expect-fail"),   # closure
    (TC, _MEID, _ME, _ME + "        setattr(self, 'exponent', 2.0)\n", "expect-fail"),
    (TC, _MEID, _ME, _ME + "        while x > 1:\n            self.pop_tensor(0)\n            x -= 1\n", "expect-fail"),
    (TC, _MEID, _ME, _ME + "        kw = {}\n        kw['inplace'] = True\n        self.negate(**kw)\n", "expect-fail"),
    (TC, _MEID, _ME, _ME + "        self._contract_around_tids([0], inplace=True)\n", "expect-fail"),  # flag through **kwargs
    (TC, _MEID, _ME, _ME + "        [t.conj_() for t in self]\n", "expect-fail"),
    (TC, _MEID, _ME, _ME + "        list(map(lambda t: t.conj_(), self.tensors))\n", "expect-fail"),
    (TC, _MEID, _ME, _ME + "        TensorNetwork.negate(self, inplace=True)\n", "expect-fail"),        # class-qualified
    (TC, _MEID, _ME, _ME + "        if not inplace:\n            self.negate_()\n", "expect-fail"),
    (TC, _MEID, _ME, _ME + "        (self | multiplied).conj_()\n", "expect-fail"),                     # virtual combination
    (TC, _MEID, _ME, _ME + "        ts = list(self.tensors)\n        ts[0].modify(tags=())\n", "expect-fail"),
    (TC, _MEID, _ME, _ME.replace("self if inplace else self.copy()", "self if (inplace or x == 1) else self.copy()"), "expect-fail"),
    (TC, _MEID, _ME, _ME.replace("self if inplace else self.copy()", "self.copy() if inplace else self"), "expect-fail"),
    (TC, _MEID, _ME, _ME.replace("        multiplied = self if inplace else self.copy()\n",
                                 "        multiplied = self\n        if not inplace:\n            multiplied = self.copy()\n"), "benign"),
    (TC, _MEID, _ME, _ME + "        if not inplace:\n            return multiplied\n        self.negate_()\n", "benign"),
    (TC, _MEID, _ME, _ME + "        self = multiplied\n        self.negate_()\n", "benign"),               # rebinding
    (TC, _MEID, _ME, _ME + "        y = self.copy()\n        y.negate_()\n        z = self.negate()\n        z.conj_()\n", "benign"),
    (TC, _MEID, _ME, _ME + "        n = self.num_tensors\n        n += 1\n        e = self.exponent\n        e += 1.0\n", "benign"),
    # a deep leaf writes before its idiom: the whole non-in-place caller chain is hit
    (TC, "Tensor.reindex::frame-", "        new = self if inplace else self.copy()\n\n        new_inds = tuple(index_map.get(ind, ind) for ind in new.inds)",
     "        self._tags = None\n        new = self if inplace else self.copy()\n\n        new_inds = tuple(index_map.get(ind, ind) for ind in new.inds)", "expect-fail"),
    # `tn = self if (inplace or insert_into is not None) else self.copy()`: drop the later rebinding
    (TC, "TensorNetwork.insert_compressor_between_regions::frame-", "        if insert_into is not None:\n            tn = insert_into\n", "", "expect-fail"),
    # helper objects holding the receiver (belief propagation)
    (D2, "compress_d2bp::frame-", "        contract_every=contract_every,\n        inplace=inplace,\n        **contract_opts,\n    )\n    bp.run(",
     "        contract_every=contract_every,\n        inplace=True,\n        **contract_opts,\n    )\n    bp.run(", "expect-fail"),
    ("quimb/tensor/belief_propagation/bp_common.py", "compress_d2bp::frame-", "        self.tn = tn if inplace else tn.copy()", "        self.tn = tn", "expect-fail"),
    (D2, "D2BP.compress::frame-", "        tn = self.tn if inplace else self.tn.copy()", "        tn = self.tn", "expect-fail"),
    # reverting the fix of TensorNetwork1DFlat.expand_bond_dimension: zero-argument super() binds the ORIGINAL self
    (T1, "TensorNetwork1DFlat.expand_bond_dimension::frame-", "        tn = super(TensorNetwork1DFlat, tn).expand_bond_dimension(",
     "        tn = super().expand_bond_dimension(", "expect-fail"),
    (T1, "TensorNetwork1DFlat.expand_bond_dimension::frame-", "        tn = super(TensorNetwork1DFlat, tn).expand_bond_dimension(",
     "        tn = super(TensorNetwork1DFlat, self).expand_bond_dimension(", "expect-fail"),
    # reverting the alias re-binds of finding 17
    (T1, "alias-pairing[MatrixProductState.flip_]", "    flip_ = functools.partialmethod(flip, inplace=True)\n", "", "expect-fail"),
    (T2, "alias-pairing[TensorNetwork2DFlat.expand_bond_dimension_]",
     "    expand_bond_dimension_ = functools.partialmethod(\n        expand_bond_dimension, inplace=True\n    )\n", "", "expect-fail"),
    # a leaf mutator loses its write: every caller stays fine, the leaf consistency obligation notices
    (TC, "Tensor._set_data::leaf-summary-consistent", "        self._data = asarray(data)\n", "        pass\n", "expect-fail"),
]


def run(which=None, verbose=True):
    here = os.path.dirname(os.path.dirname(os.path.abspath(__file__)))
    sys.path.insert(0, here)
    scratch = os.environ.get("C03_SCRATCH", "/tmp/c03-mutants")
    src_root = os.path.realpath(os.environ.get("VERIF_REPO", "/repo"))
    shutil.rmtree(os.path.join(scratch, "quimb"), ignore_errors=True)   # always start from the current tree
    if True:
        shutil.copytree(os.path.join(src_root, "quimb"), os.path.join(scratch, "quimb"),
                        ignore=shutil.ignore_patterns("__pycache__", "*.pyc", "*.nbi", "*.nbc", "*.ipynb"))
    code = ("import sys, json; sys.path.insert(0, %r); import contracts.c03_frame as F; "
            "obs = F.provider(); print('##' + json.dumps({o.id: o.status for o in obs}))" % here)

    def provider():
        env = dict(os.environ, VERIF_REPO=scratch, PYTHONPATH=scratch, PYTHONWARNINGS="ignore",
                   NUMBA_CACHE_DIR="/tmp/numba-cache-c03-mutants")
        r = subprocess.run([sys.executable, "-c", code], capture_output=True, text=True, env=env)
        line = [x for x in r.stdout.splitlines() if x.startswith("##")]
        if not line:
            raise RuntimeError(r.stderr[-2000:])
        import json
        return json.loads(line[-1][2:])

    base = provider()
    ok_all = True
    for i, (rel, suffix, old, new, expect) in enumerate(MUTANTS):
        if which and i not in which:
            continue
        path = os.path.join(scratch, rel)
        orig = open(os.path.join(src_root, rel)).read()
        if orig.count(old) < 1:
            print(f"[{i}] STALE mutant: text not found in {rel}: {old[:60]!r}")
            ok_all = False
            continue
        open(path, "w").write(orig.replace(old, new, 1))
        try:
            res = provider()
        finally:
            open(path, "w").write(orig)
        hit = {k: v for k, v in res.items() if suffix in k}
        flipped = sorted(k for k, v in res.items() if v != base.get(k))
        failed_hit = [k for k, v in hit.items() if v == "failed" or (v == "unknown" and "leaf-summary" in k)]
        good = bool(failed_hit) if expect == "expect-fail" else (bool(hit) and all(v == "discharged" for v in hit.values())
                                                                and not [k for k in flipped if res[k] == "failed"])
        ok_all &= good
        if verbose:
            print(f"[{i}] {'OK  ' if good else 'MISS'} {expect:11s} {suffix:60s} -> {hit} ; all flips: "
                  f"{[(k.split('::', 1)[1], res[k]) for k in flipped][:6]}")
    return ok_all


if __name__ == "__main__":
    sel = [int(x) for x in sys.argv[1:]]
    sys.exit(0 if run(sel or None) else 1)


# ---- adapter for ./check selftest (vf.selftest calls run_mutant per entry) ---------------------------------------------
_ST = {}


def run_mutant(tmp, relpath, suffix, old, new):
    import json

    here = os.path.dirname(os.path.dirname(os.path.abspath(__file__)))
    src_root = os.path.realpath(os.environ.get("VERIF_REPO", "/repo"))
    scratch = os.path.join(tmp, "c03")
    code = ("import sys, json; sys.path.insert(0, %r); import contracts.c03_frame as F; "
            "obs = F.provider(); print('##' + json.dumps({o.id: o.status for o in obs}))" % here)

    def provider():
        env = dict(os.environ, VERIF_REPO=scratch, PYTHONPATH=scratch, PYTHONWARNINGS="ignore",
                   NUMBA_CACHE_DIR=os.path.join(tmp, "numba-cache-c03"))
        r = subprocess.run([sys.executable, "-c", code], capture_output=True, text=True, env=env)
        line = [x for x in r.stdout.splitlines() if x.startswith("##")]
        if not line:
            raise RuntimeError(r.stderr[-1500:])
        return json.loads(line[-1][2:])

    if "base" not in _ST:
        shutil.rmtree(os.path.join(scratch, "quimb"), ignore_errors=True)
        shutil.copytree(os.path.join(src_root, "quimb"), os.path.join(scratch, "quimb"),
                        ignore=shutil.ignore_patterns("__pycache__", "*.pyc", "*.nbi", "*.nbc", "*.ipynb"))
        _ST["base"] = provider()
    base = _ST["base"]
    orig = open(os.path.join(src_root, relpath)).read()
    if orig.count(old) < 1:
        return "stale", "old text not found in the current source"
    path = os.path.join(scratch, relpath)
    open(path, "w").write(orig.replace(old, new, 1))
    try:
        res = provider()
    finally:
        open(path, "w").write(orig)
    hit = {k: v for k, v in res.items() if suffix in k}
    if not hit:
        return "stale", f"no obligation id contains {suffix!r}"
    failed_hit = [k for k, v in hit.items() if v == "failed" or (v == "unknown" and "leaf-summary" in k)]
    if failed_hit:
        return "failed", failed_hit[0].split("::", 1)[1][:80]
    newly_failed = [k for k, v in res.items() if v == "failed" and base.get(k) != "failed"]
    if newly_failed:
        return "failed", "(elsewhere) " + newly_failed[0].split("::", 1)[1][:80]
    if all(v == "discharged" for v in hit.values()):
        return "discharged", ""
    return "unknown", str({k: v for k, v in hit.items() if v != "discharged"})[:120]
