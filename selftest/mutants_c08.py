"""deliberate breakages of the real source that the contracts must catch (see vf/selftest.py)"""
MODULES = ['contracts.c08_mps']
MUTANTS = [
    ('quimb/tensor/tn1d/core.py', '.canonicalize', '                i = min(j, cmin)', '                i = cmin', 'expect-fail'),
    ('quimb/tensor/tn1d/core.py', '.canonicalize', '            if i > cmin:', '            if i >= cmin:', 'benign'),
    ('quimb/tensor/tn1d/core.py', '.canonicalize', '            if j < cmax:', '            if j <= cmax:', 'benign'),
    ('quimb/tensor/tn1d/core.py', '.canonicalize', '                j = max(i, cmax)', '                j = cmax', 'expect-fail'),
    ('quimb/tensor/tn1d/core.py', '.canonicalize', '        info["cur_orthog"] = (i, j)\n\n        return mps\n\n    canonicalize_', '        info["cur_orthog"] = (i, i)\n\n        return mps\n\n    canonicalize_', 'expect-fail'),
    ('quimb/tensor/tn1d/core.py', '.canonicalize', '            mps.left_canonicalize_(i, bra=bra)\n            mps.right_canonicalize_(j, bra=bra)', '            mps.left_canonicalize_(j, bra=bra)\n            mps.right_canonicalize_(i, bra=bra)', 'benign'),
    ('quimb/tensor/tn1d/core.py', '.canonicalize', '                    current=cmax, new=j, bra=bra', '                    current=cmin, new=j, bra=bra', 'expect-fail'),
    ('quimb/tensor/tn1d/core.py', '.canonicalize', '        mps = self if inplace else self.copy()\n\n        if isinstance(where, Integral):', '        mps = self\n\n        if isinstance(where, Integral):', 'expect-fail'),
    ('quimb/tensor/tn1d/core.py', '.shift_orthogonality_center', '            for i in range(current, new):', '            for i in range(current, new - 1):', 'expect-fail'),
    ('quimb/tensor/tn1d/core.py', '.shift_orthogonality_center', '            for i in range(current, new, -1):\n                self.right_canonize_site', '            for i in range(current, new, -1):\n                self.left_canonize_site', 'expect-fail'),
    ('quimb/tensor/tn1d/core.py', '.shift_orthogonality_center', '        if new > current:', '        if new < current:', 'expect-fail'),
    ('quimb/tensor/tn1d/core.py', '.left_canonicalize', '            stop = mps.L - 1', '            stop = mps.L', 'expect-fail'),
    ('quimb/tensor/tn1d/core.py', '.left_canonicalize', '        for i in range(start, stop):\n            mps.left_canonize_site', '        for i in range(start, stop):\n            self.left_canonize_site', 'expect-fail'),
    ('quimb/tensor/tn1d/core.py', '.right_canonicalize', '            start = mps.L - (0 if mps.cyclic else 1)', '            start = mps.L - (1 if mps.cyclic else 0)', 'expect-fail'),
    ('quimb/tensor/tn1d/core.py', '.left_canonize_site', '        tl, tr = self[i], self[i + 1]\n        tensor_canonize_bond(tl, tr,', '        tl, tr = self[i], self[i + 1]\n        tensor_canonize_bond(tr, tl,', 'expect-fail'),
    ('quimb/tensor/tn1d/core.py', '.calc_current_orthog_center', 'return lo, self.L - ro - 1', 'return lo, self.L - ro', 'expect-fail'),
    ('quimb/tensor/tn1d/core.py', 'parse_cur_orthog', '        info.setdefault("cur_orthog", (cur_orthog, cur_orthog))', '        info["cur_orthog"] = (cur_orthog, cur_orthog)', 'expect-fail'),
]
