"""deliberate breakages of the coordinate rotators (contracts/c12_rot.py); the first one is the seeded change C12-3"""
import os
import shutil

MODULES = ["contracts.c12_rot"]
T2 = "quimb/tensor/tn2d/core.py"
T3 = "quimb/tensor/tn3d/core.py"
MUTANTS = [
    (T3, "Rotator3D::cyclic-same-axes[zm", "            self.is_cyclic_y = tn.is_cyclic_x\n            self.is_cyclic_z = tn.is_cyclic_y",
     "            self.is_cyclic_y = tn.is_cyclic_y\n            self.is_cyclic_z = tn.is_cyclic_y", "expect-fail"),
    (T3, "Rotator3D::site-tag-same-axes[ym", "self.site_tag = lambda i, j, k: tn.site_tag(k, i, j)",
     "self.site_tag = lambda i, j, k: tn.site_tag(j, k, i)", "expect-fail"),
    (T3, "Rotator3D::tags-same-axes[zm", "            self.y_tag = tn.x_tag\n            self.z_tag = tn.y_tag",
     "            self.y_tag = tn.y_tag\n            self.z_tag = tn.x_tag", "expect-fail"),
    (T3, "Rotator3D::tags-same-axes[ym", "            self.jmin, self.jmax = sorted(zrange)\n            self.kmin, self.kmax = sorted(xrange)",
     "            self.jmin, self.jmax = sorted(xrange)\n            self.kmin, self.kmax = sorted(zrange)", "expect-fail"),
    (T3, "Rotator3D::cyclic-same-axes[", "            (self.kmin + self.kmax) // 2,\n            (self.imin + self.imax) // 2,\n            self.jmin,",
     "            (self.imin + self.imax) // 2,\n            (self.kmin + self.kmax) // 2,\n            self.jmin,", "expect-fail"),
    (T3, "Rotator3D::next-wraps-iff-cyclic[", "        if k == self.kmax:\n            if self.cyclic_z:",
     "        if k == self.kmax:\n            if self.cyclic_y:", "expect-fail"),
    (T3, "Rotator3D::sweep-from-the-side[", "self.sweep = range(self.imax, self.imin - 1, -1)", "self.sweep = range(self.imax, self.imin, -1)",
     "expect-fail"),
    (T3, "Rotator3D::axes-bijection[", "            zrange = (0, tn.Lz - 1)", "            zrange = (0, tn.Lz)", "expect-fail"),
    (T3, "Rotator3D::", "            # -> (z, x, y)", "            # -> rotated (z, x, y)", "benign"),
    (T2, "Rotator2D::cyclic-same-axes[ym", "            self.is_cyclic_x = tn.is_cyclic_y\n            self.is_cyclic_y = tn.is_cyclic_x",
     "            self.is_cyclic_x = tn.is_cyclic_x\n            self.is_cyclic_y = tn.is_cyclic_y", "expect-fail"),
    (T2, "Rotator2D::site-tag-same-axes[ym", "self.site_tag = lambda i, j: tn.site_tag(j, i)", "self.site_tag = lambda i, j: tn.site_tag(i, j)",
     "expect-fail"),
    (T2, "Rotator2D::sweep-from-the-side[", "            self.istep = -stepsize", "            self.istep = -1", "expect-fail"),
    (T2, "Rotator2D::next-wraps-iff-cyclic[", "        if j == self.jmax:\n            if self.cyclic_y:", "        if j == self.jmax:\n            if self.cyclic_x:",
     "expect-fail"),
    (T2, "Rotator2D::axes-bijection[", "            self.imin, self.imax = sorted(xrange)", "            self.imin, self.imax = xrange", "expect-fail"),
    (T2, "Rotator2D::rejects-unknown-side", 'check_opt("from_which", from_which, {"xmin", "xmax", "ymin", "ymax"})',
     'check_opt("from_which", from_which, {"xmin", "xmax", "ymin", "ymax", "zmin"})', "expect-fail"),
    (T2, "Rotator2D::", "            # -> rotate 90deg", "            # -> rotated by 90 degrees", "benign"),
]


def run_mutant(tmp, relpath, suffix, old, new):
    import contracts.c12_rot as C

    root = os.environ.get("VERIF_REPO", "/repo")
    src = open(os.path.join(root, relpath)).read()
    if src.count(old) < 1:
        return "stale", "old text not found in the current source"
    for rel in (T2, T3):
        dst = os.path.join(tmp, rel)
        os.makedirs(os.path.dirname(dst), exist_ok=True)
        s = open(os.path.join(root, rel)).read()
        open(dst, "w").write(s.replace(old, new, 1) if rel == relpath else s)
    try:
        mut = C.rotator_obligations(tmp)
    finally:
        shutil.rmtree(os.path.join(tmp, "quimb"), ignore_errors=True)
    hit = [o for o in mut if suffix in o.id]
    if not hit:
        return "stale", f"no obligation id contains {suffix!r}"
    bad = [o for o in hit if o.status == "failed"]
    if bad:
        return "failed", ", ".join(o.id.split("::", 1)[1][:50] for o in bad[:2])
    other = [o for o in hit if o.status != "discharged"]
    if other:
        return other[0].status, str(other[0].detail)[:100]
    return "discharged", ""
