"""C13 extension mutants: deliberate breakages of the local-expectation routes on a scratch copy of ONE source file;
every `expect-fail` entry must flip the NAMED provider obligation (function_suffix = substring of the obligation id
`file::function::label`) from discharged to failed; `benign` entries must leave every obligation discharged.

   ./check selftest c13x
"""
import os

MODULES = ["contracts.c13_ext"]
AG = "quimb/tensor/tnag/core.py"
T1 = "quimb/tensor/tn1d/core.py"
GV = "TensorNetworkGenVector."
MP = "MatrixProductState."
T2 = "quimb/tensor/tn2d/core.py"
P2 = "TensorNetwork2DVector."
T3 = "quimb/tensor/tn3d/core.py"

_TAIL_EXACT = "            normalized=normalized,\n            rehearse=rehearse,\n            **contract_opts,\n        )\n\n    def get_cluster("
_TAIL_CL = "                optimize=optimize,\n                normalized=normalized,\n                rehearse=rehearse,\n                **contract_opts,\n            )\n\n        return k.local_expectation_exact("
_TAIL_CLEC = "                normalized=normalized,\n                info=info,\n                **contract_opts,\n            )\n            for where, G in terms\n"

MUTANTS = [
    # ---------------------------------------------------------------- _combine_expansion_expectations
    (AG, "_combine_expansion_expectations::combine-table",
     "vals.extend((n, -C) for n, C in zip(norms, counts))", "vals.extend((n, C) for n, C in zip(norms, counts))", "expect-fail"),
    # the seeded regression: normalized='local' / 'separate' with combine='prod' left unnormalised
    (AG, "_combine_expansion_expectations::combine-table",
     "        if normalized:\n            # local and separate normalization are equivalent for prod",
     "        if normalized is True:\n            # local and separate normalization are equivalent for prod", "expect-fail"),
    (AG, "_combine_expansion_expectations::whole-network-cluster-is-ratio",
     "        if normalized:\n            # local and separate normalization are equivalent for prod",
     "        if normalized is True:\n            # local and separate normalization are equivalent for prod", "expect-fail"),
    (AG, "_combine_expansion_expectations::combine-table",
     "expec = sum(C * e / n for C, e, n in zip(counts, expecs, norms))",
     "expec = sum(e / n for C, e, n in zip(counts, expecs, norms))", "expect-fail"),
    (AG, "_combine_expansion_expectations::combine-table",
     "norm = sum(C * n for C, n in zip(counts, norms))", "norm = sum(n for C, n in zip(counts, norms))", "expect-fail"),
    (AG, "_combine_expansion_expectations::whole-network-cluster-is-ratio",
     "            expec = expec / norm\n", "            expec = expec\n", "expect-fail"),
    (AG, "_combine_expansion_expectations::combine-table",
     '        if normalized == "local":\n            expec = sum(', '        if normalized in ("local", "separate"):\n            expec = sum(',
     "expect-fail"),
    (AG, "_combine_expansion_expectations::combine-table",
     "    # now we combine the local expectations and normalizations\n", "    # (comment changed)\n", "benign"),
    # ---------------------------------------------------------------- _compute_expecs_maybe_in_parallel
    (AG, "_compute_expecs_maybe_in_parallel::each-term-once",
     "results = (fn(tn, G, where, **kwargs) for where, G in terms.items())",
     "results = (fn(tn, where, G, **kwargs) for where, G in terms.items())", "expect-fail"),
    (AG, "_compute_expecs_maybe_in_parallel::each-term-once",
     "executor.submit(fn, tn, G, where, **kwargs)", "executor.submit(fn, tn, G, where)", "expect-fail"),
    (AG, "_compute_expecs_maybe_in_parallel::return-form",
     'if return_all or kwargs.get("rehearse", False):', 'if return_all and kwargs.get("rehearse", False):', "expect-fail"),
    (AG, "_compute_expecs_maybe_in_parallel::return-form",
     "return functools.reduce(add, expecs.values())", "return functools.reduce(mul, expecs.values())", "expect-fail"),
    (AG, "_compute_expecs_maybe_in_parallel::return-form",
     "expecs = dict(zip(terms.keys(), results))", "expecs = dict(zip(reversed(list(terms.keys())), results))", "expect-fail"),
    (AG, "_compute_expecs_maybe_in_parallel::each-term-once",
     "        if hasattr(executor, \"scatter\"):\n            tn = executor.scatter(tn)\n",
     "        if hasattr(executor, \"scatter\"):\n            executor.scatter(tn)\n", "expect-fail"),
    (AG, "_compute_expecs_maybe_in_parallel::return-form",
     "    if not isinstance(terms, dict):\n        terms = dict(terms.items())", "    terms = dict(terms.items())", "benign"),
    # ---------------------------------------------------------------- trampolines
    (AG, "_tn_local_expectation_cluster::forwards", "return tn.local_expectation_cluster(*args, **kwargs)",
     "return tn.local_expectation_exact(*args, **kwargs)", "expect-fail"),
    (AG, "_tn_local_expectation_cluster::forwards", "return tn.local_expectation_cluster(*args, **kwargs)",
     "return tn.local_expectation_cluster(*args)", "expect-fail"),
    (AG, "_tn_local_expectation_cluster::forwards", "return tn.local_expectation_cluster(*args, **kwargs)",
     "return tn.local_expectation_cluster(*reversed(args), **kwargs)", "expect-fail"),
    (AG, "_tn_local_expectation_exact::forwards", "return tn.local_expectation_exact(*args, **kwargs)",
     "return tn.local_expectation_cluster(*args, **kwargs)", "expect-fail"),
    (AG, "_tn_local_expectation_exact::forwards", "return tn.local_expectation_exact(*args, **kwargs)",
     "return tn.local_expectation_exact(*args[:2])", "expect-fail"),
    (AG, "_tn_local_expectation_exact::forwards", "return tn.local_expectation_exact(*args, **kwargs)",
     "return tn.local_expectation_exact(*args, **dict(kwargs, normalized=True))", "expect-fail"),
    (AG, "_tn_local_expectation::forwards", "return tn.local_expectation(*args, **kwargs)",
     "return tn.local_expectation_exact(*args, **kwargs)", "expect-fail"),
    (AG, "_tn_local_expectation_sloop_expand::forwards", "return tn.local_expectation_sloop_expand(*args, **kwargs)",
     "return tn.local_expectation_gloop_expand(*args, **kwargs)", "expect-fail"),
    (AG, "_tn_local_expectation_gloop_expand::forwards", "return tn.local_expectation_gloop_expand(*args, **kwargs)",
     "return tn.local_expectation_sloop_expand(*args, **kwargs)", "expect-fail"),
    # ---------------------------------------------------------------- compute_* wrappers (arbitrary geometry)
    (AG, GV + "compute_local_expectation_exact::every-option", _TAIL_EXACT,
     _TAIL_EXACT.replace("            normalized=normalized,\n", ""), "expect-fail"),
    (AG, GV + "compute_local_expectation_exact::every-option", _TAIL_EXACT,
     _TAIL_EXACT.replace("normalized=normalized", "normalized=True"), "expect-fail"),
    (AG, GV + "compute_local_expectation_exact::every-option", "fn=_tn_local_expectation_exact,",
     "fn=_tn_local_expectation_cluster,", "expect-fail"),
    (AG, GV + "compute_local_expectation_exact::every-option", _TAIL_EXACT,
     _TAIL_EXACT.replace("            **contract_opts,\n", ""), "expect-fail"),
    (AG, GV + "compute_local_expectation_cluster::every-option",
     "            rehearse=rehearse,\n            max_bond=max_bond,\n            **contract_opts,",
     "            rehearse=rehearse,\n            **contract_opts,", "expect-fail"),
    (AG, GV + "compute_local_expectation_cluster::every-option",
     "            fillin=fillin,\n            grow_from=grow_from,\n            gauges=gauges,\n            optimize=optimize,\n            rehearse=rehearse,\n            max_bond=max_bond,",
     "            fillin=grow_from,\n            grow_from=fillin,\n            gauges=gauges,\n            optimize=optimize,\n            rehearse=rehearse,\n            max_bond=max_bond,",
     "expect-fail"),
    (AG, GV + "compute_local_expectation_cluster::every-option", "fn=_tn_local_expectation_cluster,",
     "fn=_tn_local_expectation_exact,", "expect-fail"),
    (AG, GV + "compute_local_expectation::every-option",
     "            reduce=reduce,\n            flatten=flatten,\n            rehearse=rehearse,\n            **contract_compressed_opts,",
     "            reduce=reduce,\n            rehearse=rehearse,\n            **contract_compressed_opts,", "expect-fail"),
    (AG, GV + "compute_local_expectation::every-option",
     "            symmetrized=symmetrized,\n            reduce=reduce,\n            flatten=flatten,",
     "            symmetrized=True,\n            reduce=reduce,\n            flatten=flatten,", "expect-fail"),
    (AG, GV + "compute_local_expectation::every-option",
     "            reduce=reduce,\n            flatten=flatten,\n            rehearse=rehearse,\n            **contract_compressed_opts,",
     "            reduce=reduce,\n            flatten=flatten,\n            rehearse=rehearse,", "expect-fail"),
    (AG, GV + "compute_local_expectation_sloop_expand::every-option",
     "            combine=combine,\n            normalized=normalized,\n            info=info,\n            return_all=return_all,",
     "            combine=combine,\n            normalized=True,\n            info=info,\n            return_all=return_all,", "expect-fail"),
    (AG, GV + "compute_local_expectation_sloop_expand::loops-generated-once",
     "if (sloops is None) or isinstance(sloops, int):\n            sloops = tuple(", "if sloops is None:\n            sloops = tuple(",
     "expect-fail"),
    (AG, GV + "compute_local_expectation_sloop_expand::loops-generated-once",
     "                    num_joins=num_joins,\n                    intersect=intersect,\n                )\n            )",
     "                    num_joins=num_joins,\n                )\n            )", "expect-fail"),
    (AG, GV + "compute_local_expectation_sloop_expand::every-option",
     "            combine=combine,\n            normalized=normalized,\n            info=info,\n            return_all=return_all,",
     "            normalized=normalized,\n            info=info,\n            return_all=return_all,", "expect-fail"),
    (AG, GV + "compute_local_expectation_gloop_expand::global-norm",
     "            normalized = False\n        else:\n            tn = self", "            normalized = True\n        else:\n            tn = self",
     "expect-fail"),
    (AG, GV + "compute_local_expectation_gloop_expand::global-norm", "            tn = self / nfactor\n",
     "            tn = self.copy()\n", "expect-fail"),
    (AG, GV + "compute_local_expectation_gloop_expand::global-norm",
     "fn=_tn_local_expectation_gloop_expand,\n            tn=tn,", "fn=_tn_local_expectation_gloop_expand,\n            tn=self,",
     "expect-fail"),
    (AG, GV + "compute_local_expectation_gloop_expand::every-option",
     "            gloops=gloops,\n            combine=combine,\n            normalized=normalized,\n            gauges=gauges,\n            autocomplete=autocomplete,",
     "            gloops=gloops,\n            normalized=normalized,\n            gauges=gauges,\n            autocomplete=autocomplete,",
     "expect-fail"),
    # ---------------------------------------------------------------- local_expectation_cluster
    (AG, GV + "local_expectation_cluster::route-by-max-bond",
     "        if max_bond is not None:\n            return k.local_expectation(", "        if max_bond is None:\n            return k.local_expectation(",
     "expect-fail"),
    (AG, GV + "local_expectation_cluster::cluster-selection",
     "            smudge=smudge,\n            power=power,\n        )\n\n        if max_bond is not None:",
     "            smudge=smudge,\n        )\n\n        if max_bond is not None:", "expect-fail"),
    (AG, GV + "local_expectation_cluster::route-by-max-bond", _TAIL_CL,
     _TAIL_CL.replace("normalized=normalized", "normalized=True"), "expect-fail"),
    (AG, GV + "local_expectation_cluster::route-by-max-bond",
     "        return k.local_expectation_exact(\n            G=G,\n            where=where,\n            optimize=optimize,\n            normalized=normalized,",
     "        return k.local_expectation_exact(\n            G=G,\n            where=where,\n            optimize=optimize,\n            normalized=bool(normalized),",
     "expect-fail"),
    (AG, GV + "local_expectation_cluster::route-by-max-bond",
     "        return k.local_expectation_exact(\n            G=G,", "        return self.local_expectation_exact(\n            G=G,",
     "expect-fail"),
    # ---------------------------------------------------------------- local_expectation (compressed contraction route)
    (AG, GV + "local_expectation::trace-rho-G", "axes=((0, 1), (1, 0))", "axes=((0, 1), (0, 1))", "expect-fail"),
    (AG, GV + "local_expectation::trace-rho-G", "axes=((0, 1), (1, 0))", "axes=((1, 0), (0, 1))", "benign"),
    (AG, GV + "local_expectation::trace-rho-G",
     '        if rehearse:\n            return rho\n\n        return do("tensordot"',
     '        if rehearse is True:\n            return rho\n\n        return do("tensordot"', "expect-fail"),
    (AG, GV + "local_expectation::options-reach-partial-trace",
     "            keep=where,\n            max_bond=max_bond,\n            optimize=optimize,\n            flatten=flatten,\n            reduce=reduce,\n            normalized=normalized,",
     "            keep=where,\n            max_bond=max_bond,\n            optimize=optimize,\n            flatten=flatten,\n            reduce=reduce,\n            normalized=True,",
     "expect-fail"),
    (AG, GV + "local_expectation::options-reach-partial-trace",
     "            keep=where,\n            max_bond=max_bond,\n            optimize=optimize,\n            flatten=flatten,\n            reduce=reduce,\n            normalized=normalized,",
     "            keep=where,\n            max_bond=max_bond,\n            optimize=optimize,\n            flatten=reduce,\n            reduce=flatten,\n            normalized=normalized,",
     "expect-fail"),
    # ---------------------------------------------------------------- MPS.partial_trace_to_dense_canonical
    (T1, MP + "partial_trace_to_dense_canonical::canonical-centre", "k = self[min(where) : max(where) + 1]",
     "k = self[min(where) : max(where)]", "expect-fail"),
    (T1, MP + "partial_trace_to_dense_canonical::canonical-centre", "self.canonicalize_(where, info=info)",
     "self.canonicalize_(where)", "expect-fail"),
    (T1, MP + "partial_trace_to_dense_canonical::canonical-centre", "        k.exponent = self.exponent\n", "", "expect-fail"),
    (T1, MP + "partial_trace_to_dense_canonical::rows-ket", "rho = rho_tn.to_dense(kix, bix, **contract_opts)",
     "rho = rho_tn.to_dense(bix, kix, **contract_opts)", "expect-fail"),
    (T1, MP + "partial_trace_to_dense_canonical::rows-ket", "kix = [self.site_ind(i) for i in where]",
     "kix = [self.site_ind(i) for i in sorted(where)]", "expect-fail"),
    (T1, MP + "partial_trace_to_dense_canonical::rows-ket", "b = k.reindex(dict(zip(kix, bix))).conj_()",
     "b = k.reindex(dict(zip(kix, bix))); k.conj_()", "expect-fail"),
    (T1, MP + "partial_trace_to_dense_canonical::normalised-exactly-once",
     '            rho = rho / do("trace", rho)\n\n        return rho\n\n    def local_expectation_canonical',
     '            rho = rho / do("trace", rho) / do("trace", rho)\n\n        return rho\n\n    def local_expectation_canonical',
     "expect-fail"),
    (T1, MP + "partial_trace_to_dense_canonical::normalised-exactly-once",
     "        if normalized:\n            # locally normalize, usually unnecessary for an MPS but cheap",
     "        if not normalized:\n            # locally normalize, usually unnecessary for an MPS but cheap", "expect-fail"),
    (T1, MP + "partial_trace_to_dense_canonical::rows-ket", "        # contract down to a matrix\n", "        # (comment changed)\n",
     "benign"),
    # ---------------------------------------------------------------- MPS.local_expectation_canonical
    (T1, MP + "local_expectation_canonical::trace-G-rho", 'return do("trace", G @ rho)', 'return do("trace", G @ rho.T)', "expect-fail"),
    (T1, MP + "local_expectation_canonical::trace-G-rho", 'return do("trace", G @ rho)', 'return do("trace", rho @ G)', "benign"),
    (T1, MP + "local_expectation_canonical::trace-G-rho",
     "            where, normalized=normalized, info=info, **contract_opts\n        )\n        return do(",
     "            where, normalized=True, info=info, **contract_opts\n        )\n        return do(", "expect-fail"),
    (T1, MP + "local_expectation_canonical::trace-G-rho",
     "            where, normalized=normalized, info=info, **contract_opts\n        )\n        return do(",
     "            where, normalized=normalized, **contract_opts\n        )\n        return do(", "expect-fail"),
    # ---------------------------------------------------------------- MPS.compute_local_expectation_canonical
    # the seeded regression: the caller's record is updated for a COPY
    (T1, MP + "compute_local_expectation_canonical::record-describes",
     "            mps = self.copy()\n            info = info.copy()\n", "            mps = self.copy()\n", "expect-fail"),
    (T1, MP + "compute_local_expectation_canonical::record-describes",
     "        if inplace:\n            mps = self\n        else:\n            mps = self.copy()",
     "        if not inplace:\n            mps = self\n        else:\n            mps = self.copy()", "expect-fail"),
    (T1, MP + "compute_local_expectation_canonical::record-describes", _TAIL_CLEC,
     _TAIL_CLEC.replace("info=info", "info=None"), "expect-fail"),
    (T1, MP + "compute_local_expectation_canonical::record-describes", _TAIL_CLEC,
     _TAIL_CLEC.replace("info=info", "info=dict(info)"), "expect-fail"),
    (T1, MP + "compute_local_expectation_canonical::record-starts-from-callers",
     "            mps = self.copy()\n            info = info.copy()\n", "            mps = self.copy()\n            info = {}\n",
     "expect-fail"),
    (T1, MP + "compute_local_expectation_canonical::each-term-once", _TAIL_CLEC,
     _TAIL_CLEC.replace("normalized=normalized", "normalized=True"), "expect-fail"),
    (T1, MP + "compute_local_expectation_canonical::each-term-once", _TAIL_CLEC,
     _TAIL_CLEC.replace("for where, G in terms\n", "for where, G in terms[1:]\n"), "expect-fail"),
    (T1, MP + "compute_local_expectation_canonical::return-form",
     "        if return_all:\n            return expecs\n\n        return functools.reduce(operator.add, expecs.values())\n\n    def compute_local_expectation_via_envs",
     "        if not return_all:\n            return expecs\n\n        return functools.reduce(operator.add, expecs.values())\n\n    def compute_local_expectation_via_envs",
     "expect-fail"),
    (T1, MP + "compute_local_expectation_canonical::return-form",
     "            # sort by the smallest site so we sweep in one direction\n            terms = sorted(terms.items(), key=sitemin)",
     "            # sort by the smallest site so we sweep in one direction\n            terms = sorted(terms.items(), key=sitemin, reverse=True)",
     "benign"),
    # ---------------------------------------------------------------- MPS.compute_local_expectation (method table)
    (T1, MP + "compute_local_expectation::method-table",
     "                info=info,\n                inplace=inplace,\n                **contract_opts,\n            )\n        elif method == \"envs\":",
     "                info=info,\n                **contract_opts,\n            )\n        elif method == \"envs\":", "expect-fail"),
    (T1, MP + "compute_local_expectation::method-table",
     "        elif method == \"envs\":\n            return self.compute_local_expectation_via_envs(",
     "        elif method == \"envs\":\n            return self.compute_local_expectation_canonical(", "expect-fail"),
    (T1, MP + "compute_local_expectation::method-table",
     "        if method == \"canonical\":\n            return self.compute_local_expectation_canonical(",
     "        if method != \"envs\":\n            return self.compute_local_expectation_canonical(", "expect-fail"),
    (T1, MP + "compute_local_expectation::method-table",
     "                return_all=return_all,\n                **contract_opts,\n            )\n        else:\n            raise ValueError(\n                f\"Unrecognized method",
     "                return_all=True,\n                **contract_opts,\n            )\n        else:\n            raise ValueError(\n                f\"Unrecognized method",
     "expect-fail"),
    # ---------------------------------------------------------------- 2D compute_local_expectation (plaquette environments)
    (T2, P2 + "compute_local_expectation::plaquette-covers",
     "ket_local.gate(G, where, contract=False) | bra_and_env", "ket_local.gate(G, tuple(sorted(where)), contract=False) | bra_and_env",
     "expect-fail"),
    (T2, P2 + "compute_local_expectation::plaquette-covers",
     "                p = plaquette_map[tuple(sorted(where))]\n", "                where = tuple(sorted(where))\n                p = plaquette_map[where]\n",
     "expect-fail"),
    (T2, P2 + "compute_local_expectation::plaquette-covers",
     "sites = tuple(map(ket.site_tag, plaquette_to_sites(p)))", "sites = tuple(map(ket.site_tag, plaquette_to_sites(p)[:1]))", "expect-fail"),
    (T2, P2 + "compute_local_expectation::plaquette-covers",
     "bra_and_env = bra.select_any(sites) | plaquette_envs[p]", "bra_and_env = bra.select_any(sites) | plaquette_envs[min(plaquette_envs)]",
     "expect-fail"),
    (T2, P2 + "compute_local_expectation::plaquette-covers",
     "norm, ket, bra = self.make_norm(return_all=True)\n\n        if plaquette_envs is None:",
     "norm, bra, ket = self.make_norm(return_all=True)\n\n        if plaquette_envs is None:", "expect-fail"),
    (T2, P2 + "compute_local_expectation::numerator-denominator",
     "                norm_i0j0 = (ket_local | bra_and_env).contract(",
     "                norm_i0j0 = (ket_local | (bra.select_any(sites) | plaquette_envs[min(plaquette_envs)])).contract(", "expect-fail"),
    (T2, P2 + "compute_local_expectation::numerator-denominator",
     "            if normalized:\n                norm_i0j0 = (", "            if not normalized:\n                norm_i0j0 = (", "expect-fail"),
    (T2, P2 + "compute_local_expectation::numerator-denominator",
     "                norm_i0j0 = (ket_local | bra_and_env).contract(", "                norm_i0j0 = (bra_and_env | ket_local).contract(",
     "benign"),   # a | b = b | a
    (T2, P2 + "compute_local_expectation::summed-forms",
     "return functools.reduce(add, (e / n for e, n in expecs.values()))", "return functools.reduce(add, (e for e, n in expecs.values()))",
     "expect-fail"),
    (T2, P2 + "compute_local_expectation::summed-forms",
     "return functools.reduce(add, (e / n for e, n in expecs.values()))",
     "return functools.reduce(add, (e / list(expecs.values())[0][1] for e, n in expecs.values()))", "expect-fail"),
    (T2, P2 + "compute_local_expectation::summed-forms",
     "return functools.reduce(add, (e for e, _ in expecs.values()))", "return functools.reduce(add, (e for e, _ in list(expecs.values())[:1]))",
     "expect-fail"),
    (T2, P2 + "compute_local_expectation::environment-options",
     '            plaquette_env_options["cutoff"] = cutoff\n            plaquette_env_options["canonize"] = canonize\n            plaquette_env_options["mode"] = mode\n            plaquette_env_options["layer_tags"] = layer_tags\n\n            plaquette_envs = dict()',
     '            plaquette_env_options["cutoff"] = 0.0\n            plaquette_env_options["canonize"] = canonize\n            plaquette_env_options["mode"] = mode\n            plaquette_env_options["layer_tags"] = layer_tags\n\n            plaquette_envs = dict()',
     "expect-fail"),
    (T2, P2 + "compute_local_expectation::environment-options",
     '            plaquette_env_options["max_bond"] = max_bond\n            plaquette_env_options["cutoff"] = cutoff\n            plaquette_env_options["canonize"] = canonize\n            plaquette_env_options["mode"] = mode\n            plaquette_env_options["layer_tags"] = layer_tags\n\n            plaquette_envs = dict()',
     '            plaquette_env_options["cutoff"] = cutoff\n            plaquette_env_options["canonize"] = canonize\n            plaquette_env_options["mode"] = mode\n            plaquette_env_options["layer_tags"] = layer_tags\n\n            plaquette_envs = dict()',
     "expect-fail"),
    (T2, P2 + "compute_local_expectation::summed-forms",
     "        expecs = dict()\n        for p in plaq2coo:", "        expecs = {}\n        for p in plaq2coo:", "benign"),
    # ---------------------------------------------------------------- 3D PEPS3D.compute_local_expectation
    (T3, "PEPS3D.compute_local_expectation::trace-G-rho", 'do("tensordot", G, rho, ((0, 1), (1, 0)))',
     'do("tensordot", G, rho, ((0, 1), (0, 1)))', "expect-fail"),
    (T3, "PEPS3D.compute_local_expectation::trace-G-rho", 'do("tensordot", G, rho, ((0, 1), (1, 0)))',
     'do("tensordot", G, rho, ((1, 0), (0, 1)))', "benign"),
    (T3, "PEPS3D.compute_local_expectation::trace-G-rho",
     'expecs[where] = do("tensordot", G, rho, ((0, 1), (1, 0)))\n\n        if return_all:',
     'expecs[where] = do("tensordot", G, rho, ((0, 1), (1, 0)))\n\n        if not return_all:', "expect-fail"),
    (T3, "PEPS3D.compute_local_expectation::options-reach",
     "                normalized=normalized,\n                envs=envs,\n                storage_factory=storage_factory,\n                **contract_boundary_opts,\n            )\n            expecs[where]",
     "                normalized=True,\n                envs=envs,\n                storage_factory=storage_factory,\n                **contract_boundary_opts,\n            )\n            expecs[where]",
     "expect-fail"),
    (T3, "PEPS3D.compute_local_expectation::options-reach",
     "                normalized=normalized,\n                envs=envs,\n                storage_factory=storage_factory,\n                **contract_boundary_opts,\n            )\n            expecs[where]",
     "                normalized=normalized,\n                envs={},\n                storage_factory=storage_factory,\n                **contract_boundary_opts,\n            )\n            expecs[where]",
     "expect-fail"),
    (T3, "PEPS3D.compute_local_expectation::options-reach",
     "                flatten=flatten,\n                symmetrized=symmetrized,\n                normalized=normalized,\n                envs=envs,\n                storage_factory=storage_factory,\n                **contract_boundary_opts,\n            )\n            expecs[where]",
     "                flatten=flatten,\n                normalized=normalized,\n                envs=envs,\n                storage_factory=storage_factory,\n                **contract_boundary_opts,\n            )\n            expecs[where]",
     "expect-fail"),
    # ---------------------------------------------------------------- MPS.compute_local_expectation_via_envs
    (T1, MP + "compute_local_expectation_via_envs::operator-on-ket", "k.gate_(G, where, contract=False)", "b.gate_(G, where, contract=False)", "expect-fail"),
    (T1, MP + "compute_local_expectation_via_envs::operator-on-ket", "k.gate_(G, where, contract=False)", "k.gate_(G, tuple(sorted(where)) if not isinstance(where, Integral) else where, contract=False)",
     "expect-fail"),
    (T1, MP + "compute_local_expectation_via_envs::operator-on-ket", "tags = [ket.site_tag(i) for i in range(sitemin, sitemax + 1)]",
     "tags = [ket.site_tag(i) for i in range(sitemin, sitemax)]", "expect-fail"),
    (T1, MP + "compute_local_expectation_via_envs::operator-on-ket", "k = ket.select_any(tags, virtual=False)", "k = ket.select_any(tags, virtual=True)", "expect-fail"),
    (T1, MP + "compute_local_expectation_via_envs::environments-complete", "                tn_local_overlap |= right_envs[sitemax]", "                tn_local_overlap |= right_envs[sitemin]",
     "expect-fail"),
    (T1, MP + "compute_local_expectation_via_envs::environments-complete", "            if sitemin in left_envs:\n                tn_local_overlap |= left_envs[sitemin]\n", "",
     "expect-fail"),
    (T1, MP + "compute_local_expectation_via_envs::environments-complete", "            if sitemin in left_envs:\n                tn_local_overlap |= left_envs[sitemin]\n",
     "            if sitemin in left_envs:\n                tn_local_overlap |= left_envs[sitemin]\n                tn_local_overlap |= left_envs[sitemin]\n",
     "expect-fail"),
    (T1, MP + "compute_local_expectation_via_envs::normalised-once", "                x = x / nfactor\n", "                x = x / nfactor / nfactor\n", "expect-fail"),
    (T1, MP + "compute_local_expectation_via_envs::normalised-once", "                tn_norm = tn_norm | right_envs[0]", "                tn_norm = tn_norm | right_envs[1]", "expect-fail"),
    (T1, MP + "compute_local_expectation_via_envs::normalised-once",
     "            expecs[where] = x\n\n        if return_all:\n            return expecs\n\n        return functools.reduce(operator.add, expecs.values())",
     "            expecs[where] = x\n\n        if return_all:\n            return expecs\n\n        return functools.reduce(operator.mul, expecs.values())",
     "expect-fail"),
    (T1, MP + "compute_local_expectation_via_envs::operator-on-ket", "            tn_local_overlap = k | b\n", "            tn_local_overlap = b | k\n", "benign"),
]


def run_mutant(tmp, relpath, suffix, old, new):
    import contracts.c13_ext as X
    import vf.pyvc as P

    orig = open(os.path.join(P.REPO, relpath)).read()
    if orig.count(old) < 1:
        return "stale", "old text not found in the current source"
    root = os.path.join(tmp, "c13x")
    dst = os.path.join(root, relpath)
    os.makedirs(os.path.dirname(dst), exist_ok=True)
    open(dst, "w").write(orig.replace(old, new, 1))
    X.ROOT = root
    X._TREES.clear()
    try:
        res = {o.id: (o.status, o.model) for o in X.provider() + X.provider_2d() + X.provider_3d() + X.provider_1d_envs()}
    finally:
        X.ROOT = None
        X._TREES.clear()
        os.remove(dst)
    hit = {k: v for k, v in res.items() if suffix in k}
    if not hit:
        return "stale", f"no obligation id contains {suffix!r}"
    failed_hit = [k for k, v in hit.items() if v[0] == "failed"]
    if failed_hit:
        return "failed", failed_hit[0].split("::", 1)[1][:90]
    other = [k for k, v in res.items() if v[0] != "discharged"]
    if other:
        return "unknown", "named obligation discharged; elsewhere: " + other[0].split("::", 1)[1][:80]
    return "discharged", ""
