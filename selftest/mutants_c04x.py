"""C04 extension mutants: deliberate breakages of quimb/tensor/tensor_core.py on a scratch copy; each must flip a NAMED
provider obligation of contracts.c04_ext (suffix = substring of the obligation id) to failed; benign edits stay discharged.

   ./check selftest c04x
"""
import os

MODULES = ["contracts.c04_ext"]
TC = "quimb/tensor/tensor_core.py"

MUTANTS = [
    # ---------------------------------------------------------------- full_simplify
    (TC, "full_simplify::outer-protected[D]",
     "                    tn.diagonal_reduce_(\n                        output_inds=ix_o, atol=atol, cache=cache\n",
     "                    tn.diagonal_reduce_(\n                        atol=atol, cache=cache\n", "expect-fail"),
    (TC, "full_simplify::outer-protected[C]",
     "tn.column_reduce_(output_inds=ix_o, atol=atol, cache=cache)",
     "tn.column_reduce_(output_inds=set(), atol=atol, cache=cache)", "expect-fail"),
    (TC, "full_simplify::dispatch[A]",
     "                elif meth == \"A\":\n                    tn.antidiag_gauge_(",
     "                elif meth == \"A\":\n                    tn.diagonal_reduce_(", "expect-fail"),
    (TC, "full_simplify::atol-threaded[A]",
     "                    tn.antidiag_gauge_(\n                        output_inds=ix_o, atol=atol, cache=cache",
     "                    tn.antidiag_gauge_(\n                        output_inds=ix_o, cache=cache", "expect-fail"),
    (TC, "full_simplify::atol-threaded[L]",
     "                    tn.loop_simplify_(\n                        output_inds=ix_o,\n                        cutoff=atol,",
     "                    tn.loop_simplify_(\n                        output_inds=ix_o,\n                        cutoff=1e-12,",
     "expect-fail"),
    (TC, "full_simplify::norms-threaded[S]",
     "                    tn.split_simplify_(\n                        atol=atol,\n                        cache=cache,\n                        equalize_norms=equalize_norms,",
     "                    tn.split_simplify_(\n                        atol=atol,\n                        cache=cache,\n                        equalize_norms=False,",
     "expect-fail"),
    (TC, "full_simplify::norms-threaded[R]",
     "            check_zero = bool(set(seq) - {\"R\"})", "            check_zero = bool(set(seq) - {\"D\"})", "expect-fail"),
    (TC, "full_simplify::cache-shared[C]",
     "tn.column_reduce_(output_inds=ix_o, atol=atol, cache=cache)",
     "tn.column_reduce_(output_inds=ix_o, atol=atol, cache=None)", "expect-fail"),
    (TC, "full_simplify::squeeze-keeps-outer[R]",
     "        tn.squeeze_(exclude=output_inds)\n\n        if cache is None:",
     "        tn.squeeze_()\n\n        if cache is None:", "expect-fail"),
    (TC, "full_simplify::final-equalize[D]",
     "            if equalize_norms is True:\n                # this also redistributes the collected exponents\n                value = None\n            else:\n                value = equalize_norms\n",
     "            if equalize_norms is True:\n                # this also redistributes the collected exponents\n                value = 1.0\n            else:\n                value = equalize_norms\n",
     "expect-fail"),
    (TC, "full_simplify::receiver-untouched[A]",
     "        tn.squeeze_(exclude=output_inds)\n\n        if cache is None:",
     "        self.squeeze_(exclude=output_inds)\n\n        if cache is None:", "expect-fail"),
    (TC, "full_simplify::unknown-pass-raises",
     "                    raise ValueError(f\"'{meth}' is not a valid simplify type.\")",
     "                    pass", "expect-fail"),
    (TC, "full_simplify::order-kept-until-stable",
     "        while (nt, ni) != (old_nt, old_ni):\n            for meth in seq:\n                if progbar:\n                    pbar.update()",
     "        while nt < old_nt or old_nt == -1:\n            for meth in sorted(seq):\n                if progbar:\n                    pbar.update()",
     "expect-fail"),
    (TC, "full_simplify::custom-pass-gets-outer-atol-cache",
     "                        tn, output_inds=output_inds, atol=atol, cache=cache\n",
     "                        tn, output_inds=(), atol=atol, cache=cache\n", "expect-fail"),
    (TC, "full_simplify::",
     "        # keep simplifying until the number of tensors and indices equalizes\n",
     "        # keep simplifying until nothing changes\n", "benign"),
    # ---------------------------------------------------------------- tensor_fuse_squeeze
    (TC, "tensor_fuse_squeeze::gauge-weight-absorbed",     # the seeded regression: the weight is dropped
     "            s0_1_2 = gauges.pop(bond_ind).item() ** 0.5\n            t1 *= s0_1_2\n            t2 *= s0_1_2\n",
     "            gauges.pop(bond_ind)\n", "expect-fail"),
    (TC, "tensor_fuse_squeeze::gauge-weight-absorbed",     # absorbed twice
     "            s0_1_2 = gauges.pop(bond_ind).item() ** 0.5\n",
     "            s0_1_2 = gauges.pop(bond_ind).item()\n", "expect-fail"),
    (TC, "tensor_fuse_squeeze::gauge-weight-absorbed",     # absorbed but left in the dict (absorbed again later)
     "            s0_1_2 = gauges.pop(bond_ind).item() ** 0.5\n",
     "            s0_1_2 = gauges[bond_ind].item() ** 0.5\n", "expect-fail"),
    (TC, "tensor_fuse_squeeze::squeezed-iff-size1",
     "        t1.squeeze_(include=(bond_ind,))\n        t2.squeeze_(include=(bond_ind,))\n\n        if gauges is not None:",
     "        t1.squeeze_(include=(bond_ind,))\n        t2.squeeze_()\n\n        if gauges is not None:", "expect-fail"),
    (TC, "tensor_fuse_squeeze::single-bond-call",
     "    _, bond_ind, _ = tensor_make_single_bond(\n        t1,\n        t2,\n        gauges=gauges,\n        bond_ind=bond_ind,\n    )\n\n    if squeeze and t1.ind_size(bond_ind) == 1:",
     "    _, bond_ind, _ = tensor_make_single_bond(\n        t1,\n        t2,\n        bond_ind=bond_ind,\n    )\n\n    if squeeze and t1.ind_size(bond_ind) == 1:",
     "expect-fail"),
    (TC, "tensor_fuse_squeeze::",
     "            s0_1_2 = gauges.pop(bond_ind).item() ** 0.5\n            t1 *= s0_1_2\n            t2 *= s0_1_2\n",
     "            s0_1_2 = gauges.pop(bond_ind).item() ** 0.5\n            t2 *= s0_1_2\n            t1 *= s0_1_2\n", "benign"),
    # ---------------------------------------------------------------- TensorNetwork.squeeze
    (TC, "TensorNetwork.squeeze::exclude-threaded",
     "        for t in tn:\n            t.squeeze_(include=include, exclude=exclude)",
     "        for t in tn:\n            t.squeeze_(include=include)", "expect-fail"),
    (TC, "TensorNetwork.squeeze::exclude-threaded",
     "            tn.fuse_multibonds_(include=include, exclude=exclude)",
     "            tn.fuse_multibonds_(include=include)", "expect-fail"),
    (TC, "TensorNetwork.squeeze::include-threaded",
     "                include = [ix for ix in include if ix in tn.ind_map]",
     "                include = None", "expect-fail"),
    (TC, "TensorNetwork.squeeze::receiver-untouched",
     "        for t in tn:\n            t.squeeze_(include=include, exclude=exclude)",
     "        for t in self:\n            t.squeeze_(include=include, exclude=exclude)", "expect-fail"),
    # ---------------------------------------------------------------- compress_all*
    (TC, "compress_all::options-reach",
     "                tid2,\n                max_bond=max_bond,\n                cutoff=cutoff,\n                mode=mode,",
     "                tid2,\n                max_bond=max_bond,\n                mode=mode,", "expect-fail"),
    (TC, "compress_all::options-reach",
     "        tn.fuse_multibonds_()\n        for ix in tuple(tn.ind_map):",
     "        tn.fuse_multibonds_()\n        max_bond = None\n        for ix in tuple(tn.ind_map):",
     "expect-fail"),
    (TC, "compress_all::options-reach",
     "                canonize_after_distance=canonize_after_distance,\n                **compress_opts,\n            )\n\n        return tn\n\n    compress_all_ =",
     "                canonize_after_distance=canonize_after_distance,\n            )\n\n        return tn\n\n    compress_all_ =",
     "expect-fail"),
    (TC, "compress_all_1d::options-reach",
     "                tidb,\n                tida,\n                max_bond=max_bond,\n                cutoff=cutoff,",
     "                tidb,\n                tida,\n                max_bond=max_bond,\n                cutoff=0.0,", "expect-fail"),
    (TC, "compress_all_tree::options-reach",
     "                absorb=\"right\",\n                canonize_distance=float(\"inf\"),",
     "                absorb=\"both\",\n                canonize_distance=float(\"inf\"),", "expect-fail"),
    (TC, "choose_local_compress_gauge_settings::explicit-passes-through",
     "    if canonize_distance is None:\n        # default to the tree gauge distance\n        canonize_distance = tree_gauge_distance",
     "    if not canonize_distance:\n        # default to the tree gauge distance\n        canonize_distance = tree_gauge_distance",
     "expect-fail"),
    (TC, "choose_local_compress_gauge_settings::defaults-resolved",
     "            # default to r=3 gauge\n            tree_gauge_distance = 3", "            # default to r=3 gauge\n            tree_gauge_distance = 1",
     "expect-fail"),
    # ---------------------------------------------------------------- tensor_multifuse / tensor_make_single_bond
    (TC, "tensor_multifuse::fused-gauge-aligned-with-fused-legs",      # THE swap: kron(y, x) against first-index-major legs
     'gauges[bond_ind] = functools.reduce(lambda x, y: do("kron", x, y), gs)',
     'gauges[bond_ind] = functools.reduce(lambda x, y: do("kron", y, x), gs)', "expect-fail"),
    (TC, "tensor_make_single_bond::fused-gauge-aligned-with-fused-legs",   # the same swap seen through the caller
     'gauges[bond_ind] = functools.reduce(lambda x, y: do("kron", x, y), gs)',
     'gauges[bond_ind] = functools.reduce(lambda x, y: do("kron", y, x), gs)', "expect-fail"),
    (TC, "tensor_multifuse::fused-gauge-aligned-with-fused-legs",      # a gauge dropped from the product
     'gauges[bond_ind] = functools.reduce(lambda x, y: do("kron", x, y), gs)',
     'gauges[bond_ind] = functools.reduce(lambda x, y: do("kron", x, do("ones_like", y)), gs)', "expect-fail"),
    (TC, "tensor_multifuse::gauges-old-removed-new-added",             # wrong pop: the old bond entries stay behind
     "            gauges.pop(ix)\n            if ix in gauges\n",
     "            gauges[ix]\n            if ix in gauges\n", "expect-fail"),
    (TC, "tensor_multifuse::gauges-old-removed-new-added",             # wrong pop: only the first bond's gauge is looked at
     "        gs = [\n            gauges.pop(ix)\n            if ix in gauges\n",
     "        gs = [\n            gauges.pop(ix)\n            if ix == inds[0] and ix in gauges\n", "expect-fail"),
    (TC, "tensor_multifuse::fused-gauge-aligned-with-fused-legs",      # missing gauge not replaced by the identity of its size
     '            else do("ones", ts[0].ind_size(ix), like=ts[0].data)\n            for ix in inds\n        ]\n        # contract into a single gauge',
     '            else do("ones", 1, like=ts[0].data)\n            for ix in inds\n        ]\n        # contract into a single gauge',
     "expect-fail"),
    (TC, "tensor_multifuse::legs-fused-consistently",                  # legs fused in another order than the gauges
     "        t.fuse_({bond_ind: inds})\n\n\ndef tensor_make_single_bond",
     "        t.fuse_({bond_ind: sorted(inds, key=t.inds.index)})\n\n\ndef tensor_make_single_bond", "expect-fail"),
    (TC, "tensor_make_single_bond::gauges-old-removed-new-added",      # the caller forgets to hand the gauges down
     "                shared,\n                gauges=gauges,\n                bond_ind=bond_ind,\n            )\n\n    return left, bond_ind, right",
     "                shared,\n                bond_ind=bond_ind,\n            )\n\n    return left, bond_ind, right", "expect-fail"),
    (TC, "tensor_make_single_bond::bond-choice",
     "        if bond_ind is None:\n            bond_ind = shared[0]\n        elif not isinstance(bond_ind, str):",
     "        if bond_ind is None:\n            bond_ind = shared[-1]\n        elif not isinstance(bond_ind, str):", "expect-fail"),   # bond name pinned: callers (tensor_fuse_squeeze, gauges dict) key on it
    (TC, "tensor_multifuse::",                                         # benign: same product, other spelling
     'gauges[bond_ind] = functools.reduce(lambda x, y: do("kron", x, y), gs)',
     'gauges[bond_ind] = functools.reduce(lambda u, v: do("kron", u, v), gs[1:], gs[0])', "benign"),
]


def run_mutant(tmp, relpath, suffix, old, new):
    import contracts.c04_ext as X

    root = os.environ.get("VERIF_REPO", "/repo")
    src = open(os.path.join(root, relpath)).read()
    if src.count(old) < 1:
        return "stale", "old text not found in the current source"
    dst = os.path.join(tmp, "c04x", relpath)
    os.makedirs(os.path.dirname(dst), exist_ok=True)
    open(dst, "w").write(src.replace(old, new, 1))
    try:
        try:
            mut = X.provider(root=os.path.join(tmp, "c04x"))
        except Exception as e:  # noqa
            return "error", repr(e)[:120]
    finally:
        os.remove(dst)
    hit = [o for o in mut if suffix in o.id]
    if not hit:
        return "stale", f"no obligation id contains {suffix!r}"
    failed = [o for o in hit if o.status == "failed"]
    if failed:
        return "failed", ", ".join(o.id.split("::", 1)[1] for o in failed[:2])
    bad = [o for o in hit if o.status != "discharged"]
    if bad:
        return bad[0].status, bad[0].id
    return "discharged", ""
