"""deliberate breakages of the real source that the contracts must catch (see vf/selftest.py)"""
MODULES = ['contracts.c17_select']
MUTANTS = [
    ('quimb/linalg/numpy_linalg.py', '::sort_inds', '"LM": lambda a: -abs(a),', '"LM": lambda a: abs(a),', 'expect-fail'),
    ('quimb/linalg/numpy_linalg.py', '::sort_inds', '"SM": lambda a: -abs(1 / a),', '"SM": lambda a: abs(1 / a),', 'expect-fail'),
    ('quimb/linalg/numpy_linalg.py', '::sort_inds', '"SR": lambda a: a.real,', '"SR": lambda a: a.imag,', 'expect-fail'),
    ('quimb/linalg/numpy_linalg.py', '::sort_inds', '"LA": lambda a: -a,', '"LA": lambda a: a,', 'expect-fail'),
    ('quimb/linalg/numpy_linalg.py', '::sort_inds', '"TM": lambda a: -1 / abs(abs(a) - sigma),', '"TM": lambda a: -1 / abs(abs(a) + sigma),', 'expect-fail'),
    ('quimb/linalg/numpy_linalg.py', '::sort_inds', '"TR": lambda a: -1 / abs(a.real - sigma),', '"TR": lambda a: 1 / abs(a.real - sigma),', 'expect-fail'),
    ('quimb/linalg/numpy_linalg.py', '::sort_inds', '"TI": lambda a: -1 / abs(a.imag - sigma),', '"TI": lambda a: -1 / (a.imag - sigma),', 'expect-fail'),
    ('quimb/linalg/numpy_linalg.py', '::sort_inds', 'return np.argsort(_SORT_FUNCS[method.upper()](a))', 'return np.argsort(_SORT_FUNCS[method](a))', 'expect-fail'),
    ('quimb/linalg/numpy_linalg.py', '::sort_inds', '"LI": lambda a: -a.imag,', '"LI": lambda a: -a.real,', 'expect-fail'),
    ('quimb/linalg/numpy_linalg.py', '::eigs_numpy', '        sk = sort_inds(lk, method=which, sigma=sigma)[:k]\n        lk, vk = lk[sk], vk[:, sk]', '        sk = sort_inds(lk, method=which, sigma=sigma)[: k + 1]\n        lk, vk = lk[sk], vk[:, sk]', 'expect-fail'),
    ('quimb/linalg/numpy_linalg.py', '::eigs_numpy', '        if P is not None:\n            vk = P @ vk', '        if P is None:\n            vk = P @ vk', 'expect-fail'),
    ('quimb/linalg/numpy_linalg.py', '::eigs_numpy', '        sk = sort_inds(lk, method=which, sigma=sigma)[:k]\n        lk = lk[sk]', '        sk = np.argsort(lk)[:k]\n        lk = lk[sk]', 'expect-fail'),
]
