"""deliberate breakages of the real source that the C20 contracts must catch (see vf/selftest.py).

A mutant counts as 'failed' only through obligations that are discharged on the UNCHANGED tree (the known-finding
obligations of schmidt_gap / dephase / simulate_counts / quantum_discord / correlation do not mask anything); obligation ids
are compared with their line numbers removed.  Suffixes starting with ``fdx:`` name a provider of contracts/c20_calc.py: the
mutated source file is loaded as a scratch module and the provider is run on it."""
import os
import re

MODULES = ['contracts.c20_calc']

CALC = 'quimb/calc.py'
APX = 'quimb/linalg/approx_spectral.py'

MUTANTS = [
    # ---- gen_bipartite_spectral_fn.bipartite_spectral_fn
    (APX, '::gen_bipartite_spectral_fn.bipartite_spectral_fn', 'sysb = [i for i in range(len(dims)) if i not in sysa]\n            sysa = sysb\n\n        # check whether',
     'sysb = [i for i in range(len(dims)) if i in sysa]\n            sysa = sysb[1:]\n\n        # check whether', 'expect-fail'),
    (APX, '::gen_bipartite_spectral_fn.bipartite_spectral_fn', '        sz_b = prod(dims) // sz_a\n\n        # pure state\n        if sz_b == 1:\n            return pure_default',
     '        sz_b = prod(dims) // sz_a\n\n        # pure state\n        if sz_a == 1:\n            return pure_default', 'expect-fail'),
    (APX, '::gen_bipartite_spectral_fn.bipartite_spectral_fn', 'if (approx_thresh is not None) and (sz_a >= approx_thresh):\n            return approx_fn',
     'if (approx_thresh is not None) and (sz_a > approx_thresh):\n            return approx_fn', 'expect-fail'),
    (APX, '::gen_bipartite_spectral_fn.bipartite_spectral_fn', 'return approx_fn(psi_ab, dims, sysa, **approx_opts)', 'return approx_fn(psi_ab, dims, sysa)', 'expect-fail'),
    (APX, '::gen_bipartite_spectral_fn.bipartite_spectral_fn', '            sz_a = sz_b\n            sysb = [i for i in range(len(dims)) if i not in sysa]',
     '            sysb = [i for i in range(len(dims)) if i not in sysa]', 'expect-fail'),
    (APX, '::gen_bipartite_spectral_fn.bipartite_spectral_fn', '        rho_a = ptr(psi_ab, dims, sysa)\n        return exact_fn(rho_a)', '        rho_a = ptr(psi_ab, dims[::-1], sysa)\n        return exact_fn(rho_a)', 'expect-fail'),
    (APX, '::gen_bipartite_spectral_fn.bipartite_spectral_fn', '        if sz_b < sz_a:\n            # if so swap things around\n            sz_a = sz_b', '        if sz_b <= sz_a:\n            # if so swap things around\n            sz_a = sz_b', 'benign'),
    # ---- check_dims_and_indices
    (CALC, '::check_dims_and_indices', 'if not all(0 <= i < nsys for i in all_sys):', 'if not all(0 <= i <= nsys for i in all_sys):', 'expect-fail'),
    (CALC, '::check_dims_and_indices', 'if not all(0 <= i < nsys for i in all_sys):', 'if not all(0 < i < nsys for i in all_sys):', 'expect-fail'),
    (CALC, '::check_dims_and_indices', 'if not all(0 <= i < nsys for i in all_sys):', 'if not any(0 <= i < nsys for i in all_sys):', 'expect-fail'),
    (CALC, '::check_dims_and_indices', 'all_sys = sum(syss, ())', 'all_sys = sum(syss[1:], ())', 'expect-fail'),
    # ---- mutinf_subsys
    (CALC, '::mutinf_subsys', 'sz_c = prod(dims) // (sz_a * sz_b)\n\n    kws', 'sz_c = prod(dims) // (sz_a * sz_a)\n\n    kws', 'expect-fail'),
    (CALC, '::mutinf_subsys', 'hab = entropy_subsys(psi_abc, dims, sysa + sysb, **kws)', 'hab = entropy_subsys(psi_abc, dims, sysa, **kws)', 'expect-fail'),
    (CALC, '::mutinf_subsys', 'hb = entropy_subsys(psi_abc, dims, sysb, **kws)\n', 'hb = entropy_subsys(psi_abc, dims, sysa, **kws)\n', 'expect-fail'),
    (CALC, '::mutinf_subsys', '    return hb + ha - hab', '    return hb + ha + hab', 'expect-fail'),
    (CALC, '::mutinf_subsys', 'ha = hb = entropy_subsys(psi_abc, dims, sysa, **kws)\n    else:', 'ha = hb = entropy_subsys(psi_abc, dims, sysa)\n    else:', 'expect-fail'),
    (CALC, '::mutinf_subsys', '    if sz_c == 1:\n        hab = 0.0\n        ha = hb = entropy_subsys', '    if sz_c <= 2:\n        hab = 0.0\n        ha = hb = entropy_subsys', 'expect-fail'),
    (CALC, '::mutinf_subsys', 'ha = hb = entropy_subsys(psi_abc, dims, sysa, **kws)\n    else:', 'ha = hb = entropy_subsys(psi_abc, dims, sysb, **kws)\n    else:', 'benign'),
    # ---- mutinf
    (CALC, '::mutinf', 'sysb = tuple(i for i in range(len(dims)) if i not in sysa)', 'sysb = tuple(i for i in range(1, len(dims)) if i not in sysa)', 'expect-fail'),
    (CALC, '::mutinf', 'rhob = ptr(p, dims, sysb)', 'rhob = ptr(p, dims, sysa)', 'expect-fail'),
    (CALC, '::mutinf', 'hab = entropy(p, rank=rank)', 'hab = entropy(p)', 'expect-fail'),
    (CALC, '::mutinf', 'ha = entropy(rhoa)', 'ha = entropy(rhoa, rank=rank)', 'expect-fail'),
    (CALC, '::mutinf', '        hab = 0.0\n        ha = hb = entropy_subsys(p, dims, sysa)', '        hab = 0.0\n        ha = entropy_subsys(p, dims, sysa)\n        hb = 0.0', 'expect-fail'),
    (CALC, '::mutinf', '    return ha + hb - hab\n\n\nmutual_information', '    return ha - hb - hab\n\n\nmutual_information', 'expect-fail'),
    # ---- schmidt_gap
    (CALC, '::schmidt_gap', '        sysb = [i for i in range(len(dims)) if i not in sysa]\n        sysa = sysb\n\n    rho_a = ptr(psi_ab, dims, sysa)\n    el',
     '        sysb = [i for i in range(len(dims)) if i in sysa]\n        sysa = sysb[:-1]\n\n    rho_a = ptr(psi_ab, dims, sysa)\n    el', 'expect-fail'),
    (CALC, '::schmidt_gap', '    if sz_b == 1:\n        return 1.0\n\n    # also check if system b is smaller, since spectrum', '    if sz_b <= 2:\n        return 1.0\n\n    # also check if system b is smaller, since spectrum', 'expect-fail'),
    (CALC, '::schmidt_gap', 'el = eigvalsh(rho_a, k=2, which="LM")', 'el = eigvalsh(rho_a, k=2, which="SA")', 'expect-fail'),
    (CALC, '::schmidt_gap', 'return abs(el[0] - el[1])', 'return abs(el[0] + el[1])', 'expect-fail'),
    (CALC, '::schmidt_gap', 'el = eigvalsh(rho_a, k=2, which="LM")', 'el = eigvalsh(rho_a, k=3, which="LM")', 'expect-fail'),
    (CALC, '::schmidt_gap', '    if sz_b == 1:\n        return 1.0\n\n    # also check if system b is smaller, since spectrum', '    if sz_b == 1:\n        return 0.0\n\n    # also check if system b is smaller, since spectrum', 'expect-fail'),
    # ---- partial_transpose_norm / logneg / negativity
    (CALC, '::partial_transpose_norm', '            sysb = [i for i in range(len(dims)) if i not in sysa]\n            sysa = sysb\n\n        rhoa = ptr(p, dims, sysa)\n        return tr_sqrt(rhoa) ** 2',
     '            sysb = [i for i in range(len(dims) - 1) if i not in sysa]\n            sysa = sysb\n\n        rhoa = ptr(p, dims, sysa)\n        return tr_sqrt(rhoa) ** 2', 'expect-fail'),
    (CALC, '::partial_transpose_norm', 'return tr_sqrt(rhoa) ** 2', 'return tr_sqrt(rhoa)', 'expect-fail'),
    (CALC, '::partial_transpose_norm', 'return norm_trace_dense(partial_transpose(p, dims, sysa), isherm=True)', 'return norm_trace_dense(partial_transpose(p, dims, sysa), isherm=False)', 'expect-fail'),
    (CALC, '::partial_transpose_norm', 'return norm_trace_dense(partial_transpose(p, dims, sysa), isherm=True)', 'return norm_trace_dense(partial_transpose(p, dims[::-1], sysa), isherm=True)', 'expect-fail'),
    (CALC, '::partial_transpose_norm', 'return norm_trace_dense(partial_transpose(p, dims, sysa), isherm=True)', 'return norm_trace_dense(p, isherm=True)', 'expect-fail'),
    (CALC, '::logneg', 'return max(0.0, log2(partial_transpose_norm(p, dims, sysa)))', 'return max(0.0, log2(partial_transpose_norm(p, dims, 0)))', 'expect-fail'),
    (CALC, '::logneg', 'return max(0.0, log2(partial_transpose_norm(p, dims, sysa)))', 'return min(0.0, log2(partial_transpose_norm(p, dims, sysa)))', 'expect-fail'),
    (CALC, '::logneg', 'return max(0.0, log2(partial_transpose_norm(p, dims, sysa)))', 'return max(0.0, partial_transpose_norm(p, dims, sysa))', 'expect-fail'),
    (CALC, '::logneg', 'return max(0.0, log2(partial_transpose_norm(p, dims, sysa)))', 'return max(1.0, log2(partial_transpose_norm(p, dims, sysa)))', 'expect-fail'),
    (CALC, '::negativity', 'return max(0.0, (partial_transpose_norm(p, dims, sysa) - 1) / 2)', 'return max(0.0, (partial_transpose_norm(p, dims, sysa) - 1))', 'expect-fail'),
    (CALC, '::negativity', 'return max(0.0, (partial_transpose_norm(p, dims, sysa) - 1) / 2)', 'return max(0.0, (partial_transpose_norm(p, dims, sysa) + 1) / 2)', 'expect-fail'),
    (CALC, '::negativity', 'return max(0.0, (partial_transpose_norm(p, dims, sysa) - 1) / 2)', 'return max(0.0, (partial_transpose_norm(p, dims[1:], sysa) - 1) / 2)', 'expect-fail'),
    (CALC, '::negativity', 'return max(0.0, (partial_transpose_norm(p, dims, sysa) - 1) / 2)', 'return abs((partial_transpose_norm(p, dims, sysa) - 1) / 2)', 'expect-fail'),
    # ---- logneg_subsys
    (CALC, '::logneg_subsys', '            new_dims.append(d)\n            new_sysa.append(next(new_inds))', '            new_dims.append(d)\n            new_sysa.append(i)', 'expect-fail'),
    (CALC, '::logneg_subsys', '            new_dims.append(d)\n            next(new_inds)  # don\'t need sysb', '            new_dims.append(d)', 'expect-fail'),
    (CALC, '::logneg_subsys', '        elif i in sysb:\n            new_dims.append(d)', '        elif i in sysb:\n            new_dims.insert(0, d)', 'expect-fail'),
    (CALC, '::logneg_subsys', '    rho_ab = ptr(psi_abc, dims, sysa + sysb)', '    rho_ab = ptr(psi_abc, dims, sysa)', 'expect-fail'),
    (CALC, '::logneg_subsys', '    sz_ab = sz_a * sz_b\n    sz_c = prod(dims) // sz_ab', '    sz_ab = sz_a * sz_b\n    sz_c = prod(dims) // sz_a', 'expect-fail'),
    (CALC, '::logneg_subsys', 'if (approx_thresh is not None) and (sz_ab >= approx_thresh):', 'if (approx_thresh is not None) and (sz_a >= approx_thresh):', 'expect-fail'),
    (CALC, '::logneg_subsys', 'return logneg_subsys_approx(psi_abc, dims, sysa, sysb, **approx_opts)', 'return logneg_subsys_approx(psi_abc, dims, sysb, sysa)', 'expect-fail'),
    (CALC, '::logneg_subsys', '            ** 2\n        )\n        return max(log2(psi_ab_ppt_norm), 0.0)', '        )\n        return max(log2(psi_ab_ppt_norm), 0.0)', 'expect-fail'),
    (CALC, '::logneg_subsys', 'return logneg(rho_ab, new_dims, new_sysa)', 'return logneg(rho_ab, dims, new_sysa)', 'expect-fail'),
    (CALC, '::logneg_subsys', 'psi_abc, dims, sysa, approx_thresh=approx_thresh, **approx_opts\n            )', 'psi_abc, dims, sysa, **approx_opts\n            )', 'expect-fail'),
]

_BASELINE = {}


def _norm(oid):
    return re.sub(r"@\d+", "@L", oid)


def run_mutant(tmp, relpath, suffix, old, new):
    from vf import pyvc
    import contracts.c20_calc as C

    src = open(os.path.join("/repo", relpath)).read()
    if src.count(old) < 1:
        return "stale", "old text not found in the current source"
    dst = os.path.join(tmp, relpath)
    os.makedirs(os.path.dirname(dst), exist_ok=True)
    if suffix.startswith("fdx:"):
        prov = getattr(C, suffix[4:])
        if suffix not in _BASELINE:
            _BASELINE[suffix] = {o.id for o in prov("quick") if o.status != "discharged"}
        open(dst, "w").write(src.replace(old, new, 1))
        pyvc.REPO = tmp
        pyvc._SRC_CACHE.clear()
        try:
            res = prov("quick")
        finally:
            pyvc.REPO = "/repo"
            pyvc._SRC_CACHE.clear()
            os.remove(dst)
        newfail = [o for o in res if o.status == "failed" and o.id not in _BASELINE[suffix]]
        if newfail:
            return "failed", ", ".join(sorted({o.id.split("::")[-1] for o in newfail})[:3])
        newunk = [o for o in res if o.status == "unknown" and o.id not in _BASELINE[suffix]]
        if newunk:
            return "unknown", f"{len(newunk)} undecided: " + (newunk[0].detail or "")[:100]
        return "discharged", ""
    cons = [v for k, v in pyvc.REGISTRY.items() if k.endswith(suffix)]
    if not cons:
        return "stale", f"no contract registered for {suffix}"
    con = cons[0]
    if con.target not in _BASELINE:
        rep0 = pyvc.verify(con)
        _BASELINE[con.target] = {_norm(o.oid) for o in rep0.failed + rep0.unknown}
    open(dst, "w").write(src.replace(old, new, 1))
    pyvc.REPO = tmp
    pyvc._SRC_CACHE.clear()
    try:
        rep = pyvc.verify(con)
    finally:
        pyvc.REPO = "/repo"
        pyvc._SRC_CACHE.clear()
        os.remove(dst)
    base = _BASELINE[con.target]
    newfail = [o for o in rep.failed if _norm(o.oid) not in base]
    if newfail:
        return "failed", ", ".join(sorted({o.label.split("#")[0] for o in newfail})[:3])
    if rep.status != "ok":
        return rep.status, rep.detail[:120]
    newunk = [o for o in rep.unknown if _norm(o.oid) not in base]
    if newunk:
        return "unknown", f"{len(newunk)} undecided: " + ", ".join(sorted({o.label for o in newunk})[:3])
    return "discharged", ""
