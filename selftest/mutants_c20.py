"""deliberate breakages of the real source that the C20 contracts must catch (see vf/selftest.py).

A mutant counts as 'failed' only through obligations that are discharged on the tree the selftest runs on (obligations that
fail there already -- the known findings, as long as they are unrepaired -- do not mask anything); obligation ids are
compared with their line numbers removed.  The texts below are those of the tree AFTER the repairs of C20-c/e/f/g (schmidt_gap,
simulate_counts, dephase, quantum_discord); one mutant per repaired function puts the old defect back.  Suffixes starting with ``fdx:`` name a provider of contracts/c20_calc.py: the
mutated source file is loaded as a scratch module and the provider is run on it."""
import os
import re

MODULES = ['contracts.c20_calc']

CALC = 'quimb/calc.py'
APX = 'quimb/linalg/approx_spectral.py'

MUTANTS = [
    # ---- gen_bipartite_spectral_fn.bipartite_spectral_fn
    (APX, '::gen_bipartite_spectral_fn.bipartite_spectral_fn', 'sysb = [i for i in range(len(dims)) if i not in sysa]\n            sysa = sysb\n\n        # check whether',
     'sysb = [i for i in range(len(dims)) if i in sysa]\n            sysa = sysb[1:]\n\n        # check whether', 'expect-fail'),
    (APX, '::gen_bipartite_spectral_fn.bipartite_spectral_fn', '        sz_b = prod(dims) // sz_a\n\n        # pure state\n        if sz_b == 1:\n            return pure_default',
     '        sz_b = prod(dims) // sz_a\n\n        # pure state\n        if sz_a == 1:\n            return pure_default', 'expect-fail'),
    (APX, '::gen_bipartite_spectral_fn.bipartite_spectral_fn', 'if (approx_thresh is not None) and (sz_a >= approx_thresh):\n            return approx_fn',
     'if (approx_thresh is not None) and (sz_a > approx_thresh):\n            return approx_fn', 'expect-fail'),
    (APX, '::gen_bipartite_spectral_fn.bipartite_spectral_fn', 'return approx_fn(psi_ab, dims, sysa, **approx_opts)', 'return approx_fn(psi_ab, dims, sysa)', 'expect-fail'),
    (APX, '::gen_bipartite_spectral_fn.bipartite_spectral_fn', '            sz_a = sz_b\n            sysb = [i for i in range(len(dims)) if i not in sysa]',
     '            sysb = [i for i in range(len(dims)) if i not in sysa]', 'expect-fail'),
    (APX, '::gen_bipartite_spectral_fn.bipartite_spectral_fn', '        rho_a = ptr(psi_ab, dims, sysa)\n        return exact_fn(rho_a)', '        rho_a = ptr(psi_ab, dims[::-1], sysa)\n        return exact_fn(rho_a)', 'expect-fail'),
    (APX, '::gen_bipartite_spectral_fn.bipartite_spectral_fn', '        if sz_b < sz_a:\n            # if so swap things around\n            sz_a = sz_b', '        if sz_b <= sz_a:\n            # if so swap things around\n            sz_a = sz_b', 'benign'),
    # ---- check_dims_and_indices
    (CALC, '::check_dims_and_indices', 'if not all(0 <= i < nsys for i in all_sys):', 'if not all(0 <= i <= nsys for i in all_sys):', 'expect-fail'),
    (CALC, '::check_dims_and_indices', 'if not all(0 <= i < nsys for i in all_sys):', 'if not all(0 < i < nsys for i in all_sys):', 'expect-fail'),
    (CALC, '::check_dims_and_indices', 'if not all(0 <= i < nsys for i in all_sys):', 'if not any(0 <= i < nsys for i in all_sys):', 'expect-fail'),
    (CALC, '::check_dims_and_indices', 'all_sys = sum(syss, ())', 'all_sys = sum(syss[1:], ())', 'expect-fail'),
    # ---- mutinf_subsys
    (CALC, '::mutinf_subsys', 'sz_c = prod(dims) // (sz_a * sz_b)\n\n    kws', 'sz_c = prod(dims) // (sz_a * sz_a)\n\n    kws', 'expect-fail'),
    (CALC, '::mutinf_subsys', 'hab = entropy_subsys(psi_abc, dims, sysa + sysb, **kws)', 'hab = entropy_subsys(psi_abc, dims, sysa, **kws)', 'expect-fail'),
    (CALC, '::mutinf_subsys', 'hb = entropy_subsys(psi_abc, dims, sysb, **kws)\n', 'hb = entropy_subsys(psi_abc, dims, sysa, **kws)\n', 'expect-fail'),
    (CALC, '::mutinf_subsys', '    return hb + ha - hab', '    return hb + ha + hab', 'expect-fail'),
    (CALC, '::mutinf_subsys', 'ha = hb = entropy_subsys(psi_abc, dims, sysa, **kws)\n    else:', 'ha = hb = entropy_subsys(psi_abc, dims, sysa)\n    else:', 'expect-fail'),
    (CALC, '::mutinf_subsys', '    if sz_c == 1:\n        hab = 0.0\n        ha = hb = entropy_subsys', '    if sz_c <= 2:\n        hab = 0.0\n        ha = hb = entropy_subsys', 'expect-fail'),
    (CALC, '::mutinf_subsys', 'ha = hb = entropy_subsys(psi_abc, dims, sysa, **kws)\n    else:', 'ha = hb = entropy_subsys(psi_abc, dims, sysb, **kws)\n    else:', 'benign'),
    # ---- mutinf
    (CALC, '::mutinf', 'sysb = tuple(i for i in range(len(dims)) if i not in sysa)', 'sysb = tuple(i for i in range(1, len(dims)) if i not in sysa)', 'expect-fail'),
    (CALC, '::mutinf', 'rhob = ptr(p, dims, sysb)', 'rhob = ptr(p, dims, sysa)', 'expect-fail'),
    (CALC, '::mutinf', 'hab = entropy(p, rank=rank)', 'hab = entropy(p)', 'expect-fail'),
    (CALC, '::mutinf', 'ha = entropy(rhoa)', 'ha = entropy(rhoa, rank=rank)', 'expect-fail'),
    (CALC, '::mutinf', '        hab = 0.0\n        ha = hb = entropy_subsys(p, dims, sysa)', '        hab = 0.0\n        ha = entropy_subsys(p, dims, sysa)\n        hb = 0.0', 'expect-fail'),
    (CALC, '::mutinf', '    return ha + hb - hab\n\n\nmutual_information', '    return ha - hb - hab\n\n\nmutual_information', 'expect-fail'),
    # ---- schmidt_gap
    (CALC, '::schmidt_gap', '        sysb = [i for i in range(len(dims)) if i not in sysa]\n        sysa = sysb\n\n    rho_a = ptr(psi_ab, dims, sysa)\n    el',
     '        sysb = [i for i in range(len(dims)) if i in sysa]\n        sysa = sysb[:-1]\n\n    rho_a = ptr(psi_ab, dims, sysa)\n    el', 'expect-fail'),
    (CALC, '::schmidt_gap', '    if sz_a == 1 or sz_b == 1:\n        return 1.0\n\n    # also check if system b is smaller, since spectrum', '    if sz_a == 1 or sz_b <= 2:\n        return 1.0\n\n    # also check if system b is smaller, since spectrum', 'expect-fail'),
    (CALC, '::schmidt_gap', '    if sz_a == 1 or sz_b == 1:\n        return 1.0\n\n    # also check if system b is smaller, since spectrum', '    if sz_b == 1:\n        return 1.0\n\n    # also check if system b is smaller, since spectrum', 'expect-fail'),  # (the defect C20-c put back)
    (CALC, '::schmidt_gap', 'el = eigvalsh(rho_a, k=2, which="LM")', 'el = eigvalsh(rho_a, k=2, which="SA")', 'expect-fail'),
    (CALC, '::schmidt_gap', 'return abs(el[0] - el[1])', 'return abs(el[0] + el[1])', 'expect-fail'),
    (CALC, '::schmidt_gap', 'el = eigvalsh(rho_a, k=2, which="LM")', 'el = eigvalsh(rho_a, k=3, which="LM")', 'expect-fail'),
    (CALC, '::schmidt_gap', '    if sz_a == 1 or sz_b == 1:\n        return 1.0\n\n    # also check if system b is smaller, since spectrum', '    if sz_a == 1 or sz_b == 1:\n        return 0.0\n\n    # also check if system b is smaller, since spectrum', 'expect-fail'),
    # ---- partial_transpose_norm / logneg / negativity
    (CALC, '::partial_transpose_norm', '            sysb = [i for i in range(len(dims)) if i not in sysa]\n            sysa = sysb\n\n        rhoa = ptr(p, dims, sysa)\n        return tr_sqrt(rhoa) ** 2',
     '            sysb = [i for i in range(len(dims) - 1) if i not in sysa]\n            sysa = sysb\n\n        rhoa = ptr(p, dims, sysa)\n        return tr_sqrt(rhoa) ** 2', 'expect-fail'),
    (CALC, '::partial_transpose_norm', 'return tr_sqrt(rhoa) ** 2', 'return tr_sqrt(rhoa)', 'expect-fail'),
    (CALC, '::partial_transpose_norm', 'return norm_trace_dense(partial_transpose(p, dims, sysa), isherm=True)', 'return norm_trace_dense(partial_transpose(p, dims, sysa), isherm=False)', 'expect-fail'),
    (CALC, '::partial_transpose_norm', 'return norm_trace_dense(partial_transpose(p, dims, sysa), isherm=True)', 'return norm_trace_dense(partial_transpose(p, dims[::-1], sysa), isherm=True)', 'expect-fail'),
    (CALC, '::partial_transpose_norm', 'return norm_trace_dense(partial_transpose(p, dims, sysa), isherm=True)', 'return norm_trace_dense(p, isherm=True)', 'expect-fail'),
    (CALC, '::logneg', 'return max(0.0, log2(partial_transpose_norm(p, dims, sysa)))', 'return max(0.0, log2(partial_transpose_norm(p, dims, 0)))', 'expect-fail'),
    (CALC, '::logneg', 'return max(0.0, log2(partial_transpose_norm(p, dims, sysa)))', 'return min(0.0, log2(partial_transpose_norm(p, dims, sysa)))', 'expect-fail'),
    (CALC, '::logneg', 'return max(0.0, log2(partial_transpose_norm(p, dims, sysa)))', 'return max(0.0, partial_transpose_norm(p, dims, sysa))', 'expect-fail'),
    (CALC, '::logneg', 'return max(0.0, log2(partial_transpose_norm(p, dims, sysa)))', 'return max(1.0, log2(partial_transpose_norm(p, dims, sysa)))', 'expect-fail'),
    (CALC, '::negativity', 'return max(0.0, (partial_transpose_norm(p, dims, sysa) - 1) / 2)', 'return max(0.0, (partial_transpose_norm(p, dims, sysa) - 1))', 'expect-fail'),
    (CALC, '::negativity', 'return max(0.0, (partial_transpose_norm(p, dims, sysa) - 1) / 2)', 'return max(0.0, (partial_transpose_norm(p, dims, sysa) + 1) / 2)', 'expect-fail'),
    (CALC, '::negativity', 'return max(0.0, (partial_transpose_norm(p, dims, sysa) - 1) / 2)', 'return max(0.0, (partial_transpose_norm(p, dims[1:], sysa) - 1) / 2)', 'expect-fail'),
    (CALC, '::negativity', 'return max(0.0, (partial_transpose_norm(p, dims, sysa) - 1) / 2)', 'return abs((partial_transpose_norm(p, dims, sysa) - 1) / 2)', 'expect-fail'),
    # ---- logneg_subsys
    (CALC, '::logneg_subsys', '            new_dims.append(d)\n            new_sysa.append(next(new_inds))', '            new_dims.append(d)\n            new_sysa.append(i)', 'expect-fail'),
    (CALC, '::logneg_subsys', '            new_dims.append(d)\n            next(new_inds)  # don\'t need sysb', '            new_dims.append(d)', 'expect-fail'),
    (CALC, '::logneg_subsys', '        elif i in sysb:\n            new_dims.append(d)', '        elif i in sysb:\n            new_dims.insert(0, d)', 'expect-fail'),
    (CALC, '::logneg_subsys', '    rho_ab = ptr(psi_abc, dims, sysa + sysb)', '    rho_ab = ptr(psi_abc, dims, sysa)', 'expect-fail'),
    (CALC, '::logneg_subsys', '    sz_ab = sz_a * sz_b\n    sz_c = prod(dims) // sz_ab', '    sz_ab = sz_a * sz_b\n    sz_c = prod(dims) // sz_a', 'expect-fail'),
    (CALC, '::logneg_subsys', 'if (approx_thresh is not None) and (sz_ab >= approx_thresh):', 'if (approx_thresh is not None) and (sz_a >= approx_thresh):', 'expect-fail'),
    (CALC, '::logneg_subsys', 'return logneg_subsys_approx(psi_abc, dims, sysa, sysb, **approx_opts)', 'return logneg_subsys_approx(psi_abc, dims, sysb, sysa)', 'expect-fail'),
    (CALC, '::logneg_subsys', '            ** 2\n        )\n        return max(log2(psi_ab_ppt_norm), 0.0)', '        )\n        return max(log2(psi_ab_ppt_norm), 0.0)', 'expect-fail'),
    (CALC, '::logneg_subsys', 'return logneg(rho_ab, new_dims, new_sysa)', 'return logneg(rho_ab, dims, new_sysa)', 'expect-fail'),
    (CALC, '::logneg_subsys', 'psi_abc, dims, sysa, approx_thresh=approx_thresh, **approx_opts\n            )', 'psi_abc, dims, sysa, **approx_opts\n            )', 'expect-fail'),
    # ---- one_way_classical_information / quantum_discord
    (CALC, '::one_way_classical_information', 'p_ab_j = dot((eye(2) & prj), p_ab)', 'p_ab_j = dot((prj & eye(2)), p_ab)', 'expect-fail'),
    (CALC, '::one_way_classical_information', 'p_a_j = ptr(p_ab_j, (2, 2), 0) / prob', 'p_a_j = ptr(p_ab_j, (2, 2), 1) / prob', 'expect-fail'),
    (CALC, '::one_way_classical_information', 'p_a_j = ptr(p_ab_j, (2, 2), 0) / prob', 'p_a_j = ptr(p_ab_j, (2, 2), 0)', 'expect-fail'),
    (CALC, '::one_way_classical_information', '    p_a = ptr(p_ab, (2, 2), 0)\n    s_a = entropy(p_a)', '    p_a = ptr(p_ab, (2, 2), 1)\n    s_a = entropy(p_a)', 'expect-fail'),
    (CALC, '::one_way_classical_information', 'return s_a - sum(p * entropy(rho) for p, rho in gen_paj())', 'return s_a - sum(entropy(rho) for p, rho in gen_paj())', 'expect-fail'),
    (CALC, '::one_way_classical_information', 'return owci if precomp_func else owci(prjs)', 'return owci if precomp_func else owci(prjs[:1])', 'expect-fail'),
    (CALC, '::one_way_classical_information', 'return owci if precomp_func else owci(prjs)', 'return owci', 'expect-fail'),
    (CALC, '::quantum_discord', '        p = ptr(p, dims, (sysa, sysb))\n    else:\n        p = qu(p, "dop")\n    if sysa > sysb:', '        p = ptr(p, dims, (sysa,))\n    else:\n        p = qu(p, "dop")\n    if sysa > sysb:', 'expect-fail'),
    (CALC, '::quantum_discord', '    if sysa > sysb:\n        # the pair is still in its original order', '    if False:\n        # the pair is still in its original order', 'expect-fail'),  # (the defect C20-g put back)
    (CALC, '::quantum_discord', '    if sysa > sysb:\n        # the pair is still in its original order', '    if sysa < sysb:\n        # the pair is still in its original order', 'expect-fail'),
    (CALC, '::quantum_discord', '        p = permute(p, (dims[sysb], dims[sysa]), (1, 0))', '        p = permute(p, (dims[sysb], dims[sysa]), (0, 1))', 'expect-fail'),
    (CALC, '::quantum_discord', '        p = permute(p, (dims[sysb], dims[sysa]), (1, 0))', '        p = permute(p, (dims[sysa], dims[sysb]), (1, 0))', 'expect-fail'),
    (CALC, '::quantum_discord', '    iab = mutual_information(p)\n    owci = one_way', '    iab = mutual_information(qu(p, "dop"))\n    owci = one_way', 'expect-fail'),
    (CALC, '::quantum_discord', '        prjb = eye(2) - prja\n        return iab - owci((prja, prjb))', '        prjb = eye(2) - prja\n        return iab - owci((prja, prja))', 'expect-fail'),
    (CALC, '::quantum_discord', '        return iab - owci((prja, prjb))', '        return iab + owci((prja, prjb))', 'expect-fail'),
    (CALC, '::quantum_discord', 'ax, ay, az = sin(a[0]) * cos(a[1]), sin(a[0]) * sin(a[1]), cos(a[0])', 'ax, ay, az = sin(a[0]) * cos(a[1]), sin(a[0]) * sin(a[1]), cos(a[1])', 'expect-fail'),
    (CALC, '::quantum_discord', '    if opt.success:\n        return opt.fun', '    if opt.success:\n        return iab', 'expect-fail'),
    # ---- correlation / qid
    (CALC, '::correlation', 'opab = ikron((A, B), dims, (sysa, sysb), **opts)', 'opab = ikron((A, B), dims, (sysb, sysa), **opts)', 'expect-fail'),
    (CALC, '::correlation', 'B = ikron((B,), dims, sysb, **opts)', 'B = ikron((B,), dims, sysa, **opts)', 'expect-fail'),
    (CALC, '::correlation', 'A = ikron((A,), dims, sysa, **opts)', 'A = ikron((A,), dims, sysa)', 'benign'),
    (CALC, '::correlation', 'return expec(opab, state) - expec(A, state) * expec(B, state)', 'return expec(opab, state) - expec(A, state) * expec(A, state)', 'expect-fail'),
    (CALC, '::correlation', '        dims = (2,) * sz_p\n    if sparse is None:', '        dims = (2,) * (sz_p - 1)\n    if sparse is None:', 'expect-fail'),
    (CALC, '::correlation', 'sparse = issparse(A) or issparse(B)', 'sparse = issparse(A) and issparse(B)', 'benign'),
    (CALC, '::correlation', '"stype": "csr" if sparse else None,', '"stype": None if sparse else "csr",', 'benign'),
    (CALC, '::correlation', 'return corr if precomp_func else corr(p)', 'return corr(p)', 'expect-fail'),
    (CALC, '::qid', 'tuple(ikron(pauli(s), dims, ind, sparse=sparse_comp) for s in "xyz")', 'tuple(ikron(pauli(s), dims, ind, sparse=sparse_comp) for s in "xyy")', 'expect-fail'),
    (CALC, '::qid', 'tuple(ikron(pauli(s), dims, ind, sparse=sparse_comp) for s in "xyz")', 'tuple(ikron(pauli(s), dims, 0, sparse=sparse_comp) for s in "xyz")', 'expect-fail'),
    (CALC, '::qid', 'coeff * norm_func(dot(x, op) - dot(op, x)) ** power', 'coeff * norm_func(dot(x, op) + dot(op, x)) ** power', 'expect-fail'),
    (CALC, '::qid', 'coeff * norm_func(dot(x, op) - dot(op, x)) ** power', '(coeff * norm_func(dot(x, op) - dot(op, x))) ** power', 'expect-fail'),
    (CALC, '::qid', '        if isvec(x):\n            x = dop(x)\n        return tuple(\n            sum(', '        return tuple(\n            sum(', 'expect-fail'),
    (CALC, '::qid', 'inds = (inds,) if isinstance(inds, numbers.Number) else inds', 'inds = (inds, inds) if isinstance(inds, numbers.Number) else inds', 'expect-fail'),
    # ---- ent_cross_matrix
    (CALC, '::ent_cross_matrix', '    n = sz_p // sz_blc\n    ents = np.empty((n, n))', '    n = sz_p // sz_blc + 1\n    ents = np.empty((n, n))', 'expect-fail'),
    (CALC, '::ent_cross_matrix', 'for i in range(0, sz_p - sz_blc + 1, sz_blc):', 'for i in range(0, sz_p - sz_blc, sz_blc):', 'expect-fail'),
    (CALC, '::ent_cross_matrix', 'for i in range(0, sz_p - sz_blc + 1, sz_blc):', 'for i in range(0, sz_p, sz_blc):', 'expect-fail'),
    (CALC, '::ent_cross_matrix', 'for j in range(i, sz_p - sz_blc + 1, sz_blc):', 'for j in range(i + sz_blc, sz_p - sz_blc + 1, sz_blc):', 'expect-fail'),
    (CALC, '::ent_cross_matrix', '                        + [j + b for b in range(sz_blc)],', '                        + [j + b + 1 for b in range(sz_blc)],', 'expect-fail'),
    (CALC, '::ent_cross_matrix', '                ents[j // sz_blc, i // sz_blc] = ent', '                ents[j // sz_blc, j // sz_blc] = ent', 'expect-fail'),
    (CALC, '::ent_cross_matrix', '                ents[j // sz_blc, i // sz_blc] = ent', '                pass', 'expect-fail'),
    (CALC, '::ent_cross_matrix', '                        rhoa = ptr(p, dims, [i + b for b in range(sz_blc)])', '                        rhoa = ptr(p, dims, [i + b for b in range(1)])', 'expect-fail'),
    (CALC, '::ent_cross_matrix', '                    ent = ent_fn(rhoab, dims=(2**sz_blc, 2**sz_blc)) / sz_blc', '                    ent = ent_fn(rhoab, dims=(2**sz_blc, 2**sz_blc))', 'expect-fail'),
    (CALC, '::ent_cross_matrix', '    if ispure and sz_blc * 2 == sz_p:  # pure bipartition', '    if ispure and sz_blc * 2 <= sz_p:  # pure bipartition', 'expect-fail'),
    (CALC, '::ent_cross_matrix', '        if not calc_self_ent:\n            for i in range(n):\n                ents[i, i] = np.nan', '        if not calc_self_ent:\n            for i in range(1, n):\n                ents[i, i] = np.nan', 'expect-fail'),
    (CALC, '::ent_cross_matrix', '                    j * sz_blc : (j + 1) * sz_blc,\n                ] = ents[i, j]', '                    j * sz_blc : (j + 1) * sz_blc + 1,\n                ] = ents[i, j]', 'expect-fail'),
    (CALC, '::ent_cross_matrix', '                    i * sz_blc : (i + 1) * sz_blc,\n                ] = ents[j, i]', '                    i * sz_blc : (i + 1) * sz_blc,\n                ] = ents[i, i]', 'expect-fail'),
    (CALC, '::ent_cross_matrix', '            for j in range(i, n):\n                up_ents[', '            for j in range(i + 1, n):\n                up_ents[', 'expect-fail'),
    (CALC, '::ent_cross_matrix', '        up_ents = np.tile(np.nan, (sz_p, sz_p))', '        up_ents = np.tile(np.nan, (n * sz_blc, n * sz_blc))', 'expect-fail'),
    (CALC, '::ent_cross_matrix', '                if i == j:\n                    if calc_self_ent:', '                if i >= j:\n                    if calc_self_ent:', 'benign'),
    # ---- simulate_counts (E1; on the unchanged tree the base obligation fails: finding C20-e)
    (CALC, '::simulate_counts', 'raw_counts = rng.choice(d, size=C, p=pi)', 'raw_counts = rng.choice(d, size=C + 1, p=pi)', 'expect-fail'),
    (CALC, '::simulate_counts', 'raw_counts = rng.choice(d, size=C, p=pi)', 'raw_counts = rng.choice(d - 1, size=C, p=pi)', 'expect-fail'),
    (CALC, '::simulate_counts', 'raw_counts = rng.choice(d, size=C, p=pi)', 'raw_counts = rng.choice(d, size=C)', 'expect-fail'),
    (CALC, '::simulate_counts', '    d = phys_dim**n\n\n    if isop(p):', '    d = n**phys_dim\n\n    if isop(p):', 'expect-fail'),
    (CALC, '::simulate_counts', 'return np.base_repr(i, phys_dim).zfill(n)', 'return np.base_repr(i, phys_dim).zfill(n + 1)', 'expect-fail'),
    (CALC, '::simulate_counts', 'return np.base_repr(i, phys_dim).zfill(n)', 'return np.base_repr(i, 2).zfill(n)', 'expect-fail'),  # (the defect C20-e put back)
    (CALC, '::simulate_counts', 'return np.base_repr(i, phys_dim).zfill(n)', 'return np.base_repr(i, phys_dim)', 'expect-fail'),
    (CALC, '::simulate_counts', 'return np.base_repr(i, phys_dim).zfill(n)', 'return np.base_repr(i + 1, phys_dim).zfill(n)', 'expect-fail'),
    (CALC, '::simulate_counts', '        pi = np.diag(p).real\n', '        pi = np.diag(p).real ** 2\n', 'expect-fail'),
    (CALC, '::simulate_counts', '    rng = np.random.default_rng(seed)', '    rng = np.random.default_rng(0)', 'expect-fail'),
    (CALC, '::simulate_counts', '    n = infer_size(p, phys_dim)', '    n = infer_size(p)', 'expect-fail'),
    # ---- dephase (E1; on the unchanged tree the integer kind fails for rand_rank = 1: finding C20-f)
    (CALC, '::dephase', '        rand_rank = min(max(1, rand_rank), d)', '        rand_rank = min(max(1, rand_rank), d - 1)', 'expect-fail'),
    (CALC, '::dephase', '        rand_rank = min(max(1, rand_rank), d)', '        rand_rank = max(1, rand_rank)', 'expect-fail'),
    (CALC, '::dephase', '    if (rand_rank is not None) and not isinstance(rand_rank, numbers.Integral):', '    if (rand_rank is not None) and isinstance(rand_rank, numbers.Integral):', 'expect-fail'),
    (CALC, '::dephase', '    if (rand_rank is None) or (rand_rank == d):\n        dephaser = eye(d) / d', '    if (rand_rank is None) or (rand_rank == d) or (rand_rank == 1.0):\n        dephaser = eye(d) / d', 'expect-fail'),  # (the defect C20-f put back)
    (CALC, '::dephase', 'nnz = np.random.choice(np.arange(d), size=rand_rank, replace=False)', 'nnz = np.random.choice(np.arange(d), size=rand_rank, replace=True)', 'expect-fail'),
    (CALC, '::dephase', '        dephaser_diag[nnz] = 1 / rand_rank', '        dephaser_diag[nnz] = 1 / d', 'expect-fail'),
    (CALC, '::dephase', '        dephaser = eye(d) / d\n', '        dephaser = eye(d)\n', 'expect-fail'),
    (CALC, '::dephase', '    return (1 - p) * rho + p * dephaser', '    return p * rho + (1 - p) * dephaser', 'expect-fail'),
    (CALC, '::dephase', 'nnz = np.random.choice(np.arange(d), size=rand_rank, replace=False)', 'nnz = np.random.choice(np.arange(d - 1), size=rand_rank, replace=False)', 'expect-fail'),
    # ---- kraus_op
    (CALC, '::kraus_op', 'Ei_inds = ("K", *(f"i{q}" for q in where), *(f"i*{q}" for q in where))', 'Ei_inds = ("K", *(f"i*{q}" for q in where), *(f"i{q}" for q in where))', 'expect-fail'),
    (CALC, '::kraus_op', '            *(f"j*{q}" if q in where else f"j{q}" for q in range(N)),', '            *(f"j{q}" for q in range(N)),', 'expect-fail'),
    (CALC, '::kraus_op', '        kdims = tuple(dims[i] for i in where)', '        kdims = tuple(dims[i] for i in sorted(where))', 'expect-fail'),
    (CALC, '::kraus_op', '        rho = rho.reshape(dims + dims)', '        rho = rho.reshape(dims[::-1] + dims)', 'expect-fail'),
    (CALC, '::kraus_op', '        out = (*(f"i{q}" for q in range(N)), *(f"j{q}" for q in range(N)))', '        out = (*(f"j{q}" for q in range(N)), *(f"i{q}" for q in range(N)))', 'expect-fail'),
    (CALC, '::kraus_op', '        SEk = np.einsum("kij,kil", Ek.conj(), Ek)', '        SEk = np.einsum("kji,kli", Ek.conj(), Ek)', 'expect-fail'),
    (CALC, '::kraus_op', '        SEk = np.einsum("kij,kil", Ek.conj(), Ek)', '        SEk = np.einsum("kij,kil", Ek, Ek)', 'expect-fail'),
    (CALC, '::kraus_op', '        if norm(SEk - eye(Ek.shape[-1]), "fro") > 1e-12:', '        if norm(SEk - eye(Ek.shape[-1]), "fro") < 1e-12:', 'expect-fail'),
    (CALC, '::kraus_op', '    if int(dims is None) + int(where is None) == 1:', '    if int(dims is None) + int(where is None) == 2:', 'expect-fail'),
    (CALC, '::kraus_op', '        rho_inds = ("i*", "j*")\n', '        rho_inds = ("j*", "i*")\n', 'expect-fail'),
    (CALC, '::kraus_op', '        sigma = sigma.reshape(prod(dims), prod(dims))', '        sigma = sigma.reshape(prod(dims), -1)', 'expect-fail'),
    (CALC, '::kraus_op', '        Ej_inds = ("K", *(f"j{q}" for q in where), *(f"j*{q}" for q in where))', '        Ej_inds = ("K", *(f"j{q}" for q in reversed(where)), *(f"j*{q}" for q in reversed(where)))', 'expect-fail'),
    # ---- projector / measure
    (CALC, '::projector', '    which = np.argwhere(abs(el - eigenvalue) < tol)', '    which = np.argwhere(abs(el + eigenvalue) < tol)', 'expect-fail'),
    (CALC, '::projector', '    which = np.argwhere(abs(el - eigenvalue) < tol)', '    which = np.argwhere((el - eigenvalue) < tol)', 'expect-fail'),
    (CALC, '::projector', '        vi = ev[:, i]\n        P += vi @ vi.H', '        vi = ev[:, i]\n        P += vi @ vi.H\n        P += vi @ vi.H', 'expect-fail'),
    (CALC, '::projector', '        vi = ev[:, i]\n        P += vi @ vi.H', '        vi = ev[:, i]\n        P = P', 'expect-fail'),
    (CALC, '::projector', '        vi = ev[:, i]\n        P += vi @ vi.H', '        vi = ev[:, i + 1]\n        P += vi @ vi.H', 'expect-fail'),
    (CALC, '::projector', '        el, ev = eigh(A, autoblock=autoblock)', '        el, ev = eigh(A)', 'expect-fail'),
    (CALC, '::projector', '    P = np.zeros_like(ev)\n    for i in which:', '    P = np.zeros_like(ev)\n    for i in which[1:]:', 'expect-fail'),
    (CALC, '::measure', '    P = projector((el, ev), eigenvalue=eigenvalue, tol=tol)', '    P = projector((el, ev), eigenvalue=eigenvalue)', 'expect-fail'),
    (CALC, '::measure', '    total_prob = np.sum(pj[abs(el - eigenvalue) < tol])', '    total_prob = np.sum(pj[abs(el - eigenvalue) < 2 * tol])', 'expect-fail'),
    (CALC, '::measure', '            ("jk", "kl", "lj"),', '            ("jk", "kl", "jl"),', 'expect-fail'),
    (CALC, '::measure', '        j = np.random.choice(js, p=pj)\n        eigenvalue = el[j]', '        j = np.random.choice(js, p=pj)\n        eigenvalue = el[j - 1]', 'expect-fail'),
    (CALC, '::measure', '        j = np.random.choice(js, p=pj)', '        j = np.random.choice(js)', 'expect-fail'),
    (CALC, '::measure', '        p_after = P @ (p / total_prob**0.5)', '        p_after = P @ (p / total_prob)', 'expect-fail'),
    (CALC, '::measure', '        p_after = (P @ p @ P.H) / total_prob', '        p_after = (P @ p) / total_prob', 'expect-fail'),
    (CALC, '::measure', '    return eigenvalue, p_after', '    return p_after, eigenvalue', 'expect-fail'),
    (CALC, '::measure', '    js = np.arange(el.size)', '    js = np.arange(el.size - 1)', 'expect-fail'),
    # ---- lazy_ptr_linop / lazy_ptr_ppt_linop
    (APX, '::lazy_ptr_linop', '            ("bA{}" if i in sysa else "xB{}").format(i)\n            for i in range(len(dims))', '            ("bA{}" if i in sysa else "yB{}").format(i)\n            for i in range(len(dims))', 'expect-fail'),
    (APX, '::lazy_ptr_linop', '            ("kA{}" if i in sysa else "xB{}").format(i)\n            for i in range(len(dims))', '            ("kA{}" if i not in sysa else "xB{}").format(i)\n            for i in range(len(dims))', 'expect-fail'),
    (APX, '::lazy_ptr_linop', '[f"kA{i}" for i in sysa], [f"bA{i}" for i in sysa], **linop_opts', '[f"kA{i}" for i in sysa], [f"bA{i}" for i in sorted(sysa)], **linop_opts', 'expect-fail'),
    (APX, '::lazy_ptr_linop', '[f"kA{i}" for i in sysa], [f"bA{i}" for i in sysa], **linop_opts', '[f"kA{i}" for i in sysa], [f"bA{i}" for i in sysa]', 'expect-fail'),
    (APX, '::lazy_ptr_linop', '[f"kA{i}" for i in sysa], [f"bA{i}" for i in sysa], **linop_opts', '[f"kA{i}" for i in sysa[:1]], [f"bA{i}" for i in sysa[:1]], **linop_opts', 'expect-fail'),
    (APX, '::lazy_ptr_linop', '        Kab.data.conjugate(),\n        inds=[\n            ("bA{}"', '        Kab.data,\n        inds=[\n            ("bA{}"', 'expect-fail'),
    (APX, '::lazy_ptr_linop', '        np.asarray(psi_ab).reshape(dims),\n        inds=[\n            ("kA{}"', '        np.asarray(psi_ab).reshape(dims[::-1]),\n        inds=[\n            ("kA{}"', 'expect-fail'),
    (APX, '::lazy_ptr_linop', '            ("bA{}" if i in sysa else "xB{}").format(i)\n            for i in range(len(dims))', '            ("bA{}" if i in sysa else "xB{}").format(len(dims) - 1 - i)\n            for i in range(len(dims))', 'expect-fail'),
    (APX, '::lazy_ptr_ppt_linop', '        [("bA{}" if i in sysa else "kB{}").format(i) for i in sys_ab],\n        [("kA{}" if i in sysa else "bB{}").format(i) for i in sys_ab],',
     '        [("kA{}" if i in sysa else "kB{}").format(i) for i in sys_ab],\n        [("bA{}" if i in sysa else "bB{}").format(i) for i in sys_ab],', 'expect-fail'),
    (APX, '::lazy_ptr_ppt_linop', '        [("bA{}" if i in sysa else "kB{}").format(i) for i in sys_ab],\n        [("kA{}" if i in sysa else "bB{}").format(i) for i in sys_ab],',
     '        [("bA{}" if i in sysa else "kB{}").format(i) for i in sys_ab],\n        [("kA{}" if i in sysa else "bB{}").format(i) for i in reversed(sys_ab)],', 'expect-fail'),
    (APX, '::lazy_ptr_ppt_linop', '        [("bA{}" if i in sysa else "kB{}").format(i) for i in sys_ab],\n        [("kA{}" if i in sysa else "bB{}").format(i) for i in sys_ab],',
     '        [("bA{}" if i in sysb else "kB{}").format(i) for i in sys_ab],\n        [("kA{}" if i in sysb else "bB{}").format(i) for i in sys_ab],', 'expect-fail'),
    (APX, '::lazy_ptr_ppt_linop', '            ("bA{}" if i in sysa else "bB{}" if i in sysb else "xC{}").format(\n                i\n            )', '            ("bA{}" if i in sysa else "bB{}" if i in sysb else "yC{}").format(\n                i\n            )', 'expect-fail'),
    (APX, '::lazy_ptr_ppt_linop', '            ("kA{}" if i in sysa else "kB{}" if i in sysb else "xC{}").format(\n                i\n            )', '            ("kA{}" if i in sysa else "xC{}" if i in sysb else "xC{}").format(\n                i\n            )', 'expect-fail'),
    (APX, '::lazy_ptr_ppt_linop', '    sys_ab = sorted(sysa + sysb)', '    sys_ab = sorted(sysa)', 'expect-fail'),
    (APX, '::lazy_ptr_ppt_linop', '        **linop_opts,\n    )\n\n\n# ----', '    )\n\n\n# ----', 'expect-fail'),
    (APX, '::lazy_ptr_ppt_linop', '    sys_ab = sorted(sysa + sysb)', '    sys_ab = sorted(sysa + sysb)[::-1]', 'benign'),
    # ---- providers (fdx / E4): the mutated source is loaded as a scratch module and the provider is run on it
    (CALC, 'fdx:provider_pauli_decomp', 'for perm in itertools.product(fn_args, repeat=n):', 'for perm in itertools.combinations_with_replacement(fn_args, n):', 'expect-fail'),
    (CALC, 'fdx:provider_pauli_decomp', 'op = kron(*(fn(x, sparse=True) for x in perm)) * nmlz_func(n)', 'op = kron(*(fn(x, sparse=True) for x in perm))', 'expect-fail'),
    (CALC, 'fdx:provider_pauli_decomp', 'names_cffs.sort(key=lambda pair: -abs(pair[1]))', 'names_cffs.sort(key=lambda pair: abs(pair[1]))', 'expect-fail'),
    (CALC, 'fdx:provider_pauli_decomp', 'yield "".join(str(x) for x in perm), cff', 'yield "".join(str(x) for x in reversed(perm)), cff', 'expect-fail'),
    (CALC, 'fdx:provider_pauli_decomp', 'op = kron(*(fn(x, sparse=True) for x in perm)) * nmlz_func(n)', 'op = kron(*(fn(x, sparse=True) for x in perm)) * nmlz_func(n - 1)', 'expect-fail'),
    (CALC, 'fdx:provider_decomp_partials', 'decomp, fn=pauli, fn_args="IXYZ", fn_d=2, nmlz_func=lambda n: 2**-n', 'decomp, fn=pauli, fn_args="IXYZ", fn_d=2, nmlz_func=lambda n: 2**-(n + 1)', 'expect-fail'),
    (CALC, 'fdx:provider_decomp_partials', 'decomp, fn=pauli, fn_args="IXYZ", fn_d=2, nmlz_func=lambda n: 2**-n', 'decomp, fn=pauli, fn_args="IXYZ", fn_d=2, nmlz_func=lambda n: 2**n', 'expect-fail'),
    (CALC, 'fdx:provider_decomp_partials', 'decomp, fn=pauli, fn_args="IXYZ", fn_d=2, nmlz_func=lambda n: 2**-n', 'decomp, fn=pauli, fn_args="IXZZ", fn_d=2, nmlz_func=lambda n: 2**-n', 'expect-fail'),
    (CALC, 'fdx:provider_decomp_partials', 'decomp, fn=pauli, fn_args="IXYZ", fn_d=2, nmlz_func=lambda n: 2**-n', 'decomp, fn=pauli, fn_args="IXYZ", fn_d=2, nmlz_func=lambda n: 1 / 2**n', 'benign'),
    (CALC, 'fdx:provider_decomp_partials', 'decomp, fn=bell_state, fn_args=(0, 1, 2, 3), fn_d=4, nmlz_func=lambda x: 1', 'decomp, fn=bell_state, fn_args=(0, 1, 2), fn_d=4, nmlz_func=lambda x: 1', 'expect-fail'),
    (CALC, 'fdx:provider_pauli_correlations', 'p, pauli(s1), pauli(s2), sysa, sysb, precomp_func=precomp_func', 'p, pauli(s2), pauli(s1), sysa, sysb, precomp_func=precomp_func', 'expect-fail'),
    (CALC, 'fdx:provider_pauli_correlations', 'p, pauli(s1), pauli(s2), sysa, sysb, precomp_func=precomp_func', 'p, pauli(s1), pauli(s2), sysb, sysa, precomp_func=precomp_func', 'expect-fail'),
    (CALC, 'fdx:provider_pauli_correlations', '        return sum((abs(corr) for corr in gen_corr_list()))', '        return sum((corr for corr in gen_corr_list()))', 'expect-fail'),
    (CALC, 'fdx:provider_pauli_correlations', 'return lambda p: sum((abs(corr(p)) for corr in gen_corr_list()))', 'return lambda p: abs(sum((corr(p) for corr in gen_corr_list())))', 'expect-fail'),
    (CALC, 'fdx:provider_pauli_correlations', 'p, pauli(s1), pauli(s2), sysa, sysb, precomp_func=precomp_func', 'p, pauli(s1), pauli(s2), sysa, sysb', 'expect-fail'),
    (CALC, 'fdx:provider_simulate_counts', 'return np.base_repr(i, phys_dim).zfill(n)', 'return np.base_repr(i, 2).zfill(n)', 'expect-fail'),  # (the defect C20-e put back)
    (CALC, 'fdx:provider_simulate_counts', 'return np.base_repr(i, phys_dim).zfill(n)', 'return np.base_repr(i, phys_dim).zfill(n + 1)', 'expect-fail'),
    (CALC, 'fdx:provider_simulate_counts', 'raw_counts = rng.choice(d, size=C, p=pi)', 'raw_counts = rng.choice(d, size=C + 1, p=pi)', 'expect-fail'),
    (CALC, 'fdx:provider_simulate_counts', '        pi = np.diag(p).real\n', '        pi = np.diag(p[::-1, ::-1]).real\n', 'expect-fail'),
    (CALC, 'fdx:provider_correlation_grid', 'opab = ikron((A, B), dims, (sysa, sysb), **opts)', 'opab = ikron((A, B), dims, (sysb, sysa), **opts)', 'expect-fail'),
    (CALC, 'fdx:provider_correlation_grid', 'return expec(opab, state) - expec(A, state) * expec(B, state)', 'return expec(opab, state) - expec(A, state) - expec(B, state)', 'expect-fail'),
    (CALC, 'fdx:provider_correlation_grid', '    B = ikron((B,), dims, sysb, **opts)', '    B = ikron((B,), dims, sysa, **opts)', 'expect-fail'),
    # ---- purify / concurrence
    (CALC, '::purify', 'psi += evals * kron(vs[:, [i]], basis_vec(i, d))', 'psi += evals * kron(vs[:, [i]], basis_vec(d - 1 - i, d))', 'expect-fail'),
    (CALC, '::purify', 'psi += evals * kron(vs[:, [i]], basis_vec(i, d))', 'psi += evals * kron(vs[:, [0]], basis_vec(i, d))', 'expect-fail'),
    (CALC, '::purify', 'psi += evals * kron(vs[:, [i]], basis_vec(i, d))', 'psi += kron(vs[:, [i]], basis_vec(i, d))', 'expect-fail'),
    (CALC, '::purify', '    evals = np.sqrt(np.clip(evals, 0, 1))', '    evals = np.clip(evals, 0, 1)', 'expect-fail'),
    (CALC, '::purify', '    psi = np.zeros(shape=(d**2, 1), dtype=complex)', '    psi = np.zeros(shape=(d * 2, 1), dtype=complex)', 'expect-fail'),
    (CALC, '::purify', 'psi += evals * kron(vs[:, [i]], basis_vec(i, d))', 'psi += evals * kron(vs[:, [i]], basis_vec(i, d + 1))', 'expect-fail'),
    (CALC, '::purify', 'psi += evals * kron(vs[:, [i]], basis_vec(i, d))', 'psi += evals * kron(vs[:, [i]], basis_vec(i, d))\n        psi += evals * kron(vs[:, [i]], basis_vec(i, d))', 'expect-fail'),
    (CALC, '::concurrence', '        p = ptr(p, dims, (sysa, sysb))\n\n    Y = pauli("Y")', '        p = ptr(p, dims, (sysa,))\n\n    Y = pauli("Y")', 'expect-fail'),
    (CALC, '::concurrence', '        p = ptr(p, dims, (sysa, sysb))\n\n    Y = pauli("Y")', '        p = ptr(p, dims[::-1], (sysa, sysb))\n\n    Y = pauli("Y")', 'expect-fail'),
    (CALC, '::concurrence', '        p = ptr(p, dims, (sysa, sysb))\n\n    Y = pauli("Y")', '        q = ptr(p, dims, (sysa, sysb))\n\n    Y = pauli("Y")', 'expect-fail'),
    (CALC, '::concurrence', '    if len(dims) > 2:\n        p = ptr(p, dims, (sysa, sysb))\n\n    Y = pauli("Y")', '    if len(dims) > 3:\n        p = ptr(p, dims, (sysa, sysb))\n\n    Y = pauli("Y")', 'expect-fail'),
    (CALC, '::concurrence', '        p = ptr(p, dims, (sysa, sysb))\n\n    Y = pauli("Y")', '        p = ptr(p, dims, (sysb, sysa))\n\n    Y = pauli("Y")', 'benign'),
    # ---- logneg_subsys, renumbering loop for a symbolic number of subsystems (contract key ...::logneg_subsys#all-n)
    (CALC, '::logneg_subsys#all-n', '            new_dims.append(d)\n            new_sysa.append(next(new_inds))', '            new_dims.append(d)\n            new_sysa.append(i)', 'expect-fail'),
    (CALC, '::logneg_subsys#all-n', '            new_dims.append(d)\n            next(new_inds)  # don\'t need sysb', '            new_dims.append(d)', 'expect-fail'),
    (CALC, '::logneg_subsys#all-n', '        if i in sysa:\n            new_dims.append(d)\n            new_sysa.append(next(new_inds))', '        if i in sysa:\n            new_sysa.append(next(new_inds))', 'expect-fail'),
    (CALC, '::logneg_subsys#all-n', '        elif i in sysb:\n            new_dims.append(d)', '        elif i in sysb:\n            new_dims.append(d + 1)', 'expect-fail'),
    (CALC, '::logneg_subsys#all-n', '        elif i in sysb:\n            new_dims.append(d)\n            next(new_inds)', '        elif i in sysb:\n            new_dims.append(d)\n            new_sysa.append(next(new_inds))', 'expect-fail'),
    (CALC, '::logneg_subsys#all-n', '    new_inds = iter(range(len(dims)))\n\n    for i, d in enumerate(dims):\n        if i in sysa:', '    new_inds = iter(range(len(dims) - 1))\n\n    for i, d in enumerate(dims):\n        if i in sysa:', 'expect-fail'),
    (CALC, '::logneg_subsys#all-n', '    rho_ab = ptr(psi_abc, dims, sysa + sysb)\n\n    # need to adjust', '    rho_ab = ptr(psi_abc, dims, sysb + sysa)\n\n    # need to adjust', 'benign'),
    (CALC, '::logneg_subsys#all-n', '    rho_ab = ptr(psi_abc, dims, sysa + sysb)\n\n    # need to adjust', '    rho_ab = ptr(psi_abc, dims, sysa + sysa)\n\n    # need to adjust', 'expect-fail'),
    (CALC, '::logneg_subsys#all-n', '        elif i in sysb:\n            new_dims.append(d)\n            next(new_inds)', '        elif i in sysb or i not in sysa:\n            new_dims.append(d)\n            next(new_inds)', 'expect-fail'),
]

_BASELINE = {}


def _norm(oid):
    return re.sub(r"@\d+", "@L", oid)


def run_mutant(tmp, relpath, suffix, old, new):
    from vf import pyvc
    import contracts.c20_calc as C

    src = open(os.path.join("/repo", relpath)).read()
    if src.count(old) < 1:
        return "stale", "old text not found in the current source"
    dst = os.path.join(tmp, relpath)
    os.makedirs(os.path.dirname(dst), exist_ok=True)
    if suffix.startswith("fdx:"):
        prov = getattr(C, suffix[4:])
        if suffix not in _BASELINE:
            _BASELINE[suffix] = {o.id for o in prov("quick") if o.status != "discharged"}
        open(dst, "w").write(src.replace(old, new, 1))
        pyvc.REPO = tmp
        pyvc._SRC_CACHE.clear()
        try:
            res = prov("quick")
        finally:
            pyvc.REPO = "/repo"
            pyvc._SRC_CACHE.clear()
            os.remove(dst)
        newfail = [o for o in res if o.status == "failed" and o.id not in _BASELINE[suffix]]
        if newfail:
            return "failed", ", ".join(sorted({o.id.split("::")[-1] for o in newfail})[:3])
        newunk = [o for o in res if o.status == "unknown" and o.id not in _BASELINE[suffix]]
        if newunk:
            return "unknown", f"{len(newunk)} undecided: " + (newunk[0].detail or "")[:100]
        return "discharged", ""
    cons = [v for k, v in pyvc.REGISTRY.items() if k.endswith(suffix)]
    if not cons:
        return "stale", f"no contract registered for {suffix}"
    con = cons[0]
    if con.target not in _BASELINE:
        rep0 = pyvc.verify(con)
        _BASELINE[con.target] = {_norm(o.oid) for o in rep0.failed + rep0.unknown}
    open(dst, "w").write(src.replace(old, new, 1))
    pyvc.REPO = tmp
    pyvc._SRC_CACHE.clear()
    try:
        rep = pyvc.verify(con)
    finally:
        pyvc.REPO = "/repo"
        pyvc._SRC_CACHE.clear()
        os.remove(dst)
    base = _BASELINE[con.target]
    newfail = [o for o in rep.failed if _norm(o.oid) not in base]
    if newfail:
        return "failed", ", ".join(sorted({o.label.split("#")[0] for o in newfail})[:3])
    if rep.status != "ok":
        return rep.status, rep.detail[:120]
    newunk = [o for o in rep.unknown if _norm(o.oid) not in base]
    if newunk:
        return "unknown", f"{len(newunk)} undecided: " + ", ".join(sorted({o.label for o in newunk})[:3])
    return "discharged", ""
