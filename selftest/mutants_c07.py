"""C07 mutants: deliberate breakages of quimb/tensor/circuit/*.py on a scratch copy; every one must flip a NAMED
provider obligation (function_suffix = substring of the obligation id) from discharged to failed; 'benign' entries
(harmless edits and genuine FIXES of the two known defects) must leave / make the named obligation discharged.

   ./check selftest c07          (or: .venv/bin/python -m vf.selftest c07)
"""
import os
import re
import shutil

MODULES = ["contracts.c07_circuit"]
_C = "quimb/tensor/circuit"
CORE, EXACT, MPS, GATES = f"{_C}/core.py", f"{_C}/exact.py", f"{_C}/mps.py", f"{_C}/gates.py"

MUTANTS = [
    # ------------------------------------------------------------------ E4 typestate (provider_cache)
    # R1: remove a validator call
    (EXACT, "Circuit.get_psi_simplified::cache-R1",
     '        self._maybe_init_storage()\n\n        key = ("psi_simplified", seq, atol)',
     '        key = ("psi_simplified", seq, atol)', "expect-fail"),
    (MPS, "CircuitMPS.sample_chaotic::cache-R1",
     "        # init the conditional marginal cache\n        self._maybe_init_storage()\n",
     "        # init the conditional marginal cache\n", "benign"),  # (since F14 every shot re-validates before its first access)
    # R1: a NEW method that reads the cache without validating (found by reflection, no name list)
    (CORE, "CircuitBase.peek_cache::cache-R1",
     '    def clear_storage(self):\n        """Clear all cached data."""',
     '    def peek_cache(self):\n        return len(self._storage)\n\n    def clear_storage(self):\n        """Clear all cached data."""',
     "expect-fail"),
    # R1: a gate application between validation and access
    (EXACT, "Circuit.calc_qubit_ordering::cache-R1",
     "        self._maybe_init_storage()\n\n        if qubits is None:\n            qubits = tuple(range(self.N))\n        else:\n            qubits = tuple(sorted(qubits))\n\n        key = (\"lightcone_ordering\", method, qubits)",
     "        self._maybe_init_storage()\n        self.apply_gate(\"IDEN\", 0)\n\n        if qubits is None:\n            qubits = tuple(range(self.N))\n        else:\n            qubits = tuple(sorted(qubits))\n\n        key = (\"lightcone_ordering\", method, qubits)",
     "expect-fail"),
    # R1: the same through dynamic dispatch -- a query helper that starts mutating in ONE subclass
    (MPS, "CircuitMPS.sample_chaotic::cache-R1",
     "    def calc_qubit_ordering(self, qubits=None):\n        \"\"\"MPS already has a natural ordering.\"\"\"\n",
     "    def calc_qubit_ordering(self, qubits=None):\n        \"\"\"MPS already has a natural ordering.\"\"\"\n        self.apply_gate(\"IDEN\", 0)\n",
     "benign"),  # (since F14 the shot loop re-validates after the helper ran)
    # R2: a new cache access after a yield in a generator that had none
    (MPS, "CircuitPermMPS.sample::cache-R2",
     "        for config, _ in psi.sample(C, seed=seed):\n            yield \"\".join(\n                str(config[site_from_qubit[i]]) for i in range(self.N)\n            )",
     "        self._maybe_init_storage()\n        for config, _ in psi.sample(C, seed=seed):\n            yield \"\".join(\n                str(config[site_from_qubit[i]]) for i in range(self.N)\n            )\n            self._storage[\"last\"] = config",
     "expect-fail"),
    # R3: drop an invalidation
    (CORE, "CircuitBase.set_params::cache-R3",
     "        for i, p in gate_updates.items():\n            self._set_gate_params(i, p)\n        self.clear_storage()",
     "        for i, p in gate_updates.items():\n            self._set_gate_params(i, p)", "expect-fail"),
    (CORE, "CircuitBase.update_params_from::cache-R3",
     "                    parametrize=True,\n                )\n\n        self.clear_storage()",
     "                    parametrize=True,\n                )\n", "expect-fail"),
    (CORE, "CircuitBase.register_named_params::cache-R3",
     "        self._apply_named_param_updates()\n        self.clear_storage()\n\n    def _set_gate_params",
     "        self._apply_named_param_updates()\n\n    def _set_gate_params", "expect-fail"),
    # R3: invalidation only on one branch
    (CORE, "CircuitBase.set_params::cache-R3",
     "        for i, p in gate_updates.items():\n            self._set_gate_params(i, p)\n        self.clear_storage()",
     "        for i, p in gate_updates.items():\n            self._set_gate_params(i, p)\n        if named_updates:\n            self.clear_storage()",
     "expect-fail"),
    # R3: lazy MPS compression without invalidation -> every public route that flushes
    (MPS, "CircuitMPSLazy.get_psi::cache-R3",
     "        # representations of the pre-compression state are now stale\n        self.clear_storage()",
     "        # representations of the pre-compression state are now stale\n        pass", "expect-fail"),
    # R3: the gate is applied to the state but not recorded (counter does not move)
    (CORE, "CircuitBase.apply_gate::cache-R3",
     "        # keep track of the gates applied\n        self._gates.append(gate)",
     "        # keep track of the gates applied\n        pass", "expect-fail"),
    # R3: the gate list shrinks (counter comparison becomes unsound)
    (CORE, "CircuitBase.undo_gate::cache-R3",
     '    def clear_storage(self):\n        """Clear all cached data."""',
     '    def undo_gate(self):\n        return self._gates.pop()\n\n    def clear_storage(self):\n        """Clear all cached data."""',
     "expect-fail"),
    # R3: in-place change of the state outside a gate application
    (MPS, "CircuitMPS.fidelity_estimate::cache-R3",
     "        if cur_orthog is None:\n            return abs(self._psi.norm()) ** 2",
     "        if cur_orthog is None:\n            self._psi.normalize_()\n            return abs(self._psi.norm()) ** 2",
     "expect-fail"),
    # R4: new breakage of the constructor (stamp starts at 0 == num_gates of an empty circuit: born 'valid')
    (CORE, "CircuitBase.__init__::cache-R4",
     "        self._sample_n_gates = -1\n        self._storage = {}", "        self._sample_n_gates = 0\n        self._storage = {}",
     "benign"),  # (since F13 the constructor initialises every cache field: an empty circuit may be born valid)
    # R5: a key that forgets a query argument the value depends on
    (EXACT, "Circuit.get_rdm_lightcone_simplified::cache-R5",
     'key = ("rdm_lightcone_simplified", tuple(sorted(where)), seq, atol)', 'key = ("rdm_lightcone_simplified", seq, atol)',
     "expect-fail"),
    (EXACT, "Circuit.sample_gate_by_gate::cache-R5",
     '        key = ("gate_by_gate_circuits", group_size)\n\n        for _ in range(C):',
     '        key = ("gate_by_gate_circuits",)\n\n        for _ in range(C):',
     "expect-fail"),
    (EXACT, "Circuit.calc_qubit_ordering::cache-R5",
     'key = ("lightcone_ordering", method, qubits)', 'key = ("lightcone_ordering", qubits)', "expect-fail"),
    # R1: an alias of a cache container used after a gate application
    (EXACT, "Circuit.get_psi_simplified::cache-R1",
     '        key = ("psi_simplified", seq, atol)\n        if key in self._storage:\n            return self._storage[key].copy()\n',
     '        key = ("psi_simplified", seq, atol)\n        store = self._storage\n        self.apply_gate("IDEN", 0)\n        self._maybe_init_storage()\n        if key in store:\n            return store[key].copy()\n',
     "benign"),   # re-validated: the alias still points at the (cleared in place) container -> fine
    (EXACT, "Circuit.get_psi_simplified::cache-R1",
     '        key = ("psi_simplified", seq, atol)\n        if key in self._storage:\n            return self._storage[key].copy()\n',
     '        key = ("psi_simplified", seq, atol)\n        store = self._storage\n        self.apply_gate("IDEN", 0)\n        if key in store:\n            return store[key].copy()\n        self._maybe_init_storage()\n',
     "expect-fail"),
    # census: a module-level helper outside the hierarchy reaches into the cache
    (GATES, "cache-census-no-access-outside",
     "def rehearsal_dict(tn, tree):", "def _peek(circ):\n    return circ._storage\n\n\ndef rehearsal_dict(tn, tree):", "expect-fail"),
    # leaf summaries
    (CORE, "CircuitBase.clear_storage::cache-leaf-invalidator",
     "        self._storage.clear()\n        self._sampled_conditionals.clear()\n", "        self._storage.clear()\n", "expect-fail"),
    (CORE, "CircuitBase._maybe_init_storage::cache-leaf-validator",
     "        if self._sample_n_gates != self.num_gates:", "        if self._sample_n_gates < self.num_gates - 1:", "expect-fail"),
    (CORE, "CircuitBase.num_gates::cache-leaf-counter",
     "    def num_gates(self):\n        return len(self._gates)", "    def num_gates(self):\n        return len(self._gates) // 2",
     "expect-fail"),
    # benign edits
    (CORE, "CircuitBase._maybe_init_storage::cache-leaf-validator",
     "        # clear/create the cache if circuit has changed\n", "        # (comment changed)\n", "benign"),
    (EXACT, "Circuit.get_psi_simplified::cache-R1",
     '        self._maybe_init_storage()\n\n        key = ("psi_simplified", seq, atol)',
     '        self._maybe_init_storage()\n        self._maybe_init_storage()\n\n        key = ("psi_simplified", seq, atol)', "benign"),
    # FIXES of the two known defects make the failing obligations pass (the rules are not tautologically failing)
    (CORE, "CircuitBase.copy::cache-R4",
     "        new._sample_n_gates = self._sample_n_gates\n", "        new._sample_n_gates = -1\n", "benign"),
    (CORE, "CircuitBase.copy::cache-R",
     "        new._sampled_conditionals = self._sampled_conditionals.copy()\n",
     "        new._sampled_conditionals = self._sampled_conditionals.copy()\n        new._marginal_storage_size = getattr(self, \"_marginal_storage_size\", 0)\n",
     "benign"),
    # (two 'benign' mutants that ADDED the per-shot re-validation were dropped: the repair F14 put it into the source)
    # ------------------------------------------------------------------ E2 gates (provider_gates)
    (GATES, "rx_gate_param_gen::unitary-for-all-params[RX]",
     '        s = do("complex", zero, -do("sin", phi / 2))\n\n        return recursive_stack(((c, s), (s, c)))',
     '        s = do("complex", zero, -do("sin", phi))\n\n        return recursive_stack(((c, s), (s, c)))', "expect-fail"),
    (GATES, "ry_gate_param_gen::unitary-for-all-params[RY]",
     "return recursive_stack(((c, -s), (s, c)))", "return recursive_stack(((c, s), (s, c)))", "expect-fail"),
    (GATES, "u2_gate_param_gen::unitary-for-all-params[U2]",
     "return recursive_stack(((one, c01), (c10, c11))) / 2**0.5", "return recursive_stack(((one, c01), (c10, c11))) / 2",
     "expect-fail"),
    (GATES, "cu2_param_gen::unitary-for-all-params[CU2]",
     "return recursive_stack(((one, c01), (c10, c11))) / 2**0.5", "return recursive_stack(((one, c01), (c10, c11))) / 1.4142",
     "expect-fail"),
    (GATES, "givens_param_gen::unitary-for-all-params[GIVENS]",
     "            (((one, zero), (zero, zero)), ((zero, a), (-b, zero))),\n            (((zero, b), (a, zero)), ((zero, zero), (zero, one))),\n        )\n\n        return recursive_stack(data)\n\n\nregister_param_gate(\"GIVENS\"",
     "            (((one, zero), (zero, zero)), ((zero, a), (b, zero))),\n            (((zero, b), (a, zero)), ((zero, zero), (zero, one))),\n        )\n\n        return recursive_stack(data)\n\n\nregister_param_gate(\"GIVENS\"",
     "expect-fail"),
    (GATES, "fsim_param_gen::matches-textbook-definition[FSIM]",
     '        c = do("exp", do("complex", zero, -phi))', '        c = do("exp", do("complex", zero, phi))', "expect-fail"),
    (GATES, "fsim_param_gen::unitary-for-all-params[FSIM]",      # wrong sign of the phase: still unitary
     '        c = do("exp", do("complex", zero, -phi))', '        c = do("exp", do("complex", zero, phi))', "benign"),
    (GATES, "rzz_param_gen::matches-textbook-definition[RZZ]",
     'c00 = c11 = do("complex", do("cos", theta_2), do("sin", -theta_2))', 'c00 = c11 = do("complex", do("cos", theta_2), do("sin", theta_2))',
     "expect-fail"),
    (GATES, "su4_gate_param_gen::matches-textbook-definition[SU4]",
     'TRz1 = Tensor(rz_gate_param_gen(params[12:13]), inds=["a3", "a2"])', 'TRz1 = Tensor(rz_gate_param_gen(params[13:14]), inds=["a3", "a2"])',
     "expect-fail"),
    (GATES, "su4_gate_param_gen::unitary-for-all-params[SU4]",    # a non-unitary factor inside the 15-parameter circuit
     'TRy3 = Tensor(ry_gate_param_gen(params[14:15]), inds=["b5", "b4"])', 'TRy3 = Tensor(2 * ry_gate_param_gen(params[14:15]), inds=["b5", "b4"])',
     "expect-fail"),
    (GATES, "xx_plus_yy_param_gen::matches-textbook-definition[XXPLUSYY]",
     "            (((one, zero), (zero, zero)), ((zero, a), (-1j * b, zero))),\n            (((zero, -1j * b_conj), (a, zero)), ((zero, zero), (zero, one))),",
     "            (((one, zero), (zero, zero)), ((zero, a), (-1j * b_conj, zero))),\n            (((zero, -1j * b), (a, zero)), ((zero, zero), (zero, one))),",
     "expect-fail"),
    (GATES, "CONSTANT_GATES[S]::matches-textbook-definition",
     'register_constant_gate("S", qu.S_gate(), 1)', 'register_constant_gate("S", qu.T_gate(), 1)', "expect-fail"),
    (GATES, "CONSTANT_GATES[H]::unitary-exact",
     'register_constant_gate("H", qu.hadamard(), 1)', 'register_constant_gate("H", qu.hadamard() * 1.0000001, 1)', "expect-fail"),
    (GATES, "CONSTANT_GATES[CX]::matches-textbook-definition",
     'register_constant_gate("CX", qu.cX(), 2)', 'register_constant_gate("CX", qu.swap(2) @ qu.cX() @ qu.swap(2), 2)', "expect-fail"),
    (GATES, "CONSTANT_GATES[SX]::matches-textbook-definition",     # drop the global phase: still unitary, not the textbook SX
     'register_constant_gate("SX", cmath.rect(1, 0.25 * math.pi) * qu.Xsqrt(), 1)', 'register_constant_gate("SX", qu.Xsqrt(), 1)',
     "expect-fail"),
    (GATES, "rx_gate_param_gen::unitary-for-all-params[RX]",      # benign: same value, different spelling
     '        c = do("complex", do("cos", phi / 2), zero)\n        s = do("complex", zero, -do("sin", phi / 2))\n\n        return recursive_stack(((c, s), (s, c)))',
     '        c = do("complex", do("cos", 0.5 * phi), zero)\n        s = do("complex", zero, -do("sin", phi / 2))\n\n        return recursive_stack(((c, s), (s, c)))',
     "benign"),
]


def run_mutant(tmp, relpath, suffix, old, new):
    """'failed' = an obligation whose id contains `suffix` fails on the mutated tree and did not fail on the unchanged
    one; 'discharged' = every obligation whose id contains `suffix` is discharged on the mutated tree"""
    import contracts.c07_circuit as C

    root = os.environ.get("VERIF_REPO", "/repo")
    src = open(os.path.join(root, relpath)).read()
    if src.count(old) < 1:
        return "stale", "old text not found in the current source"
    dst_dir = os.path.join(tmp, _C)
    if os.path.isdir(dst_dir):
        shutil.rmtree(dst_dir)
    shutil.copytree(os.path.join(root, _C), dst_dir, ignore=shutil.ignore_patterns("__pycache__"))
    open(os.path.join(tmp, relpath), "w").write(src.replace(old, new, 1))
    try:
        if relpath == GATES and "cache-" not in suffix:
            names = set(re.findall(r"\[(\w+)\]", suffix))
            base = C.provider_gates(root=root, only_names=names)
            mut = C.provider_gates(root=tmp, only_names=names)
        else:
            base = C.provider_cache(root=root, replays=False)
            mut = C.provider_cache(root=tmp, replays=False)
    finally:
        shutil.rmtree(dst_dir, ignore_errors=True)
    base_failed = {o.id for o in base if o.status == "failed"}
    hit = [o for o in mut if suffix in o.id]
    if not hit:
        return "stale", f"no obligation id contains {suffix!r}"
    newly = [o for o in hit if o.status == "failed" and o.id not in base_failed]
    if newly:
        return "failed", ", ".join(o.id.split("::", 1)[1] for o in newly[:2])
    bad = [o for o in hit if o.status != "discharged"]
    if bad:
        return bad[0].status, f"{bad[0].id.split('::', 1)[1]}: {str(bad[0].detail)[:100]}"
    return "discharged", ""
