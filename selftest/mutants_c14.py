"""deliberate breakages of the real source that the contracts must catch (see vf/selftest.py)"""
MODULES = ['contracts.c14_bp']
MUTANTS = [
    ('quimb/tensor/belief_propagation/bp_common.py', '::combine_local_contractions', '        exponent = exponent + p * _log10(x_mag)', '        exponent = exponent + _log10(x_mag)', 'expect-fail'),
    ('quimb/tensor/belief_propagation/bp_common.py', '::combine_local_contractions', '        mantissa = mantissa * x_phase**p', '        mantissa = mantissa * x_phase', 'expect-fail'),
    ('quimb/tensor/belief_propagation/bp_common.py', '::combine_local_contractions', '        exponent = exponent * power', '        exponent = exponent', 'expect-fail'),
    ('quimb/tensor/belief_propagation/bp_common.py', '::combine_local_contractions', '        mantissa = mantissa**power', '        mantissa = mantissa', 'expect-fail'),
    ('quimb/tensor/belief_propagation/bp_common.py', '::combine_local_contractions', '        return mantissa * 10**exponent', '        return mantissa', 'expect-fail'),
    ('quimb/tensor/belief_propagation/bp_common.py', '::combine_local_contractions', '                return 0.0, 0.0\n            else:\n                return 0.0', '                return 0.0\n            else:\n                return 0.0', 'expect-fail'),
    ('quimb/tensor/belief_propagation/bp_common.py', '::combine_local_contractions', '        if check_zero and (x_mag == 0.0):', '        if check_zero and (x_mag != 0.0):', 'expect-fail'),
    ('quimb/tensor/belief_propagation/bp_common.py', '::combine_local_contractions', '        exponent = 0.0\n', '        exponent = 1.0\n', 'expect-fail'),
]
