"""C14 extension mutants: deliberate breakages of quimb/tensor/belief_propagation/*.py on a scratch copy; every one must
flip a NAMED provider obligation of contracts/c14_ext.py (function_suffix = substring of the obligation id) from discharged
to failed; 'benign' entries must leave the named obligation(s) discharged.

   ./check selftest c14x
"""
import os
import shutil

MODULES = ["contracts.c14_ext"]
_BP = "quimb/tensor/belief_propagation"
COMMON, D1, D2, L1, L2, HD1 = (f"{_BP}/{n}.py" for n in ("bp_common", "d1bp", "d2bp", "l1bp", "l2bp", "hd1bp"))

MUTANTS = [
    # ------------------------------------------------------------------ L2BP.contract
    # the seeded regression: sites without neighbours silently dropped
    (L2, "L2BP.contract::tensor-term-exactly-once",
     "            ks = self.neighbors.get(i, ())\n            bix = [ix for k in ks",
     "            if i not in self.neighbors:\n                continue\n            ks = self.neighbors.get(i, ())\n            bix = [ix for k in ks",
     "expect-fail"),
    (L2, "L2BP.contract::one-loop-per-region-kind",
     "        zvals = []\n        for i, ket in self.local_tns.items():\n            # we allow missing keys",
     "        zvals = []\n        for i, ket in ((i, self.local_tns[i]) for i in self.neighbors):\n            # we allow missing keys",
     "expect-fail"),
    (L2, "L2BP.contract::bond-term-exactly-once",
     "            # power / counting factor is -1 for messages, i.e. divide\n            zvals.append((z, -1))",
     "            # power / counting factor is -1 for messages, i.e. divide\n            zvals.append((z, 1))", "expect-fail"),
    (L2, "L2BP.contract::bond-term-messages-read",
     "            z = (self.messages[i, j] & self.messages[j, i]).contract(",
     "            z = (self.messages[i, j] & self.messages[i, j]).contract(", "expect-fail"),
    (L2, "L2BP.contract::threading-to-combiner",
     "            mantissa=self.sign**2,\n            exponent=self.exponent * 2,\n            **kwargs,\n        )\n\n    def partial_trace",
     "            mantissa=self.sign**2,\n            exponent=self.exponent,\n            **kwargs,\n        )\n\n    def partial_trace",
     "expect-fail"),
    (L2, "L2BP.contract::",
     "            # power / counting factor is -1 for messages, i.e. divide\n", "            # divide by the bond value\n", "benign"),
    # ------------------------------------------------------------------ L1BP.contract
    (L1, "L1BP.contract::tensor-term-exactly-once",
     "                # site exists but has no neighbors\n                tval = tn_ic.contract(",
     "                # site exists but has no neighbors\n                continue\n                tval = tn_ic.contract(",
     "expect-fail"),
    (L1, "L1BP.contract::one-loop-per-region-kind",
     "        for i, j in self.edges:\n            mval = qtn.tensor_contract(",
     "        for i, j in self.messages:\n            mval = qtn.tensor_contract(", "expect-fail"),
    (L1, "L1BP.contract::threading-to-combiner",
     "            check_zero=check_zero,\n            mantissa=self.sign,\n            exponent=self.exponent,\n            **kwargs,\n        )\n\n    def normalize_message_pairs",
     "            check_zero=True,\n            mantissa=self.sign,\n            exponent=self.exponent,\n            **kwargs,\n        )\n\n    def normalize_message_pairs",
     "expect-fail"),
    (L1, "L1BP.contract::tensor-term-messages-read",
     "                    *(self.messages[k, site] for k in self.neighbors[site]),\n                    optimize=self.optimize,\n                    **self.contract_opts,\n                )\n            else:",
     "                    *(self.messages[site, k] for k in self.neighbors[site]),\n                    optimize=self.optimize,\n                    **self.contract_opts,\n                )\n            else:",
     "expect-fail"),
    # ------------------------------------------------------------------ D1BP.contract
    (D1, "D1BP.contract::tensor-term-exactly-once",
     "(self.local_tensor_contract(tid), 1) for tid in self.tn.tensor_map\n        ] + [(self.local_message_contract(ix), -1)",
     "(self.local_tensor_contract(tid), 2) for tid in self.tn.tensor_map\n        ] + [(self.local_message_contract(ix), -1)",
     "expect-fail"),
    (D1, "D1BP.contract::one-loop-per-region-kind",
     "        ] + [(self.local_message_contract(ix), -1) for ix in self.tn.ind_map]\n\n        return combine_local_contractions(",
     "        ]\n\n        return combine_local_contractions(", "expect-fail"),
    (D1, "D1BP.contract::threading-to-combiner",
     "            mantissa=self.sign,\n            exponent=self.exponent,\n            **kwargs,\n        )\n\n    def contract_with_loops",
     "            mantissa=self.sign,\n            **kwargs,\n        )\n\n    def contract_with_loops", "expect-fail"),
    (D1, "D1BP.contract::bond-term-value",
     "        ] + [(self.local_message_contract(ix), -1) for ix in self.tn.ind_map]\n\n        return combine_local_contractions(",
     "        ] + [(self.local_tensor_contract(ix), -1) for ix in self.tn.ind_map]\n\n        return combine_local_contractions(",
     "expect-fail"),
    # ------------------------------------------------------------------ D2BP.contract
    (D2, "D2BP.contract::bond-term-messages-read",
     "            ml = self.messages[ix, tidb]\n            mr = self.messages[ix, tida]\n            mval = qtn.array_contract(",
     "            ml = self.messages[ix, tidb]\n            mr = self.messages[ix, tidb]\n            mval = qtn.array_contract(",
     "expect-fail"),
    (D2, "D2BP.contract::bond-term-exactly-once",
     "            # counting factor is -1 i.e. divide by the message\n            zvals.append((mval, -1))",
     "            # counting factor is -1 i.e. divide by the message\n            zvals.append((mval, -2))", "expect-fail"),
    (D2, "D2BP.contract::tensor-term-exactly-once",
     "            tval = self.local_tensor_contract(tid)\n            zvals.append((tval, 1))\n\n        for ix, tids in self.tn.ind_map.items():\n            if ix in self.output_inds:",
     "            tval = self.local_tensor_contract(tid)\n            if len(self.tn.tensor_map[tid].inds) > 0:\n                zvals.append((tval, 1))\n\n        for ix, tids in self.tn.ind_map.items():\n            if ix in self.output_inds:",
     "expect-fail"),
    (D2, "D2BP.contract::threading-to-combiner",
     "            mantissa=self.sign**2,\n            exponent=self.exponent * 2,\n            **kwargs,\n        )\n\n    def get_cluster_excited",
     "            mantissa=self.sign,\n            exponent=self.exponent * 2,\n            **kwargs,\n        )\n\n    def get_cluster_excited",
     "expect-fail"),
    # ------------------------------------------------------------------ contract_hyper_messages / HD1BP.contract
    (COMMON, "contract_hyper_messages::factor-term-exactly-once",
     "            zvals.append((z, -1))\n\n        # local factor free entropy", "            zvals.append((z, 1))\n\n        # local factor free entropy",
     "expect-fail"),
    (COMMON, "contract_hyper_messages::factor-term-messages-read",
     "                (messages[tid, ix], messages[ix, tid]),", "                (messages[ix, tid], messages[ix, tid]),", "expect-fail"),
    (COMMON, "contract_hyper_messages::variable-term-exactly-once",
     "        # local variable free entropy\n        z = array_contract(arrays, inputs, output=())\n        zvals.append((z, 1))",
     "        # local variable free entropy\n        z = array_contract(arrays, inputs, output=())\n        if len(tids) > 1:\n            zvals.append((z, 1))",
     "expect-fail"),
    (COMMON, "contract_hyper_messages::threading-to-combiner",
     "        mantissa=mantissa,\n        exponent=exponent,\n    )\n\n\ndef compute_index_marginal",
     "        mantissa=mantissa,\n    )\n\n\ndef compute_index_marginal", "expect-fail"),
    (COMMON, "contract_hyper_messages::", "        # local factor free entropy\n", "        # local factor term\n", "benign"),
    (HD1, "HD1BP.contract::threading-to-combiner",
     "            check_zero=check_zero,\n            mantissa=self.sign,\n            exponent=self.exponent,\n        )",
     "            check_zero=check_zero,\n            mantissa=None,\n            exponent=self.exponent,\n        )", "expect-fail"),
    (HD1, "HD1BP.contract::threading-to-combiner",
     "            strip_exponent=strip_exponent,\n            check_zero=check_zero,\n            mantissa=self.sign,\n            exponent=self.exponent,\n        )",
     "            strip_exponent=strip_exponent,\n            check_zero=False,\n            mantissa=self.sign,\n            exponent=self.exponent,\n        )",
     "expect-fail"),
    (HD1, "HD1BP.contract::threading-to-combiner",
     "        return contract_hyper_messages(\n            self.tn,\n            self.messages,\n            backend=self.backend,\n            strip_exponent=strip_exponent,",
     "        return contract_hyper_messages(\n            self.tn,\n            self.messages,\n            backend=self.backend,\n            strip_exponent=False,",
     "expect-fail"),
    # ------------------------------------------------------------------ normalize_message_pair
    (COMMON, "normalize_message_pair::overlap-is-one", "    nij = aij**0.5\n", "    nij = aij\n", "expect-fail"),
    (COMMON, "normalize_message_pair::equal-self-overlaps", "    njj = (mj @ mj) ** 0.25\n", "    njj = (mj @ mj) ** 0.5\n", "expect-fail"),
    (COMMON, "normalize_message_pair::overlap-is-one", "    mi = mi / (oij / aij)\n", "    mi = mi / oij\n", "expect-fail"),
    (COMMON, "normalize_message_pair::each-message-only-rescaled",
     "    return mi / (nij * nii / njj), mj / (nij * njj / nii)", "    return mj / (nij * njj / nii), mi / (nij * nii / njj)", "expect-fail"),
    (COMMON, "normalize_message_pair::",
     "    return mi / (nij * nii / njj), mj / (nij * njj / nii)", "    return mi / (nii * nij / njj), mj / (njj * nij / nii)", "benign"),
    # ------------------------------------------------------------------ damping setter
    (COMMON, "BeliefPropagationCommon.damping::damped-update-is-convex-mix",
     "                    return damping * old + (1 - damping) * new", "                    return damping * new + (1 - damping) * old",
     "expect-fail"),
    (COMMON, "BeliefPropagationCommon.damping::zero-damping-returns-new-message",
     "                def _damping_fn(old, new):\n                    return new\n", "                def _damping_fn(old, new):\n                    return old\n",
     "expect-fail"),
    (COMMON, "BeliefPropagationCommon.damping::damped-update-is-convex-mix",
     "            self._damping = damping\n\n            if damping == 0.0:", "            self._damping = 1 - damping\n\n            if damping == 0.0:",
     "expect-fail"),
    (COMMON, "BeliefPropagationCommon.damping::callable-damping-threaded",
     "            self._damping_fn = self._damping = damping", "            self._damping_fn = self._damping = (lambda old, new: new)",
     "expect-fail"),
    # ------------------------------------------------------------------ 1-norm index marginals
    (COMMON, "compute_index_marginal::normalised-product",
     "    m = prod(messages[tid, ind] for tid in tn.ind_map[ind])", "    m = prod(messages[ind, tid] for tid in tn.ind_map[ind])", "expect-fail"),
    (COMMON, "compute_index_marginal::normalised-product",
     "    m = prod(messages[tid, ind] for tid in tn.ind_map[ind])\n    return m / ar.do(\"sum\", m)",
     "    m = prod(messages[tid, ind] for tid in tn.ind_map[ind])\n    return m", "expect-fail"),
    (COMMON, "compute_index_marginal::normalised-product",
     "    m = prod(messages[tid, ind] for tid in tn.ind_map[ind])", "    m = prod(messages[tid, ind] for tid in tn.ind_map[ind][:1])", "expect-fail"),
    (COMMON, "compute_all_index_marginals_from_messages::every-index",
     "    return {ix: compute_index_marginal(tn, ix, messages) for ix in tn.ind_map}",
     "    return {ix: compute_index_marginal(tn, ix, messages) for ix in list(tn.ind_map)[:1]}", "expect-fail"),
    (COMMON, "compute_all_index_marginals_from_messages::every-index",
     "    return {ix: compute_index_marginal(tn, ix, messages) for ix in tn.ind_map}",
     "    return {ix: compute_index_marginal(tn, next(iter(tn.ind_map)), messages) for ix in tn.ind_map}", "expect-fail"),
    (COMMON, "compute_all_index_marginals_from_messages::every-index",
     "    return {ix: compute_index_marginal(tn, ix, messages) for ix in tn.ind_map}",
     "    return {ix + '_': compute_index_marginal(tn, ix, messages) for ix in tn.ind_map}", "expect-fail"),
    # ------------------------------------------------------------------ D2BP.compute_marginal
    # the seeded regression: message transposed (wrong for complex data only)
    (D2, "D2BP.compute_marginal::message-legs-bra-then-ket",
     "                    m_inputs.append((-j, j))", "                    m_inputs.append((j, -j))", "expect-fail"),
    (D2, "D2BP.compute_marginal::incoming-message-of-each-bond",
     "                    m = self.messages[jx, tid]\n                    arrays.append(m)\n                    b_input.append(-j)",
     "                    m = self.messages[tid, jx]\n                    arrays.append(m)\n                    b_input.append(-j)", "expect-fail"),
    (D2, "D2BP.compute_marginal::ket-and-conjugated-bra",
     "        arrays = [t.data, ar.do(\"conj\", t.data)]\n        k_input = []\n        b_input = []\n        m_inputs = []\n        for j, jx in enumerate(t.inds, 1):",
     "        arrays = [t.data, t.data]\n        k_input = []\n        b_input = []\n        m_inputs = []\n        for j, jx in enumerate(t.inds, 1):",
     "expect-fail"),
    (D2, "D2BP.compute_marginal::real-part-normalised-to-one",
     "        p = ar.do(\"real\", p)\n        return p / ar.do(\"sum\", p)", "        p = ar.do(\"real\", p)\n        return p", "expect-fail"),
    (D2, "D2BP.compute_marginal::diagonal-on-output-trace-on-dangling",
     "                except KeyError:\n                    # direct partial trace\n                    b_input.append(j)",
     "                except KeyError:\n                    # direct partial trace\n                    b_input.append(-j)", "expect-fail"),
    (D2, "D2BP.compute_marginal::", "                # output index -> take diagonal\n", "                # output index: diagonal\n", "benign"),
    # ------------------------------------------------------------------ E1: BeliefPropagationCommon.run
    (COMMON, "::BeliefPropagationCommon.run", "        while not self.converged and it < max_iterations:",
     "        while not self.converged and it <= max_iterations:", "expect-fail"),
    (COMMON, "::BeliefPropagationCommon.run", "            self.converged |= max_mdiff < tol_abs", "            self.converged |= max_mdiff < tol",
     "expect-fail"),
    (COMMON, "::BeliefPropagationCommon.run", "            result = self.iterate(tol=tol)", "            result = self.iterate()", "expect-fail"),
    (COMMON, "::BeliefPropagationCommon.run", "                self.converged |= amd < tol_rolling_diff",
     "                self.converged = amd < tol_rolling_diff", "expect-fail"),
    (COMMON, "::BeliefPropagationCommon.run", "            it += 1\n            self.n += 1", "            it += 1\n            self.n += 2", "expect-fail"),
    (COMMON, "::BeliefPropagationCommon.run", '            info["iterations"] = it', '            info["iterations"] = it - 1', "expect-fail"),
    (COMMON, "::BeliefPropagationCommon.run", "        if tol != 0.0 and not self.converged:", "        if not self.converged:", "expect-fail"),
    (COMMON, "::BeliefPropagationCommon.run", "        self.converged = False\n        while not self.converged",
     "        while not self.converged", "expect-fail"),
    (COMMON, "::BeliefPropagationCommon.run", "            self.mdiffs.append(max_mdiff)", "            self.mdiffs.append(tol)", "expect-fail"),
    (COMMON, "::BeliefPropagationCommon.run", "        it = 0\n        rdm = RollingDiffMean()", "        rdm = RollingDiffMean()\n        it = 0", "benign"),
]


def run_mutant(tmp, relpath, suffix, old, new):
    """'failed' = an obligation whose id contains `suffix` fails on the mutated tree; 'discharged' = every obligation whose
    id contains `suffix` is discharged on the mutated tree"""
    import contracts.c14_ext as C

    if suffix.startswith("::"):  # an E1 contract: the engine re-verifies the mutated source
        from vf.selftest import run_e1_mutant
        return run_e1_mutant(tmp, relpath, suffix, old, new)
    root = os.environ.get("VERIF_REPO", "/repo")
    src = open(os.path.join(root, relpath)).read()
    if src.count(old) < 1:
        return "stale", "old text not found in the current source"
    dst_dir = os.path.join(tmp, _BP)
    if os.path.isdir(dst_dir):
        shutil.rmtree(dst_dir)
    shutil.copytree(os.path.join(root, _BP), dst_dir, ignore=shutil.ignore_patterns("__pycache__"))
    open(os.path.join(tmp, relpath), "w").write(src.replace(old, new, 1))
    try:
        mut = C.counting_obligations(tmp)
        if not any(suffix in o.id for o in mut):
            mut = C.algebra_obligations(tmp)
    finally:
        shutil.rmtree(dst_dir, ignore_errors=True)
    hit = [o for o in mut if suffix in o.id]
    if not hit:
        return "stale", f"no obligation id contains {suffix!r}"
    failed = [o for o in hit if o.status == "failed"]
    if failed:
        return "failed", ", ".join(o.id.split("::", 1)[1] for o in failed[:2])
    bad = [o for o in hit if o.status != "discharged"]
    if bad:
        return bad[0].status, f"{bad[0].id.split('::', 1)[1]}: {str(bad[0].detail)[:100]}"
    return "discharged", ""
