"""deliberate breakages of the remaining C08 carriers (contracts/c08_more.py): every behaviour-changing mutant must turn a
named obligation from discharged to failed; the first three are the reverts of the F09 fix (records updated for copies
the caller does not keep).

Runner: the scratch tree gets UNCHANGED copies of the other two carrier files (callee contracts read their signatures
from there).  `measure` carries failing obligations on the unchanged tree (known finding C08-d, site = L-1 with
remove=True) and compute_local_expectation_canonical too (C08-f, int keys): only obligations that fail IN ADDITION to the
unchanged tree's set of (case, clause) pairs count as `caught`.  A function_suffix may carry "@<substring>" to run the
mutant on the cases whose name contains the substring (cost); the solver timeout is reduced for mutants (an obligation
that cannot be decided quickly is never counted as caught)."""
import os
import re

MODULES = ["contracts.c08_mps", "contracts.c08_more"]
T = "quimb/tensor/tn1d/core.py"
C = "quimb/tensor/circuit/mps.py"
CC = "quimb/tensor/circuit/core.py"
FILES = (T, C, CC)

MEAS = "MatrixProductState.measure@info=pair,outcome=None"
SCONF = "MatrixProductState.sample_configuration"
SAMP = "MatrixProductState.sample"
CLEC = "MatrixProductState.compute_local_expectation_canonical@where=pair"
LEC = "MatrixProductState.local_expectation_canonical"
AUTO = "MatrixProductState.gate_with_auto_swap@info=pair"
GSPLIT = "MatrixProductState.gate_split"
SUBMPO = "MatrixProductState.gate_with_submpo@info=pair"
NONLOC = "MatrixProductState.gate_nonlocal@info=pair"
GTN = "::gate_TN_1D@info=pair"
VGATE = "TensorNetwork1DVector.gate@info=pair"

_GS_CALL = '            G, (ix_i, ix_j), contract="split", inplace=inplace, **compress_opts\n        )\n\n    gate_split_'
_LEC_COMP = "                normalized=normalized,\n                info=info,\n                **contract_opts,\n            )\n            for where, G in terms"

MUTANTS = [
    # ---- the three reverts of fix F09 (record moved for a copy the caller does not keep)
    (T, MEAS, '        if (get == "outcome") and (not inplace) and (info is not None):\n            # only the outcome is returned, so the record must keep\n'
              '            # describing ``self``, not the copy that is canonicalized\n            info = info.copy()\n\n', '', "expect-fail"),
    (T, SCONF, "        if info is not None:\n            # a copy is canonicalized, so the record of ``self`` is only read\n            info = info.copy()\n\n", "", "expect-fail"),
    (T, SAMP, "        info = {} if info is None else info.copy()\n", "        info = {} if info is None else info\n", "expect-fail"),
    # ---- measure
    (T, MEAS, "        tn.canonicalize_(site, info=info)\n\n        # local tensor and physical dim", "        tn.canonicalize_(site)\n\n        # local tensor and physical dim", "expect-fail"),
    (T, MEAS, "        tn = self if inplace else self.copy()\n        L = tn.L\n        d = self.phys_dim(site)", "        tn = self\n        L = tn.L\n        d = self.phys_dim(site)", "expect-fail"),
    (T, MEAS, "                tn ^= slice(site, site + 2)", "                tn ^= slice(site + 1, site + 3)", "expect-fail"),
    (T, MEAS, "            for i in range(site + 1, L):\n                tn[i].reindex_", "            for i in range(site + 2, L):\n                tn[i].reindex_", "expect-fail"),
    (T, MEAS, "            for i in range(site + 1, L):\n                tn[i].reindex_", "            for i in range(site + 1, L - 1):\n                tn[i].reindex_", "expect-fail"),
    (T, MEAS, "            tn._L = L - 1\n", "            pass\n", "expect-fail"),
    (T, MEAS, "                tn[i].retag_({tn.site_tag(i): tn.site_tag(i - 1)})", "                tn[i].retag_({tn.site_tag(i): tn.site_tag(i + 1)})", "expect-fail"),
    (T, MEAS, "        t = tn[site]\n        ind = tn.site_ind(site)", "        t = tn[site - 1]\n        ind = tn.site_ind(site)", "expect-fail"),
    (T, MEAS, '        if get == "outcome":\n            return outcome\n\n        # project', '        if get == "outcome":\n            return outcome, tn\n\n        # project', "expect-fail"),
    # ---- sample_configuration
    (T, SCONF, "        psi = self.canonicalize(0, info=info)\n\n        config = []", "        psi = self.canonicalize_(0, info=info)\n\n        config = []", "expect-fail"),
    (T, SCONF, "        psi = self.canonicalize(0, info=info)\n\n        config = []", "        psi = self.canonicalize(self.L - 1, info=info)\n\n        config = []", "expect-fail"),
    (T, SCONF, "            if i < psi.L - 1:\n                # and absorb", "            if i < psi.L - 2:\n                # and absorb", "expect-fail"),
    (T, SCONF, "                psi.contract_tags_([psi.site_tag(i), psi.site_tag(i + 1)])", "                psi.contract_tags_([psi.site_tag(i + 1), psi.site_tag(i + 2)])", "expect-fail"),
    (T, SCONF, "            # form local density matrix\n            ki = psi[i]", "            # form local density matrix\n            ki = self[i]", "expect-fail"),
    # ---- sample
    (T, SAMP, "        psi0 = self.canonicalize(0, info=info)\n\n        if backend_random is None:", "        psi0 = self.canonicalize_(0, info=info)\n\n        if backend_random is None:", "expect-fail"),
    (T, SAMP, "            yield psi0.sample_configuration(\n                seed=rng,\n                info=info,", '            yield psi0.sample_configuration(\n                seed=rng,\n                info={"cur_orthog": (psi0.L - 1, psi0.L - 1)},', "expect-fail"),
    (T, SAMP, "            yield psi0.sample_configuration(", "            yield self.sample_configuration(", "expect-fail"),
    # ---- compute_local_expectation_canonical / local_expectation_canonical
    (T, CLEC, "            mps = self.copy()\n            info = info.copy()\n", "            mps = self.copy()\n", "expect-fail"),
    (T, CLEC, "            mps = self.copy()\n            info = info.copy()\n", "            mps = self\n            info = info.copy()\n", "expect-fail"),
    (T, CLEC, "        if inplace:\n            mps = self\n        else:", "        if not inplace:\n            mps = self\n        else:", "expect-fail"),
    (T, CLEC, _LEC_COMP, _LEC_COMP.replace("                info=info,\n", ""), "expect-fail"),
    (T, CLEC, _LEC_COMP, _LEC_COMP.replace("info=info", "info=dict(info)"), "expect-fail"),
    (T, LEC, '            where, normalized=normalized, info=info, **contract_opts\n        )\n        return do("trace", G @ rho)', '            where, normalized=normalized, **contract_opts\n        )\n        return do("trace", G @ rho)', "expect-fail"),
    (T, LEC, '        rho = self.partial_trace_to_dense_canonical(\n            where, normalized=normalized, info=info, **contract_opts\n        )\n        return do("trace", G @ rho)',
     '        rho = self.partial_trace_to_dense_canonical(\n            0, normalized=normalized, info=info, **contract_opts\n        )\n        return do("trace", G @ rho)', "expect-fail"),
    (T, LEC, '            where, normalized=normalized, info=info, **contract_opts\n        )\n        return do("trace", G @ rho)', '            where, normalized=normalized, info=dict(info or {}), **contract_opts\n        )\n        return do("trace", G @ rho)', "expect-fail"),
    # ---- gate_split (leaf: gate_inds(contract="split"))
    (T, GSPLIT, _GS_CALL, _GS_CALL.replace("(ix_i, ix_j)", "(ix_j, ix_i)"), "expect-fail"),
    (T, GSPLIT, _GS_CALL, _GS_CALL.replace("inplace=inplace", "inplace=True"), "expect-fail"),
    (T, GSPLIT, _GS_CALL, _GS_CALL.replace(", **compress_opts", ""), "expect-fail"),
    (T, GSPLIT, _GS_CALL, _GS_CALL.replace(" inplace=inplace,", ""), "expect-fail"),
    # ---- gate_with_auto_swap
    (T, AUTO, '            final_gate_where = (i + 1, i)\n            absorb = "left"', '            final_gate_where = (i + 1, i)\n            absorb = "right"', "expect-fail"),
    (T, AUTO, '            final_gate_where = (i, i + 1)\n            absorb = "right"', '            final_gate_where = (i, i + 1)\n            absorb = "left"', "expect-fail"),
    (T, AUTO, '        info["cur_orthog"] = (i + 1, i + 1)\n\n        if need_to_swap and swap_back:', '        info["cur_orthog"] = (i, i)\n\n        if need_to_swap and swap_back:', "expect-fail"),
    (T, AUTO, "        mps.canonicalize_((i, i + 1), info=info)\n\n        # apply gate", "        mps.canonicalize_((i, j), info=info)\n\n        # apply gate", "expect-fail"),
    (T, AUTO, "            mps.swap_site_to(\n                i + 1, j, info=info, inplace=True, **compress_opts\n            )\n\n        return mps", "            mps.swap_site_to(\n                i + 1, j, inplace=True, **compress_opts\n            )\n\n        return mps", "expect-fail"),
    (T, AUTO, "            mps.swap_site_to(\n                j, i + 1, info=info, inplace=True, **compress_opts\n            )", "            mps.swap_site_to(\n                j, i + 1, info=info, inplace=False, **compress_opts\n            )", "expect-fail"),
    (T, AUTO, "        mps = self if inplace else self.copy()\n\n        i, j = where\n", "        mps = self\n\n        i, j = where\n", "expect-fail"),
    # without info= canonicalize_ recomputes the centre ('calc') and the record is overwritten right after: same behaviour
    (T, AUTO, "        mps.canonicalize_((i, i + 1), info=info)\n\n        # apply gate", "        mps.canonicalize_((i, i + 1))\n\n        # apply gate", "benign"),
    # gate on the wrong sites, but the record written is still true for the state produced (C06 matter, not C08)
    (T, AUTO, "        need_to_swap = i + 1 != j", "        need_to_swap = False", "benign"),
    # ---- gate_with_submpo
    (T, SUBMPO, '        if compress_opts.get("sweep_reverse", False):\n            info["cur_orthog"] = (sf, sf)\n        else:\n            info["cur_orthog"] = (si, si)',
     '        if compress_opts.get("sweep_reverse", False):\n            info["cur_orthog"] = (si, si)\n        else:\n            info["cur_orthog"] = (sf, sf)', "expect-fail"),
    (T, SUBMPO, "            psi.canonicalize_((si, sf), info=info)\n", "            psi.canonicalize_((si, si), info=info)\n", "expect-fail"),
    (T, SUBMPO, "            psi.canonicalize_((si, sf), info=info)\n", "            pass\n", "expect-fail"),
    (T, SUBMPO, "        sub_site_tags = [psi.site_tag(s) for s in range(si, sf + 1)]", "        sub_site_tags = [psi.site_tag(s) for s in range(si, sf)]", "expect-fail"),
    (T, SUBMPO, "        # recombine the compressed sub region TN\n        psi |= subpsi\n", "        # recombine the compressed sub region TN\n", "expect-fail"),
    (T, SUBMPO, "        psi = self if inplace else self.copy()\n\n        # get the span of sites the sub-MPO acts on", "        psi = self\n\n        # get the span of sites the sub-MPO acts on", "expect-fail"),
    (T, SUBMPO, "            si, sf = min(where), max(where)\n", "            si, sf = min(where), min(where)\n", "expect-fail"),
    # ---- gate_nonlocal
    (T, NONLOC, "            transpose=transpose,\n            info=info,\n            inplace=inplace,\n            inplace_mpo=True,", "            transpose=transpose,\n            inplace=inplace,\n            inplace_mpo=True,", "expect-fail"),
    (T, NONLOC, "            transpose=transpose,\n            info=info,\n            inplace=inplace,\n            inplace_mpo=True,", "            transpose=transpose,\n            info=info,\n            inplace_mpo=True,", "expect-fail"),
    (T, NONLOC, "            inplace_mpo=True,\n            **compress_opts,\n        )\n\n    gate_nonlocal_", "            inplace_mpo=True,\n        )\n\n    gate_nonlocal_", "expect-fail"),
    (T, NONLOC, "            G, dims=dims, sites=where, L=self.L\n", "            G, dims=dims, sites=where[:1], L=self.L\n", "expect-fail"),
    (T, NONLOC, "            mpo,\n            where=where,\n            method=method,", "            mpo,\n            where=where,\n            method=\"direct\",", "expect-fail"),
    # ---- gate_TN_1D / TensorNetwork1DVector.gate
    (T, GTN, '        elif ng == 2:\n            contract = "swap+split"', '        elif ng == 2:\n            contract = True', "expect-fail"),
    (T, GTN, "            return tn.gate_with_auto_swap(\n                G,\n                where,\n                cur_orthog=cur_orthog,\n                info=info,\n                inplace=inplace,",
     "            return tn.gate_with_auto_swap(\n                G,\n                where,\n                cur_orthog=cur_orthog,\n                inplace=inplace,", "expect-fail"),
    (T, GTN, "            return tn.gate_nonlocal(\n                G,\n                where,\n                cur_orthog=cur_orthog,\n                info=info,\n                inplace=inplace,",
     "            return tn.gate_nonlocal(\n                G,\n                where,\n                cur_orthog=cur_orthog,\n                info=info,\n                inplace=True,", "expect-fail"),
    (T, GTN, "        propagate_tags=propagate_tags,\n        info=info,\n        inplace=inplace,\n        **compress_opts,\n    )\n\n\ndef superop_TN_1D", "        propagate_tags=propagate_tags,\n        info=info,\n        **compress_opts,\n    )\n\n\ndef superop_TN_1D", "expect-fail"),
    (T, VGATE, "        return gate_TN_1D(self, *args, inplace=inplace, **kwargs)", "        return gate_TN_1D(self, *args, **kwargs)", "expect-fail"),
    (T, VGATE, "        return gate_TN_1D(self, *args, inplace=inplace, **kwargs)", "        return gate_TN_1D(self.copy(), *args, inplace=inplace, **kwargs)", "expect-fail"),
    (T, VGATE, "        return gate_TN_1D(self, *args, inplace=inplace, **kwargs)", "        return gate_TN_1D(self, *args, inplace=inplace)", "expect-fail"),
]


def run_mutant(tmp, relpath, suffix, old, new):
    from vf import pyvc
    suffix, _, sel = suffix.partition("@")
    src = open(os.path.join("/repo", relpath)).read()
    if src.count(old) < 1:
        return "stale", "old text not found in the current source"
    cons = [v for k, v in pyvc.REGISTRY.items() if k.endswith(suffix)]
    if not cons:
        return "stale", f"no contract registered for {suffix}"
    con = cons[0]
    all_cases = con.cases()
    orig_discharge, orig_cases = pyvc.discharge, con.cases

    def norm(rep):
        # (case, label) with line numbers and the path signature removed: a mutant is caught only by a clause that
        # does not fail on the unchanged tree in the same case
        return {re.sub(r"@\d+", "@L", o.oid).split("#")[0] for o in rep.failed}

    try:
        con.cases = lambda: [c for c in all_cases if all(s in c.name for s in sel.split(",") if s)]
        pyvc.discharge = lambda ob, **kw: orig_discharge(ob, timeout_ms=3000, portfolio=False)
        key = (suffix, sel)
        if key not in _BASE:
            pyvc.REPO = "/repo"
            pyvc._SRC_CACHE.clear()
            _BASE[key] = norm(pyvc.verify(con))
        for other in FILES:
            od = os.path.join(tmp, other)
            os.makedirs(os.path.dirname(od), exist_ok=True)
            open(od, "w").write(open(os.path.join("/repo", other)).read())
        open(os.path.join(tmp, relpath), "w").write(src.replace(old, new, 1))
        pyvc.REPO = tmp
        pyvc._SRC_CACHE.clear()
        rep = pyvc.verify(con)
    finally:
        pyvc.REPO = "/repo"
        pyvc._SRC_CACHE.clear()
        pyvc.discharge, con.cases = orig_discharge, orig_cases
        for other in FILES:
            try:
                os.remove(os.path.join(tmp, other))
            except OSError:
                pass
    extra = norm(rep) - _BASE[key]
    if extra:
        return "failed", ", ".join(sorted({o.split("::")[-1].split("#")[0] for o in extra})[:3])
    if rep.status != "ok":
        return rep.status, rep.detail[:120]
    if rep.unknown:
        return "unknown", f"{len(rep.unknown)} undecided"
    return "discharged", ""


_BASE = {}
