"""deliberate breakages of the remaining C08 carriers (contracts/c08_more.py): every behaviour-changing mutant must turn a
named obligation from discharged to failed; the first three are the reverts of the F09 fix (records updated for copies
the caller does not keep).

Runner: the scratch tree gets UNCHANGED copies of the other two carrier files (callee contracts read their signatures
from there).  `measure` carries failing obligations on the unchanged tree (known finding C08-d, site = L-1 with
remove=True) and compute_local_expectation_canonical too (C08-f, int keys): only obligations that fail IN ADDITION to the
unchanged tree's set of (case, clause) pairs count as `caught`.  A function_suffix may carry "@<substring>" to run the
mutant on the cases whose name contains the substring (cost); the solver timeout is reduced for mutants (an obligation
that cannot be decided quickly is never counted as caught)."""
import os
import re

MODULES = ["contracts.c08_mps", "contracts.c08_more"]
T = "quimb/tensor/tn1d/core.py"
C = "quimb/tensor/circuit/mps.py"
CC = "quimb/tensor/circuit/core.py"
G = "quimb/tensor/circuit/gates.py"
FILES = (T, C, CC, G)

MEAS = "MatrixProductState.measure@info=pair,outcome=None"
SCONF = "MatrixProductState.sample_configuration"
SAMP = "MatrixProductState.sample"
CLEC = "MatrixProductState.compute_local_expectation_canonical@where=pair"
LEC = "MatrixProductState.local_expectation_canonical"
AUTO = "MatrixProductState.gate_with_auto_swap@inplace=True,info=pair,swap_back=False,where=pair"
AUTO_SB = "MatrixProductState.gate_with_auto_swap@inplace=True,info=pair,swap_back=True,where=pair"
AUTO_NIP = "MatrixProductState.gate_with_auto_swap@inplace=False,info=pair,swap_back=False,where=pair"
GSPLIT = "MatrixProductState.gate_split"
SUBMPO = "MatrixProductState.gate_with_submpo@inplace=True,info=pair,method=direct,where=pair"
SUBMPO_NIP = "MatrixProductState.gate_with_submpo@inplace=False,info=pair,method=direct,sweep_reverse=absent,where=pair"
NONLOC = "MatrixProductState.gate_nonlocal@info=pair"
GTN = "::gate_TN_1D@info=pair"
VGATE = "TensorNetwork1DVector.gate@info=pair"
CLE = "::CircuitMPS.local_expectation"
CFE = "::CircuitMPS.fidelity_estimate"
CSA = "::CircuitMPS.sample"
AG = "::CircuitBase._apply_gate"
ASW = "::apply_swap"
ACM = "::_apply_controlled_gate_mps"
ACG = "::apply_controlled_gate"
PAG = "::CircuitPermMPS._apply_gate"
PLE = "::CircuitPermMPS.local_expectation"
LCO = "::CircuitMPSLazy._compress"
LAG = "::CircuitMPSLazy._apply_gate"
LLE = "::CircuitMPSLazy.local_expectation"
LFE = "::CircuitMPSLazy.fidelity_estimate"
LGP = "::CircuitMPSLazy.get_psi"
LSA = "::CircuitMPSLazy.sample"
SV = "MatrixProductState.schmidt_values"
ENT = "MatrixProductState.entropy"
SG = "MatrixProductState.schmidt_gap"
BSS = "MatrixProductState.bipartite_schmidt_state"
CAG = "::CircuitMPS.apply_gates"
CPT = "::CircuitMPS.partial_trace"
CGP = "::CircuitMPS.get_psi"
PSA = "::CircuitPermMPS.sample"

_GS_CALL = '            G, (ix_i, ix_j), contract="split", inplace=inplace, **compress_opts\n        )\n\n    gate_split_'
_LEC_COMP = "                normalized=normalized,\n                info=info,\n                **contract_opts,\n            )\n            for where, G in terms"

MUTANTS = [
    # ---- the three reverts of fix F09 (record moved for a copy the caller does not keep)
    (T, MEAS, '        if (get == "outcome") and (not inplace) and (info is not None):\n            # only the outcome is returned, so the record must keep\n'
              '            # describing ``self``, not the copy that is canonicalized\n            info = info.copy()\n\n', '', "expect-fail"),
    (T, SCONF, "        if info is not None:\n            # a copy is canonicalized, so the record of ``self`` is only read\n            info = info.copy()\n\n", "", "expect-fail"),
    (T, SAMP, "        info = {} if info is None else info.copy()\n", "        info = {} if info is None else info\n", "expect-fail"),
    # ---- reverts of the fixes of C08-d (measure(L-1, remove=True) left the record on a site that no longer exists) and
    #      C08-f (int site keys of `terms` raised TypeError in the sort key)
    (T, MEAS, "                tn ^= slice(site - 1, site + 1)\n                # the orthogonality center is now the new last site\n                info[\"cur_orthog\"] = (site - 1, site - 1)\n",
     "                tn ^= slice(site - 1, site + 1)\n", "expect-fail"),
    (T, "MatrixProductState.compute_local_expectation_canonical@where=int", "            return where if isinstance(where, Integral) else min(where)", "            return min(where)", "expect-fail"),
    # ---- measure
    (T, MEAS, "        tn.canonicalize_(site, info=info)\n\n        # local tensor and physical dim", "        tn.canonicalize_(site)\n\n        # local tensor and physical dim", "expect-fail"),
    (T, MEAS, "        tn = self if inplace else self.copy()\n        L = tn.L\n        d = self.phys_dim(site)", "        tn = self\n        L = tn.L\n        d = self.phys_dim(site)", "expect-fail"),
    (T, MEAS, "                tn ^= slice(site, site + 2)", "                tn ^= slice(site + 1, site + 3)", "expect-fail"),
    (T, MEAS, "            for i in range(site + 1, L):\n                tn[i].reindex_", "            for i in range(site + 2, L):\n                tn[i].reindex_", "expect-fail"),
    (T, MEAS, "            for i in range(site + 1, L):\n                tn[i].reindex_", "            for i in range(site + 1, L - 1):\n                tn[i].reindex_", "expect-fail"),
    (T, MEAS, "            tn._L = L - 1\n", "            pass\n", "expect-fail"),
    (T, MEAS, "                tn[i].retag_({tn.site_tag(i): tn.site_tag(i - 1)})", "                tn[i].retag_({tn.site_tag(i): tn.site_tag(i + 1)})", "expect-fail"),
    (T, MEAS, "        t = tn[site]\n        ind = tn.site_ind(site)", "        t = tn[site - 1]\n        ind = tn.site_ind(site)", "expect-fail"),
    (T, MEAS, '        if get == "outcome":\n            return outcome\n\n        # project', '        if get == "outcome":\n            return outcome, tn\n\n        # project', "expect-fail"),
    # ---- sample_configuration
    (T, SCONF, "        psi = self.canonicalize(0, info=info)\n\n        config = []", "        psi = self.canonicalize_(0, info=info)\n\n        config = []", "expect-fail"),
    (T, SCONF, "        psi = self.canonicalize(0, info=info)\n\n        config = []", "        psi = self.canonicalize(self.L - 1, info=info)\n\n        config = []", "expect-fail"),
    (T, SCONF, "            if i < psi.L - 1:\n                # and absorb", "            if i < psi.L - 2:\n                # and absorb", "expect-fail"),
    (T, SCONF, "                psi.contract_tags_([psi.site_tag(i), psi.site_tag(i + 1)])", "                psi.contract_tags_([psi.site_tag(i + 1), psi.site_tag(i + 2)])", "expect-fail"),
    (T, SCONF, "            # form local density matrix\n            ki = psi[i]", "            # form local density matrix\n            ki = self[i]", "expect-fail"),
    # ---- sample
    (T, SAMP, "        psi0 = self.canonicalize(0, info=info)\n\n        if backend_random is None:", "        psi0 = self.canonicalize_(0, info=info)\n\n        if backend_random is None:", "expect-fail"),
    (T, SAMP, "            yield psi0.sample_configuration(\n                seed=rng,\n                info=info,", '            yield psi0.sample_configuration(\n                seed=rng,\n                info={"cur_orthog": (psi0.L - 1, psi0.L - 1)},', "expect-fail"),
    (T, SAMP, "            yield psi0.sample_configuration(", "            yield self.sample_configuration(", "expect-fail"),
    # ---- compute_local_expectation_canonical / local_expectation_canonical
    (T, CLEC, "            mps = self.copy()\n            info = info.copy()\n", "            mps = self.copy()\n", "expect-fail"),
    (T, CLEC, "            mps = self.copy()\n            info = info.copy()\n", "            mps = self\n            info = info.copy()\n", "expect-fail"),
    (T, CLEC, "        if inplace:\n            mps = self\n        else:", "        if not inplace:\n            mps = self\n        else:", "expect-fail"),
    (T, CLEC, _LEC_COMP, _LEC_COMP.replace("                info=info,\n", ""), "expect-fail"),
    (T, CLEC, _LEC_COMP, _LEC_COMP.replace("info=info", "info=dict(info)"), "expect-fail"),
    (T, LEC, '            where, normalized=normalized, info=info, **contract_opts\n        )\n        return do("trace", G @ rho)', '            where, normalized=normalized, **contract_opts\n        )\n        return do("trace", G @ rho)', "expect-fail"),
    (T, LEC, '        rho = self.partial_trace_to_dense_canonical(\n            where, normalized=normalized, info=info, **contract_opts\n        )\n        return do("trace", G @ rho)',
     '        rho = self.partial_trace_to_dense_canonical(\n            0, normalized=normalized, info=info, **contract_opts\n        )\n        return do("trace", G @ rho)', "expect-fail"),
    (T, LEC, '            where, normalized=normalized, info=info, **contract_opts\n        )\n        return do("trace", G @ rho)', '            where, normalized=normalized, info=dict(info or {}), **contract_opts\n        )\n        return do("trace", G @ rho)', "expect-fail"),
    # ---- gate_split (leaf: gate_inds(contract="split"))
    (T, GSPLIT, _GS_CALL, _GS_CALL.replace("(ix_i, ix_j)", "(ix_j, ix_i)"), "expect-fail"),
    (T, GSPLIT, _GS_CALL, _GS_CALL.replace("inplace=inplace", "inplace=True"), "expect-fail"),
    (T, GSPLIT, _GS_CALL, _GS_CALL.replace(", **compress_opts", ""), "expect-fail"),
    (T, GSPLIT, _GS_CALL, _GS_CALL.replace(" inplace=inplace,", ""), "expect-fail"),
    # ---- gate_with_auto_swap
    (T, AUTO, '            final_gate_where = (i + 1, i)\n            absorb = "left"', '            final_gate_where = (i + 1, i)\n            absorb = "right"', "expect-fail"),
    (T, AUTO, '            final_gate_where = (i, i + 1)\n            absorb = "right"', '            final_gate_where = (i, i + 1)\n            absorb = "left"', "expect-fail"),
    (T, AUTO, '        info["cur_orthog"] = (i + 1, i + 1)\n\n        if need_to_swap and swap_back:', '        info["cur_orthog"] = (i, i)\n\n        if need_to_swap and swap_back:', "expect-fail"),
    (T, AUTO, "        mps.canonicalize_((i, i + 1), info=info)\n\n        # apply gate", "        mps.canonicalize_((i, j), info=info)\n\n        # apply gate", "expect-fail"),
    (T, AUTO_SB, "            mps.swap_site_to(\n                i + 1, j, info=info, inplace=True, **compress_opts\n            )\n\n        return mps", "            mps.swap_site_to(\n                i + 1, j, info={\"cur_orthog\": \"calc\"}, inplace=True, **compress_opts\n            )\n\n        return mps", "expect-fail"),  # (the swap back no longer threads the caller's record)
    (T, AUTO, "            mps.swap_site_to(\n                j, i + 1, info=info, inplace=True, **compress_opts\n            )", "            mps.swap_site_to(\n                j, i + 1, info=info, inplace=False, **compress_opts\n            )", "expect-fail"),
    (T, AUTO_NIP, "        mps = self if inplace else self.copy()\n\n        i, j = where\n", "        mps = self\n\n        i, j = where\n", "expect-fail"),
    # without info= canonicalize_ recomputes the centre ('calc') and the record is overwritten right after: same behaviour
    (T, AUTO, "        mps.canonicalize_((i, i + 1), info=info)\n\n        # apply gate", "        mps.canonicalize_((i, i + 1))\n\n        # apply gate", "benign"),
    # gate on the wrong sites, but the record written is still true for the state produced (C06 matter, not C08)
    (T, AUTO, "        need_to_swap = i + 1 != j", "        need_to_swap = False", "benign"),
    # ---- gate_with_submpo
    (T, SUBMPO, '        if compress_opts.get("sweep_reverse", False):\n            info["cur_orthog"] = (sf, sf)\n        else:\n            info["cur_orthog"] = (si, si)',
     '        if compress_opts.get("sweep_reverse", False):\n            info["cur_orthog"] = (si, si)\n        else:\n            info["cur_orthog"] = (sf, sf)', "expect-fail"),
    # a centre anywhere INSIDE the operator's span is enough (the compression re-canonicalises the span): still sound
    (T, SUBMPO, "            psi.canonicalize_((si, sf), info=info)\n", "            psi.canonicalize_((si, si), info=info)\n", "benign"),
    (T, SUBMPO, "            psi.canonicalize_((si, sf), info=info)\n", "            psi.canonicalize_((si - 1, sf), info=info)\n", "expect-fail"),
    (T, SUBMPO, "            psi.canonicalize_((si, sf), info=info)\n", "            pass\n", "expect-fail"),
    (T, SUBMPO, "        sub_site_tags = [psi.site_tag(s) for s in range(si, sf + 1)]", "        sub_site_tags = [psi.site_tag(s) for s in range(si, sf)]", "expect-fail"),
    (T, SUBMPO, "        # recombine the compressed sub region TN\n        psi |= subpsi\n", "        # recombine the compressed sub region TN\n", "expect-fail"),
    (T, SUBMPO_NIP, "        psi = self if inplace else self.copy()\n\n        # get the span of sites the sub-MPO acts on", "        psi = self\n\n        # get the span of sites the sub-MPO acts on", "expect-fail"),
    (T, SUBMPO, "            si, sf = min(where), max(where)\n", "            si, sf = min(where), min(where)\n", "expect-fail"),
    # ---- gate_nonlocal
    (T, NONLOC, "            transpose=transpose,\n            info=info,\n            inplace=inplace,\n            inplace_mpo=True,", "            transpose=transpose,\n            inplace=inplace,\n            inplace_mpo=True,", "expect-fail"),
    (T, NONLOC, "            transpose=transpose,\n            info=info,\n            inplace=inplace,\n            inplace_mpo=True,", "            transpose=transpose,\n            info=info,\n            inplace_mpo=True,", "expect-fail"),
    (T, NONLOC, "            inplace_mpo=True,\n            **compress_opts,\n        )\n\n    gate_nonlocal_", "            inplace_mpo=True,\n        )\n\n    gate_nonlocal_", "expect-fail"),
    (T, NONLOC, "            G, dims=dims, sites=where, L=self.L\n", "            G, dims=dims, sites=where[:1], L=self.L\n", "expect-fail"),
    (T, NONLOC, "            mpo,\n            where=where,\n            method=method,", "            mpo,\n            where=where,\n            method=\"direct\",", "expect-fail"),
    # ---- gate_TN_1D / TensorNetwork1DVector.gate
    (T, GTN, '        elif ng == 2:\n            contract = "swap+split"', '        elif ng == 2:\n            contract = True', "expect-fail"),
    (T, GTN, "            return tn.gate_with_auto_swap(\n                G,\n                where,\n                cur_orthog=cur_orthog,\n                info=info,\n                inplace=inplace,",
     "            return tn.gate_with_auto_swap(\n                G,\n                where,\n                cur_orthog=cur_orthog,\n                inplace=inplace,", "expect-fail"),
    (T, GTN, "            return tn.gate_nonlocal(\n                G,\n                where,\n                cur_orthog=cur_orthog,\n                info=info,\n                inplace=inplace,",
     "            return tn.gate_nonlocal(\n                G,\n                where,\n                cur_orthog=cur_orthog,\n                info=info,\n                inplace=True,", "expect-fail"),
    (T, GTN, "        propagate_tags=propagate_tags,\n        info=info,\n        inplace=inplace,\n        **compress_opts,\n    )\n\n\ndef superop_TN_1D", "        propagate_tags=propagate_tags,\n        info=info,\n        **compress_opts,\n    )\n\n\ndef superop_TN_1D", "expect-fail"),
    (T, VGATE, "        return gate_TN_1D(self, *args, inplace=inplace, **kwargs)", "        return gate_TN_1D(self, *args, **kwargs)", "expect-fail"),
    (T, VGATE, "        return gate_TN_1D(self, *args, inplace=inplace, **kwargs)", "        return gate_TN_1D(self.copy(), *args, inplace=inplace, **kwargs)", "expect-fail"),
    (T, VGATE, "        return gate_TN_1D(self, *args, inplace=inplace, **kwargs)", "        return gate_TN_1D(self, *args, inplace=inplace)", "expect-fail"),
    # ---- CircuitMPS.local_expectation (first: revert of fix F09a -- the shared record followed a converted COPY)
    (C, CLE, '            info = self.gate_opts["info"].copy()\n        else:', '            info = self.gate_opts["info"]\n        else:', "expect-fail"),
    (C, CLE, "            psi = self._psi.copy()\n            self._maybe_convert(psi, dtype)\n            # a copy is canonicalized", "            psi = self._psi\n            self._maybe_convert(psi, dtype)\n            # a copy is canonicalized", "expect-fail"),
    (C, CLE, "            normalized=normalized,\n            info=info,\n            **contract_opts,\n        )\n\n\nclass CircuitPermMPS", "            normalized=normalized,\n            **contract_opts,\n        )\n\n\nclass CircuitPermMPS", "expect-fail"),
    (C, CLE, '            psi = self._psi\n            info = self.gate_opts["info"]\n', '            psi = self._psi\n            info = self.gate_opts["info"].copy()\n', "expect-fail"),
    (C, CLE, "        if dtype is not None or not self.convert_eager:\n            psi = self._psi.copy()\n            self._maybe_convert(psi, dtype)\n            # a copy", "        if dtype is not None and not self.convert_eager:\n            psi = self._psi.copy()\n            self._maybe_convert(psi, dtype)\n            # a copy", "expect-fail"),
    # ---- CircuitMPS.fidelity_estimate (reader)
    (C, CFE, "        return abs(self._psi[cmin : cmax + 1].norm(tags=all)) ** 2", "        return abs(self._psi[cmin : cmax].norm(tags=all)) ** 2", "expect-fail"),
    (C, CFE, "        return abs(self._psi[cmin : cmax + 1].norm(tags=all)) ** 2", "        return abs(self._psi[cmin + 1 : cmax + 1].norm(tags=all)) ** 2", "expect-fail"),
    (C, CFE, "        cmin, cmax = cur_orthog\n", "        cmax, cmin = cur_orthog\n", "expect-fail"),
    (C, CFE, "        cmin, cmax = cur_orthog\n", "        cmin, cmax = cur_orthog\n        self._psi.canonicalize_(cmin)\n", "expect-fail"),
    # ---- CircuitMPS.sample
    (C, CSA, "        for config, _ in psi.sample(C, seed=seed):\n            yield \"\".join(map(str, config))\n\n    def fidelity_estimate", "        psi.canonicalize_(0)\n        for config, _ in psi.sample(C, seed=seed):\n            yield \"\".join(map(str, config))\n\n    def fidelity_estimate", "expect-fail"),
    (C, CSA, "        for config, _ in psi.sample(C, seed=seed):\n            yield \"\".join(map(str, config))\n\n    def fidelity_estimate", "        for config, _ in psi.sample(C, seed=seed):\n            self.gate_opts[\"info\"][\"cur_orthog\"] = (0, 0)\n            yield \"\".join(map(str, config))\n\n    def fidelity_estimate", "expect-fail"),
    (C, CSA, "        for config, _ in psi.sample(C, seed=seed):\n            yield \"\".join(map(str, config))\n\n    def fidelity_estimate", "        for config, _ in psi.sample(C, seed=seed):\n            psi.measure_(0, info=self.gate_opts[\"info\"].copy())\n            yield \"\".join(map(str, config))\n\n    def fidelity_estimate", "expect-fail"),
    # handing the shared record to MatrixProductState.sample is harmless since F09: it only reads (copies) it
    (C, CSA, "        for config, _ in psi.sample(C, seed=seed):\n            yield \"\".join(map(str, config))\n\n    def fidelity_estimate", "        for config, _ in psi.sample(C, seed=seed, info=self.gate_opts[\"info\"]):\n            yield \"\".join(map(str, config))\n\n    def fidelity_estimate", "benign"),
    # ---- CircuitBase._apply_gate
    (CC, AG, "        opts = {**self.gate_opts, **gate_opts}\n", "        opts = {**gate_opts}\n", "expect-fail"),
    (CC, AG, "        opts = {**self.gate_opts, **gate_opts}\n", "        opts = {**self.gate_opts, **gate_opts, \"info\": {}}\n", "expect-fail"),
    (CC, AG, "            self._psi.gate_(G, gate.qubits, tags=tags, **opts)", "            self._psi.gate(G, gate.qubits, tags=tags, **opts)", "expect-fail"),
    (CC, AG, "            apply_controlled_gate(self._psi, gate, tags=tags, **opts)", "            apply_controlled_gate(self._psi, gate, tags=tags)", "expect-fail"),
    (CC, AG, "            apply_controlled_gate(self._psi, gate, tags=tags, **opts)", "            apply_controlled_gate(self._psi.copy(), gate, tags=tags, **opts)", "expect-fail"),
    (CC, AG, "                self._psi, *gate.params, *gate.qubits, **opts\n", "                self._psi.copy(), *gate.params, *gate.qubits, **opts\n", "expect-fail"),
    # ---- circuit/gates.py helpers
    (G, ASW, "            psi.swap_sites_with_compress_(i, j, **gate_opts)", "            psi.swap_sites_with_compress(i, j, **gate_opts)", "expect-fail"),
    (G, ASW, "            psi.swap_sites_with_compress_(i, j, **gate_opts)", "            psi.swap_sites_with_compress_(i, j)", "expect-fail"),
    (G, ASW, "            psi.gate_nonlocal_(qu.swap(2), (i, j), **gate_opts)", "            psi.gate_nonlocal_(qu.swap(2), (i, j))", "expect-fail"),
    (G, ASW, "        if contract == \"nonlocal\":\n            psi.gate_nonlocal_", "        if contract != \"nonlocal\":\n            psi.gate_nonlocal_", "expect-fail"),
    (G, ACM, "    psi.gate_with_submpo_(submpo, where, **gate_opts)", "    psi.gate_with_submpo_(submpo, where)", "expect-fail"),
    (G, ACM, "    psi.gate_with_submpo_(submpo, where, **gate_opts)", "    psi.gate_with_submpo(submpo, where, **gate_opts)", "expect-fail"),
    (G, ACM, "    where = sorted((*gate.controls, *gate.qubits))", "    where = sorted((*gate.qubits, *gate.qubits))", "expect-fail"),
    (G, ACG, "        _apply_controlled_gate_mps(psi, gate, tags=tags, **gate_opts)", "        _apply_controlled_gate_mps(psi, gate, tags=tags)", "expect-fail"),
    (G, ACG, "        _apply_controlled_gate_mps(psi, gate, tags=tags, **gate_opts)", "        _apply_controlled_gate_mps(psi.copy(), gate, tags=tags, **gate_opts)", "expect-fail"),
    (G, ACG, '    if contract in ("auto-mps", "nonlocal"):', '    if contract in ("auto-mps",):', "expect-fail"),
    # ---- CircuitPermMPS
    (C, PAG, "        super()._apply_gate(gate, tags=tags, **gate_opts)\n\n        # if the gate is non-local", "        super()._apply_gate(gate, tags=tags, info={}, **gate_opts)\n\n        # if the gate is non-local", "expect-fail"),
    (C, PAG, "        super()._apply_gate(gate, tags=tags, **gate_opts)\n\n        # if the gate is non-local", "        super()._apply_gate(gate, tags=tags, contract=False, **gate_opts)\n\n        # if the gate is non-local", "expect-fail"),
    (C, PAG, "        gate = gate.copy_with(qubits=phys_sites)\n", "        gate = gate.copy_with(qubits=[p + 1 for p in phys_sites])\n", "expect-fail"),
    # the record stays true whether or not the sites are swapped back (the qubit bookkeeping is C07's matter)
    (C, PAG, '            gate_opts["swap_back"] = False\n', '            pass\n', "benign"),
    (C, PLE, "            where = self.qubits.index(where)\n", "            where = self.N\n", "expect-fail"),
    (C, PLE, "        return super().local_expectation(G, where, *args, **kwargs)\n\n\nclass CircuitMPSLazy", "        return super().local_expectation(G, (0, self.N), *args, **kwargs)\n\n\nclass CircuitMPSLazy", "expect-fail"),
    (C, PLE, "        return super().local_expectation(G, where, *args, **kwargs)\n\n\nclass CircuitMPSLazy", "        self._psi.canonicalize_(0)\n        return super().local_expectation(G, where, *args, **kwargs)\n\n\nclass CircuitMPSLazy", "expect-fail"),
    # ---- CircuitMPSLazy
    (C, LCO, '            self.gate_opts["info"]["cur_orthog"] = (self.N - 1, self.N - 1)  # type: ignore\n        else:\n            self.gate_opts["info"]["cur_orthog"] = (0, 0)',
     '            self.gate_opts["info"]["cur_orthog"] = (0, 0)  # type: ignore\n        else:\n            self.gate_opts["info"]["cur_orthog"] = (self.N - 1, self.N - 1)', "expect-fail"),
    (C, LCO, '            self.gate_opts["info"]["cur_orthog"] = (0, 0)\n', '            self.gate_opts["info"]["cur_orthog"] = (1, 1)\n', "expect-fail"),
    (C, LCO, "        if not self._uncompressed_sites:\n            return\n", "        if self._uncompressed_sites:\n            return\n", "expect-fail"),
    (C, LCO, "        self._uncompressed_sites.clear()\n\n        # compression mutates", "        # compression mutates", "expect-fail"),
    (C, LCO, "            self._psi,\n            permute_arrays=False,\n            inplace=True,\n            **self.compress_opts,", "            self._psi.copy(),\n            permute_arrays=False,\n            inplace=True,\n            **self.compress_opts,", "expect-fail"),
    (C, LAG, "        for site in range(min_site, max_site + 1):\n            self._uncompressed_sites[site] = (\n                self._uncompressed_sites.get(site, 0) + 1\n            )\n", "", "expect-fail"),
    (C, LAG, '            gate, tags=tags, contract="nonlocal", method="lazy", **gate_opts\n', '            gate, tags=tags, contract="nonlocal", **gate_opts\n', "expect-fail"),
    # one site fewer is counted: a pending operator is still counted somewhere (min_site < max_site), which is all the
    # invariant needs (how many gates may pile up before a compression is a policy)
    (C, LAG, "        for site in range(min_site, max_site + 1):\n            self._uncompressed_sites[site] = (", "        for site in range(min_site, max_site):\n            self._uncompressed_sites[site] = (", "benign"),
    (C, LAG, "        for site in range(min_site, max_site + 1):\n            self._uncompressed_sites[site] = (", "        for site in range(min_site, min_site):\n            self._uncompressed_sites[site] = (", "expect-fail"),
    # compressing earlier or later is a policy: the invariant holds either way
    (C, LAG, "                self._compress()\n                break", "                break", "benign"),
    (C, LLE, "    def local_expectation(self, G, where, *args, **kwargs):\n        self._compress()\n        return super().local_expectation", "    def local_expectation(self, G, where, *args, **kwargs):\n        return super().local_expectation", "expect-fail"),
    (C, LFE, "    def fidelity_estimate(self):\n        self._compress()\n        return super().fidelity_estimate()", "    def fidelity_estimate(self):\n        return super().fidelity_estimate()", "expect-fail"),
    (C, LGP, "        self._compress()\n        return super().get_psi()", "        return super().get_psi()", "expect-fail"),
    (C, LSA, "    def sample(self, C, *args, **kwargs):\n        self._compress()\n        yield from", "    def sample(self, C, *args, **kwargs):\n        yield from", "expect-fail"),
    # ---- thin wrappers over singular_values
    (T, SV, "        return self.singular_values(i, info=info, method=method) ** 2", "        return self.singular_values(i, method=method) ** 2", "expect-fail"),
    (T, SV, "        return self.singular_values(i, info=info, method=method) ** 2", "        return self.singular_values(i + 1, info=info, method=method) ** 2", "expect-fail"),
    (T, SV, "        return self.singular_values(i, info=info, method=method) ** 2", "        return self.singular_values(i, info=dict(info), method=method) ** 2", "expect-fail"),
    (T, SV, "        return self.singular_values(i, info=info, method=method) ** 2", "        return self.copy().singular_values(i, info=info, method=method) ** 2", "expect-fail"),
    (T, ENT, "        S = self.schmidt_values(i, info=info, method=method)\n        S = S[S > 0.0]", "        S = self.schmidt_values(i, method=method)\n        S = S[S > 0.0]", "expect-fail"),
    (T, ENT, "        S = self.schmidt_values(i, info=info, method=method)\n        S = S[S > 0.0]", "        S = self.schmidt_values(i - 1, info=info, method=method)\n        S = S[S > 0.0]", "expect-fail"),
    (T, ENT, "        S = self.schmidt_values(i, info=info, method=method)\n        S = S[S > 0.0]", "        S = self.schmidt_values(i, info=info.copy(), method=method)\n        S = S[S > 0.0]", "expect-fail"),
    (T, ENT, "        S = self.schmidt_values(i, info=info, method=method)\n        S = S[S > 0.0]", "        S = self.schmidt_values(i, info=info, method=method)\n        self.canonicalize_(0)\n        S = S[S > 0.0]", "expect-fail"),
    (T, SG, "        S = self.schmidt_values(i, info=info, method=method)\n\n        if len(S) == 1:", "        S = self.schmidt_values(i, method=method)\n\n        if len(S) == 1:", "expect-fail"),
    (T, SG, "        S = self.schmidt_values(i, info=info, method=method)\n\n        if len(S) == 1:", "        S = self.schmidt_values(i + 1, info=info, method=method)\n\n        if len(S) == 1:", "expect-fail"),
    (T, SG, "        S = self.schmidt_values(i, info=info, method=method)\n\n        if len(S) == 1:", "        S = self.schmidt_values(i, info=dict(info), method=method)\n\n        if len(S) == 1:", "expect-fail"),
    (T, SG, "        S = self.schmidt_values(i, info=info, method=method)\n\n        if len(S) == 1:", "        S = self.schmidt_values(i, info=info, method=method)\n        self.left_canonicalize_()\n\n        if len(S) == 1:", "expect-fail"),
    (T, BSS, '        s = do("diag", self.singular_values(sz_a, info=info))', '        s = do("diag", self.singular_values(sz_a))', "expect-fail"),
    (T, BSS, '        s = do("diag", self.singular_values(sz_a, info=info))', '        s = do("diag", self.singular_values(sz_a - 1, info=info))', "expect-fail"),
    (T, BSS, '        s = do("diag", self.singular_values(sz_a, info=info))', '        s = do("diag", self.singular_values(sz_a, info=dict(info or {})))', "expect-fail"),
    (T, BSS, '        s = do("diag", self.singular_values(sz_a, info=info))', '        s = do("diag", self.copy().singular_values(sz_a, info=info))', "expect-fail"),
    # ---- CircuitMPS.apply_gates / partial_trace / get_psi, CircuitPermMPS.sample
    (C, CAG, "            self._apply_gate(gate, **gate_opts)\n\n            if progbar and", "            self._psi.gate_(gate.array, gate.qubits)\n\n            if progbar and", "expect-fail"),
    (C, CAG, "            self._apply_gate(gate, **gate_opts)\n\n            if progbar and", "            self._apply_gate(gate, info={}, **gate_opts)\n\n            if progbar and", "expect-fail"),
    (C, CAG, "            self._apply_gate(gate, **gate_opts)\n\n            if progbar and", "            self._apply_gate(gate, **gate_opts)\n            self.gate_opts[\"info\"] = {}\n\n            if progbar and", "expect-fail"),
    (C, CAG, "            self._apply_gate(gate, **gate_opts)\n\n            if progbar and", "            self._apply_gate(gate, **gate_opts)\n            self._psi.canonicalize_(0)\n\n            if progbar and", "expect-fail"),
    (C, CPT, "        ket = self.psi\n        self._maybe_convert(ket, dtype)\n\n        k_inds", "        ket = self._psi\n        self._maybe_convert(ket, dtype)\n\n        k_inds", "expect-fail"),
    (C, CPT, "        ket = self.psi\n        self._maybe_convert(ket, dtype)\n\n        k_inds", "        ket = self._psi.canonicalize_(0)\n        self._maybe_convert(ket, dtype)\n\n        k_inds", "expect-fail"),
    (C, CPT, "        ket = self.psi\n        self._maybe_convert(ket, dtype)\n\n        k_inds", "        ket = self._psi.canonicalize_(0, info=self.gate_opts[\"info\"])\n        self._maybe_convert(ket, dtype)\n\n        k_inds", "expect-fail"),
    (C, CGP, '        """Get a copy of the current matrix product state."""\n        psi = self._psi.copy()', '        """Get a copy of the current matrix product state."""\n        psi = self._psi', "expect-fail"),
    (C, CGP, '        """Get a copy of the current matrix product state."""\n        psi = self._psi.copy()', '        """Get a copy of the current matrix product state."""\n        psi = self._psi.canonicalize(0, info=self.gate_opts["info"])', "expect-fail"),
    (C, CGP, '        """Get a copy of the current matrix product state."""\n        psi = self._psi.copy()', '        """Get a copy of the current matrix product state."""\n        self._psi.left_canonicalize_()\n        psi = self._psi.copy()', "expect-fail"),
    (C, PSA, "        for config, _ in psi.sample(C, seed=seed):\n            yield \"\".join(\n                str(config[site_from_qubit[i]])", "        psi.canonicalize_(0)\n        for config, _ in psi.sample(C, seed=seed):\n            yield \"\".join(\n                str(config[site_from_qubit[i]])", "expect-fail"),
    (C, PSA, "        for config, _ in psi.sample(C, seed=seed):\n            yield \"\".join(\n                str(config[site_from_qubit[i]])", "        for config, _ in psi.sample(C, seed=seed):\n            self.gate_opts[\"info\"][\"cur_orthog\"] = (0, 0)\n            yield \"\".join(\n                str(config[site_from_qubit[i]])", "expect-fail"),
    (C, PSA, "        for config, _ in psi.sample(C, seed=seed):\n            yield \"\".join(\n                str(config[site_from_qubit[i]])", "        for config, _ in psi.sample(C, seed=seed):\n            psi.measure_(0, info=self.gate_opts[\"info\"].copy())\n            yield \"\".join(\n                str(config[site_from_qubit[i]])", "expect-fail"),
]


def run_mutant(tmp, relpath, suffix, old, new):
    from vf import pyvc
    suffix, _, sel = suffix.partition("@")
    src = open(os.path.join("/repo", relpath)).read()
    if src.count(old) < 1:
        return "stale", "old text not found in the current source"
    cons = [v for k, v in pyvc.REGISTRY.items() if k.endswith(suffix)]
    if not cons:
        return "stale", f"no contract registered for {suffix}"
    con = cons[0]
    all_cases = con.cases()
    orig_discharge, orig_cases, orig_floor, orig_inputs = pyvc.discharge, con.cases, con.floor, con.inputs

    def norm(rep):
        # (case, label) with line numbers and the path signature removed: a mutant is caught only by a clause that
        # does not fail on the unchanged tree in the same case
        return {re.sub(r"@\d+", "@L", o.oid).split("#")[0] for o in rep.failed}

    try:
        con.cases = lambda: [c for c in all_cases if all(s in c.name for s in sel.split(",") if s)]
        con.floor = 1  # (the vacuity floor is for the full case list)
        if SMALL_L:
            # chains of at most SMALL_L sites: a counterexample found under this EXTRA assumption is a counterexample
            # of the unrestricted obligation as well; it only makes the solver's model search (quantified) quicker
            def small_inputs(cx, case, _orig=orig_inputs):
                d = _orig(cx, case)
                for f in cx.heap.values():
                    if "isL" in f and not isinstance(f.get("L"), int):
                        cx.assume(f["L"] <= SMALL_L)
                return d
            con.inputs = small_inputs
        pyvc.discharge = lambda ob, **kw: orig_discharge(ob, timeout_ms=3000, portfolio=False)
        key = (suffix, sel)
        if key not in _BASE:
            pyvc.REPO = "/repo"
            pyvc._SRC_CACHE.clear()
            _BASE[key] = norm(pyvc.verify(con))
        for other in FILES:
            od = os.path.join(tmp, other)
            os.makedirs(os.path.dirname(od), exist_ok=True)
            open(od, "w").write(open(os.path.join("/repo", other)).read())
        open(os.path.join(tmp, relpath), "w").write(src.replace(old, new, 1))
        pyvc.REPO = tmp
        pyvc._SRC_CACHE.clear()
        rep = pyvc.verify(con)
    finally:
        pyvc.REPO = "/repo"
        pyvc._SRC_CACHE.clear()
        pyvc.discharge, con.cases, con.floor, con.inputs = orig_discharge, orig_cases, orig_floor, orig_inputs
        for other in FILES:
            try:
                os.remove(os.path.join(tmp, other))
            except OSError:
                pass
    if not (norm(rep) - _BASE[key]) and rep.status == "ok" and rep.unknown:
        # nothing decided as failed within the short timeout: give a few undecided obligations the full portfolio
        for ob in rep.unknown[:6]:
            orig_discharge(ob, timeout_ms=15000)
            if ob.status == "failed":
                break
    extra = norm(rep) - _BASE[key]
    if extra:
        return "failed", ", ".join(sorted({o.split("::")[-1].split("#")[0] for o in extra})[:3])
    if rep.status != "ok":
        return rep.status, rep.detail[:120]
    if rep.unknown:
        return "unknown", f"{len(rep.unknown)} undecided"
    return "discharged", ""


_BASE = {}
SMALL_L = int(os.environ.get("VERIF_MUTANT_SMALL_L", "6"))
