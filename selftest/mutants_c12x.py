"""C12 extension mutants: deliberate breakages of the bond-cap threading / dispatch on a scratch copy of ONE source file; every
'expect-fail' entry must flip a NAMED provider obligation of contracts/c12_ext.py (all parts of `suffix`, separated by '@@',
occur in its id) from discharged to failed; 'benign' entries must leave every such obligation discharged.

   ./check selftest c12x

Hand-written entries first; then three generated breakages for EVERY function of contracts.c12_ext.TARGETS (the function's
real source text is read from the checkout, the cap keyword / dict entry is cut, the cutoff is replaced, the cap is re-bound),
so no function of the list is without mutants.
"""
import ast
import os
import re
import shutil

MODULES = ["contracts.c12_ext"]
T2 = "quimb/tensor/tn2d/core.py"
T3 = "quimb/tensor/tn3d/core.py"
TC = "quimb/tensor/tensor_core.py"
AG = "quimb/tensor/tnag/compress.py"

_CORE3_GUARD = "                                if (max_bond is None) or (\n                                    bonds_size(t1, tn) > max_bond\n                                ):"
_CORE2_GUARD = "                            if (max_bond is None) or (\n                                bonds_size(t1, tn) > max_bond\n                            ):"
_SEQ_GUARD = "                if (chi is None) or bonds_size(t, t_neighb) > chi:"

MUTANTS = [
    # ------------------------------------------------------------ 2D _contract_boundary_core (compress_late=False branch)
    (T2, "TensorNetwork2D._contract_boundary_core::skip-guard-compare[_compress_between_tids#1]", _CORE2_GUARD,
     "                            if (max_bond is None) or (\n                                bonds_size(t1, tn) != max_bond\n                            ):",
     "expect-fail"),      # the seeded regression: == / != instead of >
    (T2, "TensorNetwork2D._contract_boundary_core::skip-guard-compare[_compress_between_tids#1]", _CORE2_GUARD,
     "                            if (max_bond is None) or (\n                                bonds_size(t1, tn) > max_bond + 1\n                            ):",
     "expect-fail"),
    (T2, "TensorNetwork2D._contract_boundary_core::skip-guard-compare[_compress_between_tids#1]", _CORE2_GUARD,
     "                            if (max_bond is None) or (\n                                bonds_size(t1, tn) >= max_bond\n                            ):",
     "expect-fail"),      # >= is not the promised form (needless truncation work, and differs from the 3D twin)
    (T2, "TensorNetwork2D._contract_boundary_core::skip-guard-none[_compress_between_tids#1]", _CORE2_GUARD,
     "                            if (\n                                bonds_size(t1, tn) > max_bond\n                            ):",
     "expect-fail"),      # the repaired defect f5b5c367 re-introduced
    (T2, "TensorNetwork2D._contract_boundary_core::compress-iff-branch[_compress_between_tids#1]",
     "                    if not compress_late:\n                        # we immediately compress bonds",
     "                    if compress_late:\n                        # we immediately compress bonds", "expect-fail"),
    (T2, "TensorNetwork2D._contract_boundary_core::compress-iff-branch[compress_plane#1]",
     "                if compress_late:\n                    # we don't compress until",
     "                if compress_late and canonize:\n                    # we don't compress until", "expect-fail"),
    (T2, "TensorNetwork2D._contract_boundary_core::sink[compress_plane#1]:cutoff",
     "                        yreverse=sweep_reverse,\n                        max_bond=max_bond,\n                        cutoff=cutoff,",
     "                        yreverse=sweep_reverse,\n                        max_bond=max_bond,\n                        cutoff=0.0 if canonize else cutoff,",
     "expect-fail"),
    (T2, "TensorNetwork2D._contract_boundary_core::", _CORE2_GUARD,
     "                            # (comment)\n" + _CORE2_GUARD, "benign"),
    # ------------------------------------------------------------ 3D _contract_boundary_core
    (T3, "TensorNetwork3D._contract_boundary_core::skip-guard-compare[_compress_between_tids#1]",
     _CORE3_GUARD, _CORE3_GUARD.replace("> max_bond", "== max_bond"),
     "expect-fail"),
    (T3, "TensorNetwork3D._contract_boundary_core::skip-guard-compare[_compress_between_tids#1]",
     _CORE3_GUARD, _CORE3_GUARD.replace("> max_bond", "< max_bond"),
     "expect-fail"),
    (T3, "TensorNetwork3D._contract_boundary_core::compress-iff-branch[_compress_between_tids#1]",
     "                        if not compress_late:\n                            (tid1,) = self.tag_map[tag1]",
     "                        if compress_late:\n                            (tid1,) = self.tag_map[tag1]", "expect-fail"),
    # the defect this obligation found (repaired in /repo by dd440607), re-introduced
    (T3, "TensorNetwork3D._contract_boundary_core::skip-guard-none[_compress_between_tids#1]", _CORE3_GUARD,
     "                                if bonds_size(t1, tn) > max_bond:", "expect-fail"),
    (T3, "TensorNetwork3D._contract_boundary_core::skip-guard-", _CORE3_GUARD,
     "                                if (max_bond is None) or bonds_size(t1, tn) > max_bond:", "benign"),
    # ------------------------------------------------------------ compressed contraction along a tree
    (TC, "TensorNetwork._contract_compressed_tid_sequence::skip-guard-compare[_compress_between_tids#1]", _SEQ_GUARD,
     "                if (chi is None) or bonds_size(t, t_neighb) == chi:", "expect-fail"),
    (TC, "TensorNetwork._contract_compressed_tid_sequence::sink[_compress_between_tids#1]:max_bond",
     "            def chi_fn(d):\n                return max_bond\n", "            def chi_fn(d):\n                return max_bond if d else None\n",
     "expect-fail"),
    (TC, "TensorNetwork._contract_compressed_tid_sequence::sink[_compress_between_tids#1]:cutoff",
     "            eps = eps_fn(d)\n", "            eps = eps_fn(d) * 0\n", "expect-fail"),
    (TC, "TensorNetwork._contract_compressed_tid_sequence::sink[_compress_between_tids#1]:cutoff",
     "            eps_fn = cutoff\n", "            eps_fn = max_bond\n", "expect-fail"),
    (TC, "TensorNetwork._contract_compressed_tid_sequence::sink[_compress_between_tids#1]:max_bond",
     "                        max_bond=chi,\n                        cutoff=eps,", "                        max_bond=eps,\n                        cutoff=chi,",
     "expect-fail"),      # swapped arguments
    (TC, "TensorNetwork._contract_compressed_tid_sequence::", _SEQ_GUARD,
     "                if ((chi is None) or (bonds_size(t, t_neighb) > chi)):", "benign"),
    (TC, "TensorNetwork.contract_compressed::max_bond-not-rebound",
     '        if max_bond == "auto":\n            max_bond = self.max_bond() ** 2',
     '        if max_bond != "auto":\n            max_bond = self.max_bond() ** 2', "expect-fail"),
    (TC, "TensorNetwork.contract_compressed::max_bond-not-rebound",
     '        if max_bond == "auto":\n            max_bond = self.max_bond() ** 2',
     '        if max_bond == "auto":\n            max_bond = self.max_bond() ** 2\n        max_bond = max_bond + 1', "expect-fail"),
    # ------------------------------------------------------------ environments / ctmrg: dict and keyword flows
    (T2, "TensorNetwork2D.compute_environments::sink[contract_boundary_from_#1]:max_bond",
     "                    from_which=from_which,\n                    max_bond=max_bond,\n                    cutoff=cutoff,\n                    mode=mode,",
     "                    from_which=from_which,\n                    cutoff=cutoff,\n                    mode=mode,", "expect-fail"),
    (T2, "TensorNetwork2D.compute_x_environments::sink[compute_xmin_environments#1]:max_bond",
     "        self.compute_xmax_environments(envs=envs, **contract_boundary_opts)\n",
     "        self.compute_xmax_environments(envs=envs, **contract_boundary_opts)\n        contract_boundary_opts.pop(\"max_bond\")\n",
     "expect-fail"),
    (T2, "TensorNetwork2D.compute_x_environments::sink[compute_xmax_environments#1]:max_bond",
     "        self.compute_xmax_environments(envs=envs, **contract_boundary_opts)\n",
     "        self.compute_xmax_environments(envs=envs, **contract_boundary_opts)\n        contract_boundary_opts.pop(\"max_bond\")\n",
     "expect-fail"),      # (any second write of the key fails every use of the dict: the analysis is flow-insensitive there)
    (T3, "TensorNetwork3D._compute_plane_envs::sink[contract_boundary_from_#1]:max_bond",
     "        tn = self.copy()\n\n        # rotate virtually\n        r3d = Rotator3D(tn, xrange, yrange, zrange, from_which)",
     "        tn = self.copy()\n        contract_boundary_opts[\"max_bond\"] = None\n\n        # rotate virtually\n        r3d = Rotator3D(tn, xrange, yrange, zrange, from_which)",
     "expect-fail"),
    (T3, "TensorNetwork3D._compute_plane_envs::sink[contract_boundary_from_#1]:cutoff",
     "                from_which=from_which,\n                **contract_boundary_opts,\n            )\n            # set the boundary as the environment",
     "                from_which=from_which,\n            )\n            # set the boundary as the environment", "expect-fail"),
    (T3, "TensorNetwork3D._contract_interleaved_boundary_sequence::sink[contract_boundary_from_#1]:max_bond",
     "                equalize_norms=equalize_norms,\n                **contract_boundary_opts,\n            )\n\n            # update the boundaries and separations\n            xyz, minmax",
     "                equalize_norms=equalize_norms,\n                **final_contract_opts,\n            )\n\n            # update the boundaries and separations\n            xyz, minmax",
     "expect-fail"),
    # ------------------------------------------------------------ further scalar options
    (T3, "TensorNetwork3D._contract_interleaved_boundary_sequence::sink[contract_boundary_from_#1]:opt:equalize_norms",
     '        if equalize_norms == "auto":\n            # if we are going to extract exponent at end, assume we\n            # should do it throughout the computation as well\n            if strip_exponent:',
     '        if equalize_norms != "never":\n            # if we are going to extract exponent at end, assume we\n            # should do it throughout the computation as well\n            if strip_exponent:',
     "expect-fail"),      # the caller's explicit choice overwritten
    (TC, "TensorNetwork.contract_compressed::sink[_contract_compressed_tid_sequence#1]:opt:compress_late",
     "        if compress_late is None:\n            compress_late = False", "        if compress_late is not None:\n            compress_late = False",
     "expect-fail"),
    (TC, "TensorNetwork.contract_compressed::sink[_contract_compressed_tid_sequence#1]:opt:compress_late",
     "        if compress_late is None:\n            compress_late = False", "        if compress_late is None:\n            compress_late = True",
     "benign"),           # WHICH default is chosen is not a threading matter (value-level: C12 drivers)
    # ------------------------------------------------------------ 3D mode dispatch (fdx on the real method)
    (T3, "TensorNetwork3D.contract_boundary_from::dispatch[mode=l2bp3d,inplace=True]: exactly the core",
     '        if mode == "l2bp3d":\n            tn._contract_boundary_l2bp(**contract_boundary_opts)',
     '        if mode == "l2bp3d":\n            tn._contract_boundary_projector(**contract_boundary_opts)', "expect-fail"),
    (T3, "TensorNetwork3D.contract_boundary_from::dispatch[mode=peps,inplace=False]: works on the receiver iff inplace",
     '        if mode == "peps":\n            tn._contract_boundary_core(**contract_boundary_opts)',
     '        if mode == "peps":\n            self._contract_boundary_core(**contract_boundary_opts)', "expect-fail"),
    (T3, "TensorNetwork3D.contract_boundary_from::dispatch[mode=other,inplace=True]: ranges, from_which and every other",
     "        tn._contract_boundary_core_via_2d(\n            method=mode, **contract_boundary_opts\n        )",
     "        tn._contract_boundary_core_via_2d(\n            **contract_boundary_opts\n        )", "expect-fail"),
    (T3, "TensorNetwork3D.contract_boundary_from::dispatch[mode=projector3d,inplace=False]: max_bond and cutoff",
     '        contract_boundary_opts["cutoff"] = cutoff\n        contract_boundary_opts["equalize_norms"] = equalize_norms',
     '        contract_boundary_opts["equalize_norms"] = equalize_norms', "expect-fail"),
    (T3, "TensorNetwork3D.contract_boundary_from::dispatch[mode=peps,inplace=True]: ranges, from_which and every other",
     '        contract_boundary_opts["zrange"] = zrange\n', '        contract_boundary_opts["zrange"] = yrange\n', "expect-fail"),
    (T3, "TensorNetwork3D.contract_boundary_from::dispatch[", '        if mode == "l2bp3d":\n            tn._contract_boundary_l2bp(',
     '        if "l2bp3d" == mode:\n            tn._contract_boundary_l2bp(', "benign"),
    # ------------------------------------------------------------ tnag dispatch (fdx on the real function)
    (AG, "tensor_network_ag_compress::table[local-late]", '    "local-late": tensor_network_ag_compress_local_late,',
     '    "local-late": tensor_network_ag_compress_local_early,', "expect-fail"),
    (AG, "tensor_network_ag_compress::table: every documented", '    "su": tensor_network_ag_compress_superorthogonal,\n', "", "expect-fail"),
    (AG, "tensor_network_ag_compress::dispatch[l2bp,inplace=True]: max_bond and cutoff",
     "    return _TNAG_COMPRESS_METHODS[method](\n        tn,\n        max_bond=max_bond,\n        cutoff=cutoff,",
     "    return _TNAG_COMPRESS_METHODS[method](\n        tn,\n        max_bond=max_bond,\n        cutoff=cutoff if canonize else 0.0,",
     "benign"),           # sentinel canonize is truthy: same behaviour on the executed domain (documented limit of fdx parametricity)
    (AG, "tensor_network_ag_compress::dispatch[l2bp,inplace=True]: max_bond and cutoff",
     "    return _TNAG_COMPRESS_METHODS[method](\n        tn,\n        max_bond=max_bond,\n        cutoff=cutoff,",
     "    return _TNAG_COMPRESS_METHODS[method](\n        tn,\n        max_bond=cutoff,\n        cutoff=max_bond,", "expect-fail"),
    (AG, "tensor_network_ag_compress::dispatch[projector,inplace=False]: every other option",
     "        equalize_norms=equalize_norms,\n        inplace=inplace,\n        **kwargs,\n    )\n",
     "        equalize_norms=equalize_norms,\n        inplace=True,\n        **kwargs,\n    )\n", "expect-fail"),
    (AG, "tensor_network_ag_compress::dispatch[su,inplace=True]: exactly the table's function",
     "    return _TNAG_COMPRESS_METHODS[method](\n        tn,", '    return _TNAG_COMPRESS_METHODS["local-early" if method == "su" else method](\n        tn,',
     "expect-fail"),
    (AG, "tensor_network_ag_compress::dispatch[local-early,inplace=False]: the method's result is returned",
     "    return _TNAG_COMPRESS_METHODS[method](\n        tn,", "    _TNAG_COMPRESS_METHODS[method](\n        tn,", "expect-fail"),
    (AG, "tensor_network_ag_compress::dispatch[", "    return _TNAG_COMPRESS_METHODS[method](\n        tn,",
     "    fn = _TNAG_COMPRESS_METHODS[method]\n    return fn(\n        tn,", "benign"),
    (AG, "tensor_network_ag_compress_local_early::sink[_compress_between_tids#1]:max_bond",
     "            tnc._compress_between_tids(tida, tidb, **compress_opts)", "            tnc._compress_between_tids(tida, tidb, **kwargs)",
     "expect-fail"),
]


# ---------------------------------------------------------------------------------------------- generated, per target function
def _segment(root, rel, cls, name):
    import contracts.c12_ext as C

    src = open(os.path.join(root, rel)).read()
    fn = C.find_fn(ast.parse(src), cls, name)
    if fn is None:
        return None, None
    lines = src.splitlines(keepends=True)
    return "".join(lines[fn.lineno - 1:fn.end_lineno]), fn


def _body_insert(seg, fn, stmt):
    """insert `stmt` as the first statement after the docstring"""
    first = fn.body[0]
    at = (first.end_lineno if isinstance(first, ast.Expr) and isinstance(first.value, ast.Constant) else first.lineno - 1) - fn.lineno + 1
    lines = seg.splitlines(keepends=True)
    indent = " " * fn.body[0].col_offset
    return "".join(lines[:at]) + indent + stmt + "\n" + "".join(lines[at:])


def _generated():
    import contracts.c12_ext as C

    root = os.environ.get("VERIF_REPO", "/repo")
    out = []
    for rel, cls, name, _ in C.TARGETS:
        seg, fn = _segment(root, rel, cls, name)
        if seg is None:
            continue
        q = f"{(cls + '.') if cls else ''}{name}::"
        ps = C.params_of(fn)
        kwd = fn.args.kwarg.arg if fn.args.kwarg else None
        for P, bad in (("max_bond", "None"), ("cutoff", "0.0")):
            new = None
            for pat, rep in ((rf"\b{P}={P}\b", f"{P}={bad}"), (rf'\["{P}"\] = {P}\b', f'["{P}"] = {bad}'),
                             (rf'setdefault\("{P}", {P}\)', f'setdefault("{P}", {bad})'),
                             (rf"\b{P}=(chi|eps)\b", f"{P}={bad}")):
                if re.search(pat, seg):
                    new = re.sub(pat, rep, seg, count=1)
                    break
            if new is None and P in ps:
                continue
            if new is None:
                D = kwd if kwd and P not in ps else "contract_boundary_opts"
                new = _body_insert(seg, fn, f'{D} = dict({D} or (), {P}={bad})')
            out.append((rel, q + "sink[@@:" + P + ":", seg, new, "expect-fail"))
        if "max_bond" in ps:
            out.append((rel, q + "max_bond-not-rebound", seg,
                        _body_insert(seg, fn, "max_bond = max_bond if max_bond is None else max_bond + 1"), "expect-fail"))
        # a further scalar option handed to a compressing callee is negated / replaced (first applicable call, located by ast)
        done = False
        for c in sorted([c for c in ast.walk(fn) if isinstance(c, ast.Call) and C._callee_name(c) in C.SINKS],
                        key=lambda c: c.lineno):
            for kw in c.keywords:
                Q = kw.arg
                if not done and Q in C.OPTS and Q in ps and (Q != "mode" or rel in (T2, T3)) and isinstance(kw.value, ast.Name) \
                        and kw.value.id == Q and kw.value.lineno == kw.value.end_lineno:
                    lines = seg.splitlines(keepends=True)
                    li = kw.value.lineno - fn.lineno
                    ln = lines[li]
                    if ln[kw.value.col_offset:kw.value.end_col_offset] == Q:
                        lines[li] = ln[:kw.value.col_offset] + f"(not {Q})" + ln[kw.value.end_col_offset:]
                        out.append((rel, q + "sink[@@:opt:" + Q + ":", seg, "".join(lines), "expect-fail"))
                        done = True
        out.append((rel, q, seg, _body_insert(seg, fn, "pass  # benign"), "benign"))
    return out


try:
    MUTANTS = MUTANTS + _generated()
except Exception as _e:  # noqa: never hide the hand-written list
    import warnings

    warnings.warn(f"mutants_c12x: generated mutants unavailable: {_e}")


def run_mutant(tmp, relpath, suffix, old, new):
    """'failed' = an obligation whose id contains every '@@'-part of `suffix` fails on the mutated tree (and not on the unchanged
    one); 'discharged' = every such obligation is discharged on the mutated tree"""
    import contracts.c12_ext as C

    root = os.environ.get("VERIF_REPO", "/repo")
    src = open(os.path.join(root, relpath)).read()
    if src.count(old) < 1:
        return "stale", "old text not found in the current source"
    dst = os.path.join(tmp, relpath)
    os.makedirs(os.path.dirname(dst), exist_ok=True)
    open(dst, "w").write(src.replace(old, new, 1))
    parts = suffix.split("@@")
    fn_part = parts[0].split("::")[0]
    try:
        if fn_part == "tensor_network_ag_compress":
            base, mut = C.dispatch_obligations(root), C.dispatch_obligations(tmp)
        elif "::dispatch[" in parts[0]:
            base, mut = C.dispatch3d_obligations(root), C.dispatch3d_obligations(tmp)
        else:
            only = [relpath + "::" + fn_part + "::"]
            base = C.threading_obligations(root, only=[relpath + "::" + fn_part])
            mut = C.threading_obligations(tmp, only=[relpath + "::" + fn_part])
            base = [o for o in base if o.id.startswith(only[0])]
            mut = [o for o in mut if o.id.startswith(only[0])]
    finally:
        shutil.rmtree(os.path.join(tmp, "quimb"), ignore_errors=True)
    base_failed = {o.id for o in base if o.status == "failed"}
    hit = [o for o in mut if all(p in o.id for p in parts)]
    if not hit:
        return "stale", f"no obligation id contains {parts!r}"
    newly = [o for o in hit if o.status == "failed" and o.id not in base_failed]
    if newly:
        return "failed", ", ".join(o.id.split("::", 2)[2][:60] for o in newly[:2])
    bad = [o for o in hit if o.status != "discharged" and o.id not in base_failed]
    if bad:
        return bad[0].status, f"{bad[0].id.split('::', 2)[2]}: {str(bad[0].detail)[:100]}"
    return "discharged", ""
