"""deliberate breakage of the worker partition of the term-operator kernels (contracts/c16_builder.py provider)"""
import os
import shutil

MODULES = ["contracts.c16_builder"]
CC = "quimb/operator/configcore.py"
BB = "quimb/operator/builder.py"
H = "    for ci in range(world_rank, D, world_size):"

MUTANTS = [
    (CC, "build_coo_numba_core_nosymm", H, "    chunk = D // world_size\n    for ci in range(world_rank * chunk, (world_rank + 1) * chunk):", "expect-fail"),
    (CC, "build_coo_numba_core_nosymm", H, "    for ci in range(world_rank, D, world_size + 1):", "expect-fail"),
    # drops the last configuration in the serial call as well: parallel == serial still holds (a C19 matter, not C16)
    (CC, "build_coo_numba_core_nosymm", H, "    for ci in range(world_rank, D - 1, world_size):", "benign"),
    (CC, "build_coo_numba_core_nosymm", H, "    for ci in range(world_rank * 2, D, world_size):", "expect-fail"),
    (CC, "build_coo_numba_core_nosymm", H, "    for ci in range(0, D, world_size):", "expect-fail"),
    # contiguous chunks done right (ceil division, clipped): a benign re-partition
    (CC, "build_coo_numba_core_nosymm", H,
     "    chunk = (D + world_size - 1) // world_size\n    for ci in range(world_rank * chunk, min((world_rank + 1) * chunk, D)):", "benign"),
    (CC, "build_coo_numba_core", "            n, p, coupling_map, dtype, world_size, world_rank\n",
     "            n, p, coupling_map, dtype, world_rank, world_size\n", "expect-fail"),
    (CC, "matvec_numba", "        matvec_u1(x, out, n, k, coupling_map, world_size, world_rank)",
     "        matvec_u1(x, out, n, k, coupling_map, world_size)", "expect-fail"),
    (BB, "SparseOperatorBuilder.matvec", "                world_rank=i,\n                world_size=world_size,\n                **kwargs,\n            )\n            for i in range(world_size)\n        ]\n        for f in fs:\n            f.result()",
     "                world_rank=i,\n                world_size=world_size,\n                **kwargs,\n            )\n            for i in range(1, world_size)\n        ]\n        for f in fs:\n            f.result()", "expect-fail"),
    (BB, "SparseOperatorBuilder.build_coo_data", "                    world_rank=i,\n                    world_size=world_size,\n                    **kwargs,\n                )\n                for i in range(world_size)",
     "                    world_rank=i,\n                    world_size=world_size + 1,\n                    **kwargs,\n                )\n                for i in range(world_size)", "expect-fail"),
]


def run_mutant(tmp, relpath, suffix, old, new):
    from vf import pyvc
    import contracts.c16_builder as B

    for rel in (CC, BB):
        src = open(os.path.join("/repo", rel)).read()
        if rel == relpath:
            if src.count(old) < 1:
                return "stale", "old text not found in the current source"
            src = src.replace(old, new, 1)
        dst = os.path.join(tmp, rel)
        os.makedirs(os.path.dirname(dst), exist_ok=True)
        open(dst, "w").write(src)
    pyvc.REPO = tmp
    os.environ["VERIF_NO_NATIVE_REPLAY"] = "1"
    try:
        res = B.provider("quick")
    finally:
        pyvc.REPO = "/repo"
        os.environ.pop("VERIF_NO_NATIVE_REPLAY", None)
        shutil.rmtree(os.path.join(tmp, "quimb"), ignore_errors=True)
    mine = [r for r in res if f"::{suffix}::" in r.id]
    failed = [r for r in mine if r.status == "failed"]
    if failed:
        return "failed", ", ".join(sorted({r.id.split("::")[-1] for r in failed})[:3])
    unk = [r for r in res if r.status == "unknown"]
    if unk:
        return "unknown", f"{len(unk)} undecided: {unk[0].id.split('::')[-1]} {unk[0].detail}"
    return "discharged", ""
