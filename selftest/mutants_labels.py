"""deliberate breakages of the real source that the label-calculus contracts (contracts/c09_labels.py) must catch
(see vf/selftest.py).  The first three entries per finding are the REVERTS of the fixes of findings 7, 11, 15."""
MODULES = ['contracts.c09_labels']
_FILES = ('quimb/tensor/tnag/core.py', 'quimb/tensor/tn1d/core.py', 'quimb/tensor/tn1d/dmrg.py', 'quimb/tensor/gating.py')


def run_mutant(tmp, relpath, suffix, old, new):
    """as vf.selftest.run_e1_mutant, but the scratch tree also holds UNMODIFIED copies of the other source files of this
    module's carriers: the contracts call each other across files (expec_TN_1D -> tensor_network_align, DMRG.__init__ ->
    TensorNetworkGen.align, partial_trace_to_mpo -> reindex_sites) and the callee's signature is read from the tree"""
    import os
    import shutil
    from vf import pyvc
    src = open(os.path.join("/repo", relpath)).read()
    if src.count(old) < 1:
        return "stale", "old text not found in the current source"
    made = []
    for f in _FILES:
        dst = os.path.join(tmp, f)
        os.makedirs(os.path.dirname(dst), exist_ok=True)
        if f == relpath:
            open(dst, "w").write(src.replace(old, new, 1))
        else:
            shutil.copyfile(os.path.join("/repo", f), dst)
        made.append(dst)
    pyvc.REPO = tmp
    pyvc._SRC_CACHE.clear()
    try:
        cons = [v for k, v in pyvc.REGISTRY.items() if k.endswith(suffix)]
        if not cons:
            return "stale", f"no contract registered for {suffix}"
        rep = pyvc.verify(cons[0])
    finally:
        pyvc.REPO = "/repo"
        pyvc._SRC_CACHE.clear()
        for dst in made:
            os.remove(dst)
    if rep.failed:
        return "failed", ", ".join(sorted({o.label.split("#")[0] for o in rep.failed})[:3])
    if rep.status != "ok":
        return rep.status, rep.detail[:120]
    if rep.unknown:
        return "unknown", f"{len(rep.unknown)} undecided"
    return "discharged", ""


_AG = 'quimb/tensor/tnag/core.py'
_1D = 'quimb/tensor/tn1d/core.py'
_DM = 'quimb/tensor/tn1d/dmrg.py'
MUTANTS = [
    # ---- finding 7 (reverted): B renamed on ALL its sites, not only where A acts
    (_AG, 'tensor_network_apply_op_op', '        A.upper_ind_id = B.upper_ind_id\n        B.reindex_upper_sites_(inner_ind_id, where=sites_present_in_A)', '        A.upper_ind_id = B.upper_ind_id\n        B.reindex_upper_sites_(inner_ind_id)', 'expect-fail'),
    (_AG, 'tensor_network_apply_op_op', '        A.upper_ind_id = B.lower_ind_id\n        B.reindex_lower_sites_(inner_ind_id, where=sites_present_in_A)', '        A.upper_ind_id = B.lower_ind_id\n        B.reindex_lower_sites_(inner_ind_id)', 'expect-fail'),
    # ---- tensor_network_apply_op_op
    (_AG, 'tensor_network_apply_op_op', '        A.lower_ind_id = inner_ind_id\n        A.upper_ind_id = B.upper_ind_id\n        B.reindex_upper_sites_', '        A.upper_ind_id = inner_ind_id\n        A.lower_ind_id = B.upper_ind_id\n        B.reindex_upper_sites_', 'expect-fail'),
    (_AG, 'tensor_network_apply_op_op', '        A.upper_ind_id = B.lower_ind_id\n        B.reindex_lower_sites_(inner_ind_id, where=sites_present_in_A)\n    elif (which_A, which_B) == ("upper", "upper")', '        A.upper_ind_id = B.lower_ind_id\n        B.reindex_upper_sites_(inner_ind_id, where=sites_present_in_A)\n    elif (which_A, which_B) == ("upper", "upper")', 'expect-fail'),
    (_AG, 'tensor_network_apply_op_op', '    B = B if inplace else B.copy()\n    A = A if inplace_A else A.copy()\n\n    coordinate_formatter = get_coordinate_formatter(A._NDIMS)\n    inner_ind_id = rand_uuid() + f"{coordinate_formatter}"\n\n    # only join', '    B = B if inplace else B.copy()\n    A = A\n\n    coordinate_formatter = get_coordinate_formatter(A._NDIMS)\n    inner_ind_id = rand_uuid() + f"{coordinate_formatter}"\n\n    # only join', 'expect-fail'),
    (_AG, 'tensor_network_apply_op_op', '    elif (which_A, which_B) == ("upper", "lower"):\n        A.upper_ind_id = inner_ind_id\n        A.lower_ind_id = B.lower_ind_id', '    elif (which_A, which_B) == ("upper", "lower"):\n        A.upper_ind_id = inner_ind_id\n        A.lower_ind_id = B.upper_ind_id', 'expect-fail'),
    (_AG, 'tensor_network_apply_op_op', '    inner_ind_id = rand_uuid() + f"{coordinate_formatter}"\n\n    # only join', '    inner_ind_id = B.lower_ind_id\n\n    # only join', 'expect-fail'),
    (_AG, 'tensor_network_apply_op_op', '    B |= A\n\n    if contract:\n        # optionally contract all tensor at each site\n        for site in B.gen_sites_present', '    A |= B\n\n    if contract:\n        # optionally contract all tensor at each site\n        for site in B.gen_sites_present', 'expect-fail'),
    (_AG, 'tensor_network_apply_op_op', '    else:\n        raise ValueError("Invalid `which_A` and `which_B` combination.")', '    else:\n        pass', 'expect-fail'),
    (_AG, 'tensor_network_apply_op_op', '        if fuse_multibonds:\n            B.fuse_multibonds_()\n\n    if compress:', '        if not fuse_multibonds:\n            B.fuse_multibonds_()\n\n    if compress:', 'benign'),
    # ---- tensor_network_apply_op_vec
    (_AG, 'tensor_network_apply_op_vec', '    x.reindex_sites_(inner_ind_id, where=sites_present_in_A)', '    x.reindex_sites_(inner_ind_id)', 'expect-fail'),
    (_AG, 'tensor_network_apply_op_vec', '        A.lower_ind_id = inner_ind_id\n        A.upper_ind_id = x.site_ind_id\n    elif which_A == "upper":', '        A.upper_ind_id = inner_ind_id\n        A.lower_ind_id = x.site_ind_id\n    elif which_A == "upper":', 'expect-fail'),
    (_AG, 'tensor_network_apply_op_vec', '    x = x if inplace else x.copy()\n    A = A if inplace_A else A.copy()', '    x = x\n    A = A if inplace_A else A.copy()', 'expect-fail'),
    (_AG, 'tensor_network_apply_op_vec', '    x = x if inplace else x.copy()\n    A = A if inplace_A else A.copy()', '    x = x if inplace else x.copy()\n    A = A if inplace else A.copy()', 'expect-fail'),
    (_AG, 'tensor_network_apply_op_vec', '    sites_present_in_A = tuple(A.gen_sites_present())\n    x.reindex_sites_', '    sites_present_in_A = tuple(x.gen_sites_present())\n    x.reindex_sites_', 'expect-fail'),
    (_AG, 'tensor_network_apply_op_vec', '    x.reindex_sites_(inner_ind_id, where=sites_present_in_A)\n\n    # combine the tensor networks\n    x |= A', '    x.site_ind_id = inner_ind_id\n\n    # combine the tensor networks\n    x |= A', 'expect-fail'),
    (_AG, 'tensor_network_apply_op_vec', '    inner_ind_id = rand_uuid() + f"{coordinate_formatter}"\n\n    if which_A == "lower":', '    inner_ind_id = "b" + f"{coordinate_formatter}"\n\n    if which_A == "lower":', 'expect-fail'),
    # ---- tensor_network_align
    (_AG, 'tensor_network_align', '            if i != 0:\n                tn.upper_ind_id = ind_ids[i - 1]\n            if i != n - 1:\n                tn.lower_ind_id = ind_ids[i]', '            if i != 0:\n                tn.lower_ind_id = ind_ids[i - 1]\n            if i != n - 1:\n                tn.upper_ind_id = ind_ids[i]', 'expect-fail'),
    (_AG, 'tensor_network_align', '            elif i == n - 1:\n                tn.site_ind_id = ind_ids[i - 1]', '            elif i == n - 1:\n                tn.site_ind_id = ind_ids[i]', 'expect-fail'),
    (_AG, 'tensor_network_align', '    if not inplace:\n        tns = [tn.copy() for tn in tns]', '    if inplace:\n        tns = [tn.copy() for tn in tns]', 'expect-fail'),
    (_AG, 'tensor_network_align', '            ind_ids = [tns[0].lower_ind_id]', '            ind_ids = [tns[0].upper_ind_id]', 'expect-fail'),
    (_AG, 'tensor_network_align', '        tns[-1].lower_ind_id = tns[0].upper_ind_id', '        tns[-1].lower_ind_id = tns[0].lower_ind_id', 'expect-fail'),
    (_AG, 'tensor_network_align', '            f"__ind_{get_symbol(i)}{coordinate_formatter}__"', '            f"__ind_{coordinate_formatter}__"', 'expect-fail'),
    (_AG, 'tensor_network_align', '            if i != n - 1:\n                tn.lower_ind_id = ind_ids[i]', '            if i != n:\n                tn.lower_ind_id = ind_ids[i]', 'expect-fail'),
    (_AG, 'tensor_network_align', '            else:\n                raise ValueError(\n                    "An TN \'vector\' can only be aligned as the "', '            elif False:\n                raise ValueError(\n                    "An TN \'vector\' can only be aligned as the "', 'expect-fail'),
    (_AG, 'TensorNetworkGen.align', '        return tensor_network_align(self, *args, inplace=inplace, **kwargs)', '        return tensor_network_align(*args, self, inplace=inplace, **kwargs)', 'expect-fail'),
    (_AG, 'TensorNetworkGen.align', '        return tensor_network_align(self, *args, inplace=inplace, **kwargs)', '        return tensor_network_align(self, *args, **kwargs)', 'expect-fail'),
    # ---- partial renames and setters
    (_AG, '.reindex_upper_sites', '            {self.upper_ind(x): new_id.format(x) for x in where},\n            inplace=inplace,\n        )\n\n    reindex_upper_sites_', '            {self.lower_ind(x): new_id.format(x) for x in where},\n            inplace=inplace,\n        )\n\n    reindex_upper_sites_', 'expect-fail'),
    (_AG, '.reindex_lower_sites', '        if where is None:\n            where = self.gen_sites_present()\n\n        return self.reindex(\n            {self.lower_ind(x)', '        if where is not None:\n            where = self.gen_sites_present()\n\n        return self.reindex(\n            {self.lower_ind(x)', 'expect-fail'),
    (_AG, 'GenVector.reindex_sites', '            {self.site_ind(x): new_id.format(x) for x in where},\n            inplace=inplace,', '            {self.site_ind(x): new_id.format(x) for x in where},\n            inplace=True,', 'expect-fail'),
    (_AG, 'GenVector.reindex_sites', '            {self.site_ind(x): new_id.format(x) for x in where},', '            {new_id.format(x): self.site_ind(x) for x in where},', 'expect-fail'),
    (_AG, 'Operator.upper_ind_id', '            self.reindex_upper_sites_(new_id)\n            self._upper_ind_id = new_id', '            self.reindex_upper_sites_(new_id)\n            self._lower_ind_id = new_id', 'expect-fail'),
    (_AG, 'Operator.upper_ind_id', '            self.reindex_upper_sites_(new_id)\n            self._upper_ind_id = new_id', '            self._upper_ind_id = new_id\n            self.reindex_upper_sites_(new_id)', 'expect-fail'),
    (_AG, 'Operator.lower_ind_id', '        if new_id == self._upper_ind_id:\n            raise ValueError(\n                "Setting the same upper and lower', '        if new_id != self._upper_ind_id:\n            raise ValueError(\n                "Setting the same upper and lower', 'expect-fail'),
    (_AG, 'Operator.lower_ind_id', '            self.reindex_lower_sites_(new_id)\n            self._lower_ind_id = new_id', '            self.reindex_upper_sites_(new_id)\n            self._lower_ind_id = new_id', 'expect-fail'),
    (_AG, 'Vector.site_ind_id', '            self.reindex_sites_(new_id)\n            self._site_ind_id = new_id', '            self._site_ind_id = new_id', 'expect-fail'),
    (_AG, 'Operator.apply', '                inplace_A=inplace,\n                **compress_opts,\n            )\n        if isinstance(other, TensorNetworkGenVector):', '                inplace=inplace,\n                **compress_opts,\n            )\n        if isinstance(other, TensorNetworkGenVector):', 'expect-fail'),
    (_AG, 'Operator.apply', '                A=self,\n                B=other,', '                A=other,\n                B=self,', 'expect-fail'),
    # ======== C10: DMRG.__init__ / DMRGX.__init__ (energy network assembly)
    # ---- finding 11 (reverted): the ket aligned first => ket on the ROW labels of the operator
    (_DM, 'DMRG.__init__', '        self._b.align_(\n            self.ham,\n            self._k,\n            ind_ids=(rand_uuid() + "{}", self._k.site_ind_id),\n        )', '        self._k.align_(self.ham, self._b)', 'expect-fail'),
    (_DM, 'DMRG.__init__', '            ind_ids=(rand_uuid() + "{}", self._k.site_ind_id),', '            ind_ids=(self._k.site_ind_id, rand_uuid() + "{}"),', 'expect-fail'),
    (_DM, 'DMRG.__init__', '        self.TN_energy = self._b | self.ham | self._k', '        self.TN_energy = self._k | self.ham | self._b', 'expect-fail'),
    (_DM, 'DMRG.__init__', '        self._b = self._k.H\n', '        self._b = self._k.copy()\n', 'expect-fail'),
    (_DM, 'DMRG.__init__', '        self.ham = ham.copy()\n', '        self.ham = ham\n', 'expect-fail'),
    (_DM, 'DMRG.__init__', '            self._k = p0.copy()\n', '            self._k = p0.H\n', 'expect-fail'),
    (_DM, 'DMRG.__init__', '        self._b.align_(\n            self.ham,\n            self._k,\n            ind_ids=(rand_uuid() + "{}", self._k.site_ind_id),\n        )', '        self._b.align_(self.ham, self._k)', 'expect-fail'),
    (_DM, 'DMRG.__init__', '            self.TN_norm = self._b | eye | self._k', '            self.TN_norm = self._k | eye | self._b', 'expect-fail'),
    (_DM, 'DMRG.__init__', '        self.ham.add_tag("_HAM")', '        self.ham.add_tag("_HAMILTONIAN")', 'benign'),
    (_DM, 'DMRGX.__init__', '        var_ham1.upper_ind_id = self._b.site_ind_id\n        var_ham1.lower_ind_id = "__ham2{}__"\n        var_ham2.upper_ind_id = "__ham2{}__"\n        var_ham2.lower_ind_id = self._k.site_ind_id', '        var_ham1.upper_ind_id = "__ham2{}__"\n        var_ham1.lower_ind_id = self._k.site_ind_id\n        var_ham2.lower_ind_id = "__ham2{}__"\n        var_ham2.upper_ind_id = self._b.site_ind_id', 'expect-fail'),
    (_DM, 'DMRGX.__init__', '        self.TN_energy2 = self._b | var_ham1 | var_ham2 | self._k', '        self.TN_energy2 = self._b | var_ham1 | self._k', 'expect-fail'),
    (_DM, 'DMRGX.__init__', '        var_ham2.upper_ind_id = "__ham2{}__"', '        var_ham2.upper_ind_id = "__ham3{}__"', 'expect-fail'),
    (_DM, 'DMRGX.__init__', '        var_ham2 = self.ham.copy()', '        var_ham2 = self.ham.H', 'expect-fail'),
    (_DM, 'DMRGX.__init__', '        self.TN_energy2 = self._b | var_ham1 | var_ham2 | self._k', '        self.TN_energy2 = self._k | var_ham1 | var_ham2 | self._b', 'expect-fail'),
    # ======== C09 / C13: MatrixProductState.partial_trace_to_mpo and the 1D reindex_sites override
    # ---- finding 15 (reverted): the conjugated layer keeps the k{} labels that are declared 'upper'
    (_1D, '.partial_trace_to_mpo', '        p_bra = self.H\n        p_bra.reindex_sites_(upper_ind_id, where=keep)\n        rho = self & p_bra', '        p_bra = self.copy()\n        p_bra.reindex_sites_(upper_ind_id, where=keep)\n        rho = self.H & p_bra', 'expect-fail'),
    (_1D, '.partial_trace_to_mpo', '            lower_ind_id=upper_ind_id,\n            upper_ind_id=self.site_ind_id,', '            upper_ind_id=upper_ind_id,\n            lower_ind_id=self.site_ind_id,', 'expect-fail'),
    (_1D, '.partial_trace_to_mpo', '        p_bra.reindex_sites_(upper_ind_id, where=keep)', '        p_bra.reindex_sites_(upper_ind_id)', 'expect-fail'),
    (_1D, '.partial_trace_to_mpo', '        p_bra = self.H\n', '        p_bra = self.copy()\n', 'expect-fail'),
    (_1D, '.partial_trace_to_mpo', '        p_bra = self.H\n        p_bra.reindex_sites_(upper_ind_id, where=keep)', '        p_bra = self.H\n        self.reindex_sites_(upper_ind_id, where=keep)', 'expect-fail'),
    (_1D, '.partial_trace_to_mpo', '                reind[upper_ind_id.format(old)] = upper_ind_id.format(new)', '                reind[upper_ind_id.format(old)] = self.site_ind(new)', 'expect-fail'),
    (_1D, '.partial_trace_to_mpo', '                reind[upper_ind_id.format(old)] = upper_ind_id.format(new)', '                pass', 'expect-fail'),
    (_1D, '.partial_trace_to_mpo', '                reind[self.site_ind(old)] = self.site_ind(new)', '                reind[self.site_ind(new)] = self.site_ind(old)', 'expect-fail'),
    (_1D, '.partial_trace_to_mpo', '            L = len(keep)\n        else:\n            L = self.L', '            L = self.L\n        else:\n            L = self.L', 'expect-fail'),
    (_1D, '.partial_trace_to_mpo', '        if rescale_sites:\n            # e.g.', '        if not rescale_sites:\n            # e.g.', 'expect-fail'),
    (_1D, '.partial_trace_to_mpo', '                rho ^= self.site_tag(i)\n            else:', '                rho ^= self.site_tag(i + 0)\n            else:', 'benign'),
    (_1D, '1DVector.reindex_sites', '        elif isinstance(where, slice):\n            where = self.slice2sites(where)\n\n        return super().reindex_sites(new_id, where, inplace=inplace)', '        elif isinstance(where, slice):\n            where = self.slice2sites(where)\n\n        return super().reindex_sites(new_id, None, inplace=inplace)', 'expect-fail'),
    (_1D, '1DVector.reindex_sites', '        return super().reindex_sites(new_id, where, inplace=inplace)', '        return super().reindex_sites(new_id, where)', 'expect-fail'),
    (_1D, '1DVector.reindex_sites', '        elif isinstance(where, slice):\n            where = self.slice2sites(where)\n\n        return super()', '        elif not isinstance(where, slice):\n            where = self.slice2sites(where)\n\n        return super()', 'expect-fail'),
    # ======== C13: make_reduced_density_matrix / partial_trace_exact / local_expectation_exact
    # ---- make_reduced_density_matrix
    (_AG, '.make_reduced_density_matrix', '            if coo in where:\n                reindex_map[kix] = bra_ind_id.format(coo)', '            if coo not in where:\n                reindex_map[kix] = bra_ind_id.format(coo)', 'expect-fail'),
    (_AG, '.make_reduced_density_matrix', '            if (len(tids) == 1) and allow_dangling:', '            if (len(tids) == 1) or allow_dangling:', 'expect-fail'),
    (_AG, '.make_reduced_density_matrix', '            if ix in phys_inds:\n                # traced out or handled above\n                continue', '            if ix in phys_inds:\n                # traced out or handled above\n                pass', 'expect-fail'),
    (_AG, '.make_reduced_density_matrix', '        bra = self.reindex(reindex_map).conj_()', '        bra = self.reindex(reindex_map)', 'expect-fail'),
    (_AG, '.make_reduced_density_matrix', '        ket = self.copy()\n        bra = self.reindex(reindex_map).conj_()', '        ket = self.reindex(reindex_map)\n        bra = self.copy().conj_()', 'expect-fail'),
    (_AG, '.make_reduced_density_matrix', '            reindex_map[ix] = ix + mangle_append', '            reindex_map[ix] = ix', 'expect-fail'),
    (_AG, '.make_reduced_density_matrix', '            phys_inds.add(kix)', '            pass', 'expect-fail'),
    (_AG, '.make_reduced_density_matrix', '        return ket.combine(bra, virtual=True, check_collisions=False)', '        return ket.combine(bra, virtual=True, check_collisions=True)', 'expect-fail'),
    (_AG, '.make_reduced_density_matrix', '                reindex_map[kix] = bra_ind_id.format(coo)', '                reindex_map[kix] = kix + mangle_append', 'expect-fail'),
    (_AG, '.make_reduced_density_matrix', '            ket.add_tag(layer_tags[0])\n            bra.add_tag(layer_tags[1])', '            ket.add_tag(layer_tags[1])\n            bra.add_tag(layer_tags[0])', 'benign'),
    # ---- partial_trace_exact
    (_AG, '.partial_trace_exact', '            output_inds=(*k_inds, *b_inds),', '            output_inds=(*b_inds, *k_inds),', 'expect-fail'),
    (_AG, '.partial_trace_exact', '            rho_array_fused = rho.to_dense(k_inds, b_inds)\n            nfactor = do("trace", rho_array_fused)', '            rho_array_fused = rho.to_dense(b_inds, k_inds)\n            nfactor = do("trace", rho_array_fused)', 'expect-fail'),
    (_AG, '.partial_trace_exact', '        tn = self.make_reduced_density_matrix(where, bra_ind_id=bra_ind_id)', '        tn = self.make_reduced_density_matrix(where)', 'expect-fail'),
    (_AG, '.partial_trace_exact', '            if normalized is True:\n                # multiply norm in\n                rho = rho_array_fused / nfactor', '            if normalized:\n                # multiply norm in\n                rho = rho_array_fused / nfactor', 'expect-fail'),
    (_AG, '.partial_trace_exact', '            if normalized is True:\n                # multiply norm in\n                rho = rho.data / nfactor\n            else:\n                rho = rho.data', '            if normalized is True:\n                # multiply norm in\n                rho = rho.data / nfactor / nfactor\n            else:\n                rho = rho.data', 'expect-fail'),
    (_AG, '.partial_trace_exact', '                rho.multiply_(1 / nfactor)', '                pass', 'expect-fail'),
    (_AG, '.partial_trace_exact', '        if normalized == "return":\n            return rho, nfactor\n        else:\n            return rho\n\n    def local_expectation_exact', '        if normalized == "return":\n            return nfactor, rho\n        else:\n            return rho\n\n    def local_expectation_exact', 'expect-fail'),
    (_AG, '.partial_trace_exact', '        b_inds = tuple(map(bra_ind_id.format, where))', '        b_inds = tuple(map(self.site_ind, where))', 'expect-fail'),
    (_AG, '.partial_trace_exact', '                rehearse, tn, optimize, output_inds=k_inds + b_inds', '                rehearse, tn, optimize, output_inds=b_inds + k_inds', 'expect-fail'),
    (_AG, '.partial_trace_exact', '            if rho_array_fused is None:\n                # might have computed already\n                rho_array_fused = rho.to_dense(k_inds, b_inds)', '            if rho_array_fused is None:\n                # might have computed already\n                rho_array_fused = rho.to_dense(b_inds, k_inds)', 'expect-fail'),
    # ---- local_expectation_exact
    (_AG, '.local_expectation_exact', '                tuple(range(ng, 2 * ng)) + tuple(range(ng)),', '                tuple(range(2 * ng)),', 'expect-fail'),
    (_AG, '.local_expectation_exact', '                tuple(range(ng, 2 * ng)) + tuple(range(ng)),', '                tuple(range(ng)) + tuple(range(ng, 2 * ng)),', 'expect-fail'),
    (_AG, '.local_expectation_exact', '                tuple(range(ng, 2 * ng)) + tuple(range(ng)),', '                tuple(range(ng, 2 * ng)) + tuple(range(1, ng + 1)),', 'expect-fail'),
    (_AG, '.local_expectation_exact', '                tuple(range(2 * ng)),\n', '                tuple(range(2 * ng - 1)),\n', 'expect-fail'),
    (_AG, '.local_expectation_exact', '            get="array",', '            get="matrix",', 'expect-fail'),
    (_AG, '.local_expectation_exact', '            normalized=normalized,\n            get="array",', '            normalized=True,\n            get="array",', 'expect-fail'),
    (_AG, '.local_expectation_exact', '        if do("ndim", G) != 2 * ng:', '        if do("ndim", G) != 2 * ng and False:', 'expect-fail'),
    (_AG, '.local_expectation_exact', '        if normalized == "return":\n            return expec, nfactor', '        if normalized == "return":\n            return nfactor, expec', 'expect-fail'),
    (_AG, '.local_expectation_exact', '            where=where,\n            optimize=optimize,', '            where=where[::-1],\n            optimize=optimize,', 'expect-fail'),
    # ======== C09: expec_TN_1D / MPS.expec
    (_1D, 'expec_TN_1D', '    expec_tn = functools.reduce(operator.or_, tensor_network_align(*tns))', '    expec_tn = functools.reduce(operator.or_, tensor_network_align(*tns[::-1]))', 'expect-fail'),
    (_1D, 'expec_TN_1D', '    expec_tn = functools.reduce(operator.or_, tensor_network_align(*tns))', '    expec_tn = functools.reduce(operator.or_, tensor_network_align(*tns, inplace=True))', 'expect-fail'),
    (_1D, 'expec_TN_1D', '    expec_tn = functools.reduce(operator.or_, tensor_network_align(*tns))', '    expec_tn = functools.reduce(operator.or_, tns)', 'expect-fail'),
    (_1D, 'expec_TN_1D', '    expec_tn = functools.reduce(operator.or_, tensor_network_align(*tns))', '    expec_tn = functools.reduce(operator.or_, tensor_network_align(*tns)[1:])', 'expect-fail'),
    (_1D, 'expec_TN_1D', '    expec_tn = functools.reduce(operator.or_, tensor_network_align(*tns))', '    expec_tn = functools.reduce(operator.or_, tensor_network_align(tns[0].H, *tns[1:]))', 'expect-fail'),
    (_1D, 'expec_TN_1D', '        return expec_tn ^ all\n', '        return expec_tn\n', 'expect-fail'),
    (_1D, 'expec_TN_1D', '    if not cyclic:\n        compress = False', '    if cyclic:\n        compress = False', 'benign'),
    (_1D, '1DVector.expec', '        return expec_TN_1D(self, *args, **kwargs)', '        return expec_TN_1D(*args, self, **kwargs)', 'expect-fail'),
    (_1D, '1DVector.expec', '        return expec_TN_1D(self, *args, **kwargs)', '        return expec_TN_1D(self.H, *args, **kwargs)', 'expect-fail'),
    (_1D, '1DVector.expec', '        return expec_TN_1D(self, *args, **kwargs)', '        return expec_TN_1D(*args, **kwargs)', 'expect-fail'),
    # ======== C10: local problems (form_local_ops, 1-site / 2-site updates, parse_2site_inds_dims)
    # ---- form_local_ops
    (_DM, 'DMRG.form_local_ops', '            Heff = (self._eff_ham ^ "_HAM")["_HAM"].to_dense(lix, uix)', '            Heff = (self._eff_ham ^ "_HAM")["_HAM"].to_dense(uix, lix)', 'expect-fail'),
    (_DM, 'DMRG.form_local_ops', '            "left_inds": lix,\n            "right_inds": uix,', '            "left_inds": uix,\n            "right_inds": lix,', 'expect-fail'),
    (_DM, 'DMRG.form_local_ops', '                Neff = (self._eff_norm ^ "_EYE")["_EYE"].to_dense(lix, uix)', '                Neff = (self._eff_norm ^ "_EYE")["_EYE"].to_dense(uix, lix)', 'expect-fail'),
    (_DM, 'DMRG.form_local_ops', '                Neff = TNLinearOperator(self._eff_norm["_EYE"], **dims_inds)', '                Neff = TNLinearOperator(self._eff_ham["_HAM"], **dims_inds)', 'expect-fail'),
    (_DM, 'DMRG.form_local_ops', '            Heff = (self._eff_ham ^ "_HAM")["_HAM"].to_dense(lix, uix)', '            Heff = (self._eff_ham ^ "_HAM")["_KET"].to_dense(lix, uix)', 'expect-fail'),
    (_DM, 'DMRG.form_local_ops', '        return Heff, Neff', '        return Neff, Heff', 'expect-fail'),
    (_DM, 'DMRG.form_local_ops', '            dense = prod(dims) < 800', '            dense = prod(dims) < 900', 'benign'),
    (_DM, 'DMRGX.form_local_ops', '        Heff = (self._eff_ham ^ "_HAM")["_HAM"].to_dense(lix, uix)\n\n        return Heff', '        Heff = (self._eff_ham ^ "_HAM")["_HAM"].to_dense(uix, lix)\n\n        return Heff', 'expect-fail'),
    (_DM, 'DMRGX.form_local_ops', '        Heff = (self._eff_ham ^ "_HAM")["_HAM"].to_dense(lix, uix)\n\n        return Heff', '        Heff = (self._eff_ham2 ^ "_HAM")["_HAM"].to_dense(lix, uix)\n\n        return Heff', 'expect-fail'),
    (_DM, 'DMRGX.form_local_ops', '        Heff = (self._eff_ham ^ "_HAM")["_HAM"].to_dense(lix, uix)\n\n        return Heff', '        Heff = (self._eff_ham ^ "_HAM")["_HAM"].to_dense(lix, uix)\n\n        return Heff, None', 'expect-fail'),
    # ---- _update_local_state_1site
    (_DM, '._update_local_state_1site', '        uix, lix = self._k[i].inds, self._b[i].inds\n        dims = self._k[i].shape\n\n        # get local operators', '        lix, uix = self._k[i].inds, self._b[i].inds\n        dims = self._k[i].shape\n\n        # get local operators', 'expect-fail'),
    (_DM, '._update_local_state_1site', '        self._b[i].modify(data=loc_gs.conj())', '        self._b[i].modify(data=loc_gs)', 'expect-fail'),
    (_DM, '._update_local_state_1site', '        self._k[i].modify(data=loc_gs)\n        self._b[i].modify(data=loc_gs.conj())', '        self._b[i].modify(data=loc_gs)\n        self._k[i].modify(data=loc_gs.conj())', 'expect-fail'),
    (_DM, '._update_local_state_1site', '            self._b[i].modify(data=self._b[i].data / norm)', '            self._b[i].modify(data=self._k[i].data / norm)', 'expect-fail'),
    (_DM, '._update_local_state_1site', '        loc_gs_old = self._k[i].data.ravel()', '        loc_gs_old = self._b[i].data.ravel()', 'expect-fail'),
    (_DM, '._update_local_state_1site', '        Heff, Neff = self.form_local_ops(i, dims, lix, uix)', '        Heff, Neff = self.form_local_ops(i, dims, uix, lix)', 'expect-fail'),
    (_DM, '._update_local_state_1site', '            self._k[i].modify(data=self._k[i].data / norm)', '            pass', 'expect-fail'),
    # ---- parse_2site_inds_dims
    (_DM, 'parse_2site_inds_dims', '    l_bond_ind = b.bond(i, i + 1)', '    l_bond_ind = k.bond(i, i + 1)', 'expect-fail'),
    (_DM, 'parse_2site_inds_dims', '    lix_L = tuple(i for i in b[i].inds if i != l_bond_ind)', '    lix_L = tuple(i for i in k[i].inds if i != l_bond_ind)', 'expect-fail'),
    (_DM, 'parse_2site_inds_dims', '    uix = uix_L + uix_R', '    uix = uix_R + uix_L', 'expect-fail'),
    (_DM, 'parse_2site_inds_dims', '    return dims, lix_L, lix_R, lix, uix_L, uix_R, uix, l_bond_ind, u_bond_ind', '    return dims, uix_L, uix_R, uix, lix_L, lix_R, lix, l_bond_ind, u_bond_ind', 'expect-fail'),
    (_DM, 'parse_2site_inds_dims', '            for d, ix in zip(k[i + 1].shape, k[i + 1].inds)', '            for d, ix in zip(k[i].shape, k[i].inds)', 'expect-fail'),
    (_DM, 'parse_2site_inds_dims', '    u_bond_ind = k.bond(i, i + 1)', '    u_bond_ind = k.bond(i - 1, i)', 'expect-fail'),
    (_DM, 'parse_2site_inds_dims', '    dims = dims_L + dims_R', '    dims = dims_R + dims_L', 'expect-fail'),
    # ---- _update_local_state_2site
    (_DM, '._update_local_state_2site', '        ) = parse_2site_inds_dims(self._k, self._b, i)', '        ) = parse_2site_inds_dims(self._b, self._k, i)', 'expect-fail'),
    (_DM, '._update_local_state_2site', '        Heff, Neff = self.form_local_ops(i, dims, lix, uix)\n\n        # get the old 2-site', '        Heff, Neff = self.form_local_ops(i, dims, uix, lix)\n\n        # get the old 2-site', 'expect-fail'),
    (_DM, '._update_local_state_2site', '        self._b[i].modify(data=L.conj(), inds=(*lix_L, l_bond_ind))', '        self._b[i].modify(data=L, inds=(*lix_L, l_bond_ind))', 'expect-fail'),
    (_DM, '._update_local_state_2site', '        self._b[i].modify(data=L.conj(), inds=(*lix_L, l_bond_ind))', '        self._b[i].modify(data=L.conj(), inds=(*uix_L, u_bond_ind))', 'expect-fail'),
    (_DM, '._update_local_state_2site', '        self._k[i + 1].modify(data=R, inds=(u_bond_ind, *uix_R))', '        self._k[i + 1].modify(data=R, inds=(*uix_R, u_bond_ind))', 'expect-fail'),
    (_DM, '._update_local_state_2site', '        self._k[i + 1].modify(data=R, inds=(u_bond_ind, *uix_R))', '        self._k[i + 1].modify(data=L, inds=(u_bond_ind, *uix_R))', 'expect-fail'),
    (_DM, '._update_local_state_2site', '            left_inds=uix_L,\n            get="arrays",\n            absorb=direction,\n            right_inds=uix_R,', '            left_inds=uix_R,\n            get="arrays",\n            absorb=direction,\n            right_inds=uix_L,', 'expect-fail'),
    (_DM, '._update_local_state_2site', '        T_AB = Tensor(loc_gs.toarray().reshape(dims), uix)', '        T_AB = Tensor(loc_gs.toarray().reshape(dims), lix)', 'expect-fail'),
    (_DM, '._update_local_state_2site', '        loc_gs_old = self._k[i].contract(self._k[i + 1]).to_dense(uix)', '        loc_gs_old = self._b[i].contract(self._b[i + 1]).to_dense(lix)', 'expect-fail'),
    (_DM, '._update_local_state_2site', '            absorb=direction,', '            absorb="both",', 'expect-fail'),
    # ======== C06: gating (label bookkeeping of the basic route, mode table of tensor_network_gate_inds)
    # ---- _tensor_network_gate_inds_basic
    ('quimb/tensor/gating.py', '_tensor_network_gate_inds_basic', '    gix = (*bnds, *inds) if transpose else (*inds, *bnds)', '    gix = (*inds, *bnds) if transpose else (*bnds, *inds)', 'expect-fail'),
    ('quimb/tensor/gating.py', '_tensor_network_gate_inds_basic', '    gix = (*bnds, *inds) if transpose else (*inds, *bnds)', '    gix = (*inds, *bnds)', 'expect-fail'),
    ('quimb/tensor/gating.py', '_tensor_network_gate_inds_basic', '    reindex_map = dict(zip(inds, bnds))', '    reindex_map = dict(zip(bnds, inds))', 'expect-fail'),
    ('quimb/tensor/gating.py', '_tensor_network_gate_inds_basic', '    bnds = [rand_uuid() for _ in range(ng)]', '    bnds = [rand_uuid() for _ in range(ng - 1)]', 'expect-fail'),
    ('quimb/tensor/gating.py', '_tensor_network_gate_inds_basic', '        TG = Tensor(G, inds=gix, tags=tags, left_inds=bnds)', '        TG = Tensor(G, inds=gix, tags=tags, left_inds=inds)', 'expect-fail'),
    ('quimb/tensor/gating.py', '_tensor_network_gate_inds_basic', '    if contract is False:\n        # we just attach gate', '    if contract is True:\n        # we just attach gate', 'expect-fail'),
    ('quimb/tensor/gating.py', '_tensor_network_gate_inds_basic', '        tn.reindex_(reindex_map)\n        tn |= TG\n        return tn', '        tn |= TG\n        return tn', 'expect-fail'),
    ('quimb/tensor/gating.py', '_tensor_network_gate_inds_basic', '        t.gate_(G, ix, transpose=transpose)', '        t.gate_(G, ix)', 'expect-fail'),
    ('quimb/tensor/gating.py', '_tensor_network_gate_inds_basic', '        site_tids = tn._get_tids_from_inds(bnds, which="any")', '        site_tids = tn._get_tids_from_inds(inds, which="any")', 'expect-fail'),
    ('quimb/tensor/gating.py', '_tensor_network_gate_inds_basic', '    if isparam:\n        TG = PTensor.from_parray', '    if not isparam:\n        TG = PTensor.from_parray', 'expect-fail'),
    ('quimb/tensor/gating.py', '_tensor_network_gate_inds_basic', '    if (ng == 1) and contract:', '    if (ng == 1) or contract:', 'expect-fail'),
    ('quimb/tensor/gating.py', '_tensor_network_gate_inds_basic', '        tn,\n        inds,\n        contract,\n        reindex_map,\n        TG,', '        tn,\n        inds,\n        True,\n        reindex_map,\n        TG,', 'expect-fail'),
    ('quimb/tensor/gating.py', '_tensor_network_gate_inds_basic', '        t.add_tag(tags)\n        return tn', '        t.add_tag(tags)\n        return tn.copy()', 'expect-fail'),
    # ---- tensor_network_gate_inds (mode table)
    ('quimb/tensor/gating.py', 'tensor_network_gate_inds', '        (gatesplitting and (ng == 1))', '        (gatesplitting and (ng == 2))', 'expect-fail'),
    ('quimb/tensor/gating.py', 'tensor_network_gate_inds', '        ((contract == "auto-split-gate") and (ng > 2))', '        ((contract == "auto-split-gate") and (ng > 3))', 'expect-fail'),
    ('quimb/tensor/gating.py', 'tensor_network_gate_inds', '        gatesplitting = False\n        contract = False\n\n    isparam', '        gatesplitting = False\n        contract = True\n\n    isparam', 'expect-fail'),
    ('quimb/tensor/gating.py', 'tensor_network_gate_inds', '        elif contract and ng > 1:', '        elif contract and ng > 2:', 'expect-fail'),
    ('quimb/tensor/gating.py', 'tensor_network_gate_inds', '            G = ar.conj(G)\n        transpose = True', '            G = ar.conj(G)\n        transpose = False', 'expect-fail'),
    ('quimb/tensor/gating.py', 'tensor_network_gate_inds', '            G = ar.conj(G)\n        transpose = True', '            pass\n        transpose = True', 'expect-fail'),
    ('quimb/tensor/gating.py', 'tensor_network_gate_inds', '            G = G.copy()\n            G.add_function(ar.conj)', '            G.add_function(ar.conj)', 'expect-fail'),
    ('quimb/tensor/gating.py', 'tensor_network_gate_inds', '    tn = self if inplace else self.copy()\n\n    G = maybe_factor_gate', '    tn = self\n\n    G = maybe_factor_gate', 'expect-fail'),
    ('quimb/tensor/gating.py', 'tensor_network_gate_inds', '        if ng > 2:\n            raise ValueError(f"`contract=', '        if ng > 3:\n            raise ValueError(f"`contract=', 'expect-fail'),
    ('quimb/tensor/gating.py', 'tensor_network_gate_inds', '    check_opt("contract", contract, _VALID_GATE_CONTRACT)', '    check_opt("contract", contract, _SPLIT_GATE_CONTRACT)', 'expect-fail'),
    ('quimb/tensor/gating.py', 'tensor_network_gate_inds', '_VALID_GATE_CONTRACT = _BASIC_GATE_CONTRACT | _SPLIT_GATE_CONTRACT', '_VALID_GATE_CONTRACT = _BASIC_GATE_CONTRACT', 'expect-fail'),
    ('quimb/tensor/gating.py', 'tensor_network_gate_inds', '            isparam,\n            info,\n            transpose,\n            **compress_opts,\n        )\n\n    return tn', '            isparam,\n            info,\n            False,\n            **compress_opts,\n        )\n\n    return tn', 'expect-fail'),
    ('quimb/tensor/gating.py', 'tensor_network_gate_inds', '_SPLIT_GATE_CONTRACT = {\n    "auto-split-gate",\n    "split-gate",', '_SPLIT_GATE_CONTRACT = {\n    "auto-split-gate",\n    "split",', 'expect-fail'),
    ('quimb/tensor/gating.py', 'tensor_network_gate_inds', '    return tn\n\n\ndef _tensor_network_gate_sandwich_inds_eager_split', '    return self\n\n\ndef _tensor_network_gate_sandwich_inds_eager_split', 'expect-fail'),
    ('quimb/tensor/gating.py', 'tensor_network_gate_inds', '        if contract == "auto-split-gate":\n            # simply don\'t split\n            gatesplitting = False\n            contract = False', '        if contract == "auto-split-gate":\n            # simply don\'t split\n            gatesplitting = False', 'expect-fail'),
]
