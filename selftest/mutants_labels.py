"""deliberate breakages of the real source that the label-calculus contracts (contracts/c09_labels.py) must catch
(see vf/selftest.py).  The first three entries per finding are the REVERTS of the fixes of findings 7, 11, 15."""
MODULES = ['contracts.c09_labels']
_AG = 'quimb/tensor/tnag/core.py'
_1D = 'quimb/tensor/tn1d/core.py'
_DM = 'quimb/tensor/tn1d/dmrg.py'
MUTANTS = [
    # ---- finding 7 (reverted): B renamed on ALL its sites, not only where A acts
    (_AG, 'tensor_network_apply_op_op', '        A.upper_ind_id = B.upper_ind_id\n        B.reindex_upper_sites_(inner_ind_id, where=sites_present_in_A)', '        A.upper_ind_id = B.upper_ind_id\n        B.reindex_upper_sites_(inner_ind_id)', 'expect-fail'),
    (_AG, 'tensor_network_apply_op_op', '        A.upper_ind_id = B.lower_ind_id\n        B.reindex_lower_sites_(inner_ind_id, where=sites_present_in_A)', '        A.upper_ind_id = B.lower_ind_id\n        B.reindex_lower_sites_(inner_ind_id)', 'expect-fail'),
    # ---- tensor_network_apply_op_op
    (_AG, 'tensor_network_apply_op_op', '        A.lower_ind_id = inner_ind_id\n        A.upper_ind_id = B.upper_ind_id\n        B.reindex_upper_sites_', '        A.upper_ind_id = inner_ind_id\n        A.lower_ind_id = B.upper_ind_id\n        B.reindex_upper_sites_', 'expect-fail'),
    (_AG, 'tensor_network_apply_op_op', '        A.upper_ind_id = B.lower_ind_id\n        B.reindex_lower_sites_(inner_ind_id, where=sites_present_in_A)\n    elif (which_A, which_B) == ("upper", "upper")', '        A.upper_ind_id = B.lower_ind_id\n        B.reindex_upper_sites_(inner_ind_id, where=sites_present_in_A)\n    elif (which_A, which_B) == ("upper", "upper")', 'expect-fail'),
    (_AG, 'tensor_network_apply_op_op', '    B = B if inplace else B.copy()\n    A = A if inplace_A else A.copy()\n\n    coordinate_formatter = get_coordinate_formatter(A._NDIMS)\n    inner_ind_id = rand_uuid() + f"{coordinate_formatter}"\n\n    # only join', '    B = B if inplace else B.copy()\n    A = A\n\n    coordinate_formatter = get_coordinate_formatter(A._NDIMS)\n    inner_ind_id = rand_uuid() + f"{coordinate_formatter}"\n\n    # only join', 'expect-fail'),
    (_AG, 'tensor_network_apply_op_op', '    elif (which_A, which_B) == ("upper", "lower"):\n        A.upper_ind_id = inner_ind_id\n        A.lower_ind_id = B.lower_ind_id', '    elif (which_A, which_B) == ("upper", "lower"):\n        A.upper_ind_id = inner_ind_id\n        A.lower_ind_id = B.upper_ind_id', 'expect-fail'),
    (_AG, 'tensor_network_apply_op_op', '    inner_ind_id = rand_uuid() + f"{coordinate_formatter}"\n\n    # only join', '    inner_ind_id = B.lower_ind_id\n\n    # only join', 'expect-fail'),
    (_AG, 'tensor_network_apply_op_op', '    B |= A\n\n    if contract:\n        # optionally contract all tensor at each site\n        for site in B.gen_sites_present', '    A |= B\n\n    if contract:\n        # optionally contract all tensor at each site\n        for site in B.gen_sites_present', 'expect-fail'),
    (_AG, 'tensor_network_apply_op_op', '    else:\n        raise ValueError("Invalid `which_A` and `which_B` combination.")', '    else:\n        pass', 'expect-fail'),
    (_AG, 'tensor_network_apply_op_op', '        if fuse_multibonds:\n            B.fuse_multibonds_()\n\n    if compress:', '        if not fuse_multibonds:\n            B.fuse_multibonds_()\n\n    if compress:', 'benign'),
    # ---- tensor_network_apply_op_vec
    (_AG, 'tensor_network_apply_op_vec', '    x.reindex_sites_(inner_ind_id, where=sites_present_in_A)', '    x.reindex_sites_(inner_ind_id)', 'expect-fail'),
    (_AG, 'tensor_network_apply_op_vec', '        A.lower_ind_id = inner_ind_id\n        A.upper_ind_id = x.site_ind_id\n    elif which_A == "upper":', '        A.upper_ind_id = inner_ind_id\n        A.lower_ind_id = x.site_ind_id\n    elif which_A == "upper":', 'expect-fail'),
    (_AG, 'tensor_network_apply_op_vec', '    x = x if inplace else x.copy()\n    A = A if inplace_A else A.copy()', '    x = x\n    A = A if inplace_A else A.copy()', 'expect-fail'),
    (_AG, 'tensor_network_apply_op_vec', '    x = x if inplace else x.copy()\n    A = A if inplace_A else A.copy()', '    x = x if inplace else x.copy()\n    A = A if inplace else A.copy()', 'expect-fail'),
    (_AG, 'tensor_network_apply_op_vec', '    sites_present_in_A = tuple(A.gen_sites_present())\n    x.reindex_sites_', '    sites_present_in_A = tuple(x.gen_sites_present())\n    x.reindex_sites_', 'expect-fail'),
    (_AG, 'tensor_network_apply_op_vec', '    x.reindex_sites_(inner_ind_id, where=sites_present_in_A)\n\n    # combine the tensor networks\n    x |= A', '    x.site_ind_id = inner_ind_id\n\n    # combine the tensor networks\n    x |= A', 'expect-fail'),
    (_AG, 'tensor_network_apply_op_vec', '    inner_ind_id = rand_uuid() + f"{coordinate_formatter}"\n\n    if which_A == "lower":', '    inner_ind_id = "b" + f"{coordinate_formatter}"\n\n    if which_A == "lower":', 'expect-fail'),
    # ---- tensor_network_align
    (_AG, 'tensor_network_align', '            if i != 0:\n                tn.upper_ind_id = ind_ids[i - 1]\n            if i != n - 1:\n                tn.lower_ind_id = ind_ids[i]', '            if i != 0:\n                tn.lower_ind_id = ind_ids[i - 1]\n            if i != n - 1:\n                tn.upper_ind_id = ind_ids[i]', 'expect-fail'),
    (_AG, 'tensor_network_align', '            elif i == n - 1:\n                tn.site_ind_id = ind_ids[i - 1]', '            elif i == n - 1:\n                tn.site_ind_id = ind_ids[i]', 'expect-fail'),
    (_AG, 'tensor_network_align', '    if not inplace:\n        tns = [tn.copy() for tn in tns]', '    if inplace:\n        tns = [tn.copy() for tn in tns]', 'expect-fail'),
    (_AG, 'tensor_network_align', '            ind_ids = [tns[0].lower_ind_id]', '            ind_ids = [tns[0].upper_ind_id]', 'expect-fail'),
    (_AG, 'tensor_network_align', '        tns[-1].lower_ind_id = tns[0].upper_ind_id', '        tns[-1].lower_ind_id = tns[0].lower_ind_id', 'expect-fail'),
    (_AG, 'tensor_network_align', '            f"__ind_{get_symbol(i)}{coordinate_formatter}__"', '            f"__ind_{coordinate_formatter}__"', 'expect-fail'),
    (_AG, 'tensor_network_align', '            if i != n - 1:\n                tn.lower_ind_id = ind_ids[i]', '            if i != n:\n                tn.lower_ind_id = ind_ids[i]', 'expect-fail'),
    (_AG, 'tensor_network_align', '            else:\n                raise ValueError(\n                    "An TN \'vector\' can only be aligned as the "', '            elif False:\n                raise ValueError(\n                    "An TN \'vector\' can only be aligned as the "', 'expect-fail'),
    (_AG, 'TensorNetworkGen.align', '        return tensor_network_align(self, *args, inplace=inplace, **kwargs)', '        return tensor_network_align(*args, self, inplace=inplace, **kwargs)', 'expect-fail'),
    (_AG, 'TensorNetworkGen.align', '        return tensor_network_align(self, *args, inplace=inplace, **kwargs)', '        return tensor_network_align(self, *args, **kwargs)', 'expect-fail'),
    # ---- partial renames and setters
    (_AG, '.reindex_upper_sites', '            {self.upper_ind(x): new_id.format(x) for x in where},\n            inplace=inplace,\n        )\n\n    reindex_upper_sites_', '            {self.lower_ind(x): new_id.format(x) for x in where},\n            inplace=inplace,\n        )\n\n    reindex_upper_sites_', 'expect-fail'),
    (_AG, '.reindex_lower_sites', '        if where is None:\n            where = self.gen_sites_present()\n\n        return self.reindex(\n            {self.lower_ind(x)', '        if where is not None:\n            where = self.gen_sites_present()\n\n        return self.reindex(\n            {self.lower_ind(x)', 'expect-fail'),
    (_AG, '.reindex_sites', '            {self.site_ind(x): new_id.format(x) for x in where},\n            inplace=inplace,', '            {self.site_ind(x): new_id.format(x) for x in where},\n            inplace=True,', 'expect-fail'),
    (_AG, '.reindex_sites', '            {self.site_ind(x): new_id.format(x) for x in where},', '            {new_id.format(x): self.site_ind(x) for x in where},', 'expect-fail'),
    (_AG, 'Operator.upper_ind_id', '            self.reindex_upper_sites_(new_id)\n            self._upper_ind_id = new_id', '            self.reindex_upper_sites_(new_id)\n            self._lower_ind_id = new_id', 'expect-fail'),
    (_AG, 'Operator.upper_ind_id', '            self.reindex_upper_sites_(new_id)\n            self._upper_ind_id = new_id', '            self._upper_ind_id = new_id\n            self.reindex_upper_sites_(new_id)', 'expect-fail'),
    (_AG, 'Operator.lower_ind_id', '        if new_id == self._upper_ind_id:\n            raise ValueError(\n                "Setting the same upper and lower', '        if new_id != self._upper_ind_id:\n            raise ValueError(\n                "Setting the same upper and lower', 'expect-fail'),
    (_AG, 'Operator.lower_ind_id', '            self.reindex_lower_sites_(new_id)\n            self._lower_ind_id = new_id', '            self.reindex_upper_sites_(new_id)\n            self._lower_ind_id = new_id', 'expect-fail'),
    (_AG, 'Vector.site_ind_id', '            self.reindex_sites_(new_id)\n            self._site_ind_id = new_id', '            self._site_ind_id = new_id', 'expect-fail'),
    (_AG, 'Operator.apply', '                inplace_A=inplace,\n                **compress_opts,\n            )\n        if isinstance(other, TensorNetworkGenVector):', '                inplace=inplace,\n                **compress_opts,\n            )\n        if isinstance(other, TensorNetworkGenVector):', 'expect-fail'),
    (_AG, 'Operator.apply', '                A=self,\n                B=other,', '                A=other,\n                B=self,', 'expect-fail'),
]
