"""deliberate breakage of the C11 carriers: every behaviour-changing mutant must turn a named obligation of the C11
contracts from discharged to failed.  TEBD.sweep carries failing obligations on the unchanged tree (imag=True left-sweep
renormalisation site) -- the runner only counts obligations that fail IN ADDITION to the baseline set.  Mutants that
only move the canonical centre are caught through the imag=True cases (the gauge machinery is on only there)."""
import os
import re

MODULES = ["contracts.c11_tebd"]
G = "quimb/tensor/tnag/tebd.py"
T = "quimb/tensor/tn1d/tebd.py"

MUTANTS = [
    # ---- trotter_schedule
    (G, "::trotter_schedule", "*((k, 0.5) for k in range(nlayers - 1)),", "*((k, 0.5) for k in range(nlayers)),", "expect-fail"),
    (G, "::trotter_schedule", "(nlayers - 1, 1.0),", "(nlayers - 1, 0.5),", "expect-fail"),
    (G, "::trotter_schedule", "*((k, 0.5) for k in reversed(range(nlayers - 1))),", "*((k, 0.5) for k in range(nlayers - 1)),", "expect-fail"),
    (G, "::trotter_schedule", "for f in (s, s, 1 - 4 * s, s, s)", "for f in (s, s, 1 - 3 * s, s, s)", "expect-fail"),
    (G, "::trotter_schedule", "for f in (s, s, 1 - 4 * s, s, s)", "for f in (s, 1 - 4 * s, s, s, s)", "expect-fail"),
    (G, "::trotter_schedule", "s = 1 / (4 - 4 ** (1 / 3))", "s = 1 / (4 - 4 ** (1 / 2))", "expect-fail"),
    (G, "::trotter_schedule", "return [(k, 1.0) for k in range(nlayers)]", "return [(k, 0.5) for k in range(nlayers)]", "expect-fail"),
    (G, "::trotter_schedule", "return [(k, 1.0) for k in range(nlayers)]", "return [(k, 1.0) for k in range(nlayers - 1)]", "expect-fail"),
    (G, "::trotter_schedule", "(k, frac * f)", "(k, frac + f)", "expect-fail"),
    (G, "::trotter_schedule", "        if nlayers == 0:\n            return []\n", "", "expect-fail"),
    (G, "::trotter_schedule", "for f in (s, s, 1 - 4 * s, s, s)", "for f in (s, s, 1 - 4 * s, s)", "expect-fail"),
    (G, "::trotter_schedule", "*((k, 0.5) for k in reversed(range(nlayers - 1))),", "*((k + 1, 0.5) for k in reversed(range(nlayers - 1))),", "expect-fail"),
    (G, "::trotter_schedule", "    if order == 4:\n", "    if order == 4 or order == 3:\n", "expect-fail"),
    (G, "::trotter_schedule", "order2 = trotter_schedule(nlayers, order=2)", "order2 = trotter_schedule(nlayers, order=1)", "expect-fail"),
    # ---- TEBD.sweep
    (T, "TEBD.sweep", "for i in range(start_site_ind, final_site_ind, 2):", "for i in range(start_site_ind, final_site_ind - 1, 2):", "expect-fail"),
    (T, "TEBD.sweep", "for i in range(start_site_ind, final_site_ind, 2):", "for i in range(start_site_ind + 1, final_site_ind, 2):", "expect-fail"),
    (T, "TEBD.sweep", "for i in reversed(range(final_site_ind, self.L - 1, 2)):", "for i in reversed(range(final_site_ind, self.L - 2, 2)):", "expect-fail"),
    (T, "TEBD.sweep", "for i in reversed(range(final_site_ind, self.L - 1, 2)):", "for i in reversed(range(final_site_ind + 2, self.L - 1, 2)):", "expect-fail"),
    (T, "TEBD.sweep", "if self.cyclic and (self.L % 2 == 0):", "if self.cyclic and (self.L % 2 == 1):", "expect-fail"),
    (T, "TEBD.sweep", "            if self.L % 2 == 1:\n                self._pt.left_canonize_site(self.L - 2)\n                if self.cyclic:",
     "            if self.L % 2 == 1:\n                self._pt.left_canonize_site(self.L - 2)\n                if False:", "expect-fail"),
    (T, "TEBD.sweep", "if direction == self._queued_sweep[0]:", "if direction != self._queued_sweep[0]:", "expect-fail"),
    (T, "TEBD.sweep", "self._queued_sweep[1] += dt_frac\n                    return", "self._queued_sweep[1] = dt_frac\n                    return", "expect-fail"),
    (T, "TEBD.sweep", "direction, dt_frac = self._queued_sweep\n                    self._queued_sweep = new_queued_sweep",
     "self._queued_sweep = new_queued_sweep", "expect-fail"),
    (T, "TEBD.sweep", "            self._queued_sweep = None\n            self.sweep(queued_direction, queued_dt_frac, queue=False)",
     "            self.sweep(queued_direction, queued_dt_frac, queue=False)\n            self._queued_sweep = None", "expect-fail"),
    (T, "TEBD.sweep", "            self._queued_sweep = None\n            self.sweep(queued_direction, queued_dt_frac, queue=False)",
     "            self._queued_sweep = None", "expect-fail"),
    (T, "TEBD.sweep", "self.sweep(queued_direction, queued_dt_frac, queue=False)", "self.sweep(queued_direction, dt_frac, queue=False)", "expect-fail"),
    (T, "TEBD.sweep", "dt_frac *= dt / self._dt", "dt_frac *= self._dt / dt", "expect-fail"),
    (T, "TEBD.sweep", "                sites = (i, (i + 1) % self.L)\n                U = self._get_gate_from_ham(dt_frac, sites)\n                self._pt.left_canonize(",
     "                sites = (i, (i + 1) % self.L)\n                U = self._get_gate_from_ham(dt_frac, (i + 1, i + 2))\n                self._pt.left_canonize(", "expect-fail"),
    (T, "TEBD.sweep", "                sites = (i, (i + 1) % self.L)\n                U = self._get_gate_from_ham(dt_frac, sites)\n                self._pt.left_canonize(",
     "                sites = (i, (i + 1) % self.L)\n                U = self._get_gate_from_ham(1.0, sites)\n                self._pt.left_canonize(", "expect-fail"),
    (T, "TEBD.sweep", "self._pt.left_canonize(start=max(0, i - 1), stop=i)", "pass", "expect-fail"),
    (T, "TEBD.sweep", "start=min(self.L - 1, i + 2), stop=i + 1", "start=min(self.L - 1, i + 2), stop=i + 2", "expect-fail"),
    (T, "TEBD.sweep", '                self._pt.gate_split_(\n                    U, where=sites, absorb="right", **self.split_opts\n                )\n\n            if self.L % 2 == 1:',
     '                self._pt.gate_split_(\n                    U, where=sites, absorb="left", **self.split_opts\n                )\n\n            if self.L % 2 == 1:', "expect-fail"),
    (T, "TEBD.sweep", "            # one extra canonicalization not included in last split\n            self._pt.right_canonize_site(1)", "            pass", "expect-fail"),
    (T, "TEBD.sweep", "                self._pt.left_canonize_site(self.L - 2)\n", "                pass\n", "expect-fail"),
    (T, "TEBD.sweep", "            # just queue the new sweep\n            else:\n                self._queued_sweep = [direction, dt_frac]\n                return",
     "            # just queue the new sweep\n            else:\n                self._queued_sweep = [direction, dt_frac]", "expect-fail"),
    (T, "TEBD.sweep", "            start_site_ind = 0\n            final_site_ind = self.L - 1\n", "            start_site_ind = 0\n            final_site_ind = self.L - 2\n", "expect-fail"),
    # ---- TEBD._get_gate_from_ham
    (T, "TEBD._get_gate_from_ham", "imag_factor = 1.0 if self.imag else 1.0j", "imag_factor = 1.0j if self.imag else 1.0", "expect-fail"),
    (T, "TEBD._get_gate_from_ham", "-imag_factor * self._dt * dt_frac", "imag_factor * self._dt * dt_frac", "expect-fail"),
    (T, "TEBD._get_gate_from_ham", "-imag_factor * self._dt * dt_frac", "-imag_factor * self.dt * dt_frac", "expect-fail"),
    (T, "TEBD._get_gate_from_ham", "-imag_factor * self._dt * dt_frac", "-imag_factor * self._dt", "expect-fail"),
    (T, "TEBD._get_gate_from_ham", "self.H.get_gate_expm(sites, ", "self.H.get_gate_expm(sites[::-1], ", "expect-fail"),
    # ---- TEBD.choose_time_step
    (T, "TEBD.choose_time_step", "(tol / (T * self._ham_norm)) ** (1 / order)", "(tol / (T * self._ham_norm)) ** (1 / (order + 1))", "expect-fail"),
    (T, "TEBD.choose_time_step", "(tol / (T * self._ham_norm)) ** (1 / order)", "(tol / (T + self._ham_norm)) ** (1 / order)", "expect-fail"),
    (T, "TEBD.choose_time_step", "(tol / (T * self._ham_norm)) ** (1 / order)", "(T / (tol * self._ham_norm)) ** (1 / order)", "expect-fail"),
    (T, "TEBD.choose_time_step", "(tol / (T * self._ham_norm)) ** (1 / order)", "(tol / (T * self._ham_norm)) ** order", "expect-fail"),
    # ---- TEBD._compute_sweep_dt_tol
    (T, "TEBD._compute_sweep_dt_tol", "dt = self.dt if (dt is None) else dt", "dt = self.dt if (dt is not None) else dt", "expect-fail"),
    (T, "TEBD._compute_sweep_dt_tol", "if not (dt or tol):", "if not (dt and tol):", "expect-fail"),
    (T, "TEBD._compute_sweep_dt_tol", "        if dt and tol:\n            raise ValueError(\"Can't set both ``dt`` and ``tol``.\")\n\n        if dt is None:",
     "        if dt is None:", "expect-fail"),
    (T, "TEBD._compute_sweep_dt_tol", "self._dt = self.choose_time_step(tol, T - self.t, order)", "self._dt = self.choose_time_step(tol, T, order)", "expect-fail"),
    (T, "TEBD._compute_sweep_dt_tol", "        else:\n            self._dt = dt\n\n        return self._dt", "        else:\n            self._dt = dt\n\n        return dt", "expect-fail"),
    (T, "TEBD._compute_sweep_dt_tol", "        else:\n            self._dt = dt\n\n        return self._dt", "        else:\n            self.dt = dt\n\n        return self._dt", "expect-fail"),
    (T, "TEBD._compute_sweep_dt_tol", "tol = self.tol if (tol is None) else tol", "tol = self.tol", "expect-fail"),
    # ---- TEBD.step
    (T, "TEBD.step", "self.t += dt\n", "self.t += self._dt\n", "expect-fail"),
    (T, "TEBD.step", "self._err += self._ham_norm * dt ** (order + 1)", "self._err += self._ham_norm * dt ** order", "expect-fail"),
    (T, "TEBD.step", "self._err += self._ham_norm * dt ** (order + 1)", "self._err = self._ham_norm * dt ** (order + 1)", "expect-fail"),
    (T, "TEBD.step", 'directions = ("right", "left")', 'directions = ("left", "right")', "expect-fail"),
    (T, "TEBD.step", "self.sweep(directions[k], frac, dt=dt, **sweep_opts)", "self.sweep(directions[k], frac, **sweep_opts)", "expect-fail"),
    (T, "TEBD.step", "self.sweep(directions[k], frac, dt=dt, **sweep_opts)", "self.sweep(directions[k], frac, dt=dt)", "expect-fail"),
    (T, "TEBD.step", "for k, frac in trotter_schedule(2, order=order):", "for k, frac in trotter_schedule(2, order=2):", "expect-fail"),
    (T, "TEBD.step", "dt = self._dt if dt is None else dt\n        self.t += dt", "dt = self.dt if dt is None else dt\n        self.t += dt", "expect-fail"),
    (T, "TEBD.step", "self.sweep(directions[k], frac, dt=dt, **sweep_opts)", "self.sweep(directions[k], 1.0, dt=dt, **sweep_opts)", "expect-fail"),
    # ---- TEBD.update_to
    (T, "TEBD.update_to", "while self.t < T - self._dt:", "while self.t < T:", "expect-fail"),
    (T, "TEBD.update_to", "while self.t < T - self._dt:", "while self.t < T - 2 * self._dt:", "expect-fail"),
    (T, "TEBD.update_to", "dt=T - self.t, queue=False", "dt=T - self.t, queue=True", "expect-fail"),
    (T, "TEBD.update_to", "dt=T - self.t, queue=False", "dt=self._dt, queue=False", "expect-fail"),
    (T, "TEBD.update_to", "self.step(order=order, progbar=progbar, dt=None, queue=True)", "self.step(order=2, progbar=progbar, dt=None, queue=True)", "expect-fail"),
    (T, "TEBD.update_to", "if T < self.t - self.TARGET_TOL:", "if T < self.t + self.TARGET_TOL:", "expect-fail"),
    (T, "TEBD.update_to", "self._compute_sweep_dt_tol(T, dt, tol, order)", "self._compute_sweep_dt_tol(T, dt, None, order)", "expect-fail"),
    (T, "TEBD.update_to", "self.step(order=order, progbar=progbar, dt=None, queue=True)", "self.step(order=order, progbar=progbar, dt=self._dt / 2, queue=True)", "expect-fail"),
    (T, "TEBD.update_to", "        # always perform final sweep with queue draining\n        self.step(order=order, progbar=progbar, dt=T - self.t, queue=False)", "        pass", "expect-fail"),
    (T, "TEBD.update_to", "self.step(order=order, progbar=progbar, dt=None, queue=True)", "self.step(order=order, progbar=progbar, dt=None, queue=False)", "expect-fail"),
    # ---- TEBD.at_times
    (T, "TEBD.at_times", "ts = sorted(ts)\n", "ts = list(ts)\n", "expect-fail"),
    (T, "TEBD.at_times", "T = ts[-1]", "T = ts[0]", "expect-fail"),
    (T, "TEBD.at_times", "self.update_to(t, dt=dt, tol=False, order=order, progbar=False)", "self.update_to(T, dt=dt, tol=False, order=order, progbar=False)", "expect-fail"),
    (T, "TEBD.at_times", "self.update_to(t, dt=dt, tol=False, order=order, progbar=False)", "self.update_to(t, dt=dt, tol=tol, order=order, progbar=False)", "expect-fail"),
    (T, "TEBD.at_times", "            yield self.pt", "            yield self._pt", "expect-fail"),
    (T, "TEBD.at_times", "            yield self.pt", "        yield self.pt", "expect-fail"),
    (T, "TEBD.at_times", "self.update_to(t, dt=dt, tol=False, order=order, progbar=False)", "self.update_to(t, dt=dt / 2, tol=False, order=order, progbar=False)", "expect-fail"),
    (T, "TEBD.at_times", "self.update_to(t, dt=dt, tol=False, order=order, progbar=False)\n", "yield self.pt\n            self.update_to(t, dt=dt, tol=False, order=order, progbar=False)\n", "expect-fail"),
    # ---- LocalHam1D.__init__
    (T, "LocalHam1D.__init__", "for i in range(self.L + int(self.cyclic) - 1):", "for i in range(self.L + int(self.cyclic)):", "expect-fail"),
    (T, "LocalHam1D.__init__", "for i in range(self.L + int(self.cyclic) - 1):", "for i in range(self.L - 1):", "expect-fail"),
    (T, "LocalHam1D.__init__", "coo_b = (i + 1) % self.L", "coo_b = i + 1", "expect-fail"),
    (T, "LocalHam1D.__init__", "if (coo_a, coo_b) not in H2 and (coo_b, coo_a) not in H2:", "if (coo_a, coo_b) not in H2:", "expect-fail"),
    (T, "LocalHam1D.__init__", "if (coo_a, coo_b) not in H2 and (coo_b, coo_a) not in H2:", "if (coo_b, coo_a) not in H2:", "expect-fail"),
    (T, "LocalHam1D.__init__", "H2[coo_a, coo_b] = default_H2", "H2[coo_b, coo_a] = default_H2", "expect-fail"),
    (T, "LocalHam1D.__init__", "super().__init__(H2=H2, H1=H1)", "super().__init__(H2=H2, H1=None)", "expect-fail"),
    (T, "LocalHam1D.__init__", "coo_a = i\n", "coo_a = i + 1\n", "expect-fail"),
    (T, "LocalHam1D.__init__", "if (coo_a, coo_b) not in H2 and (coo_b, coo_a) not in H2:", "if True:", "expect-fail"),
    # ---- LocalHamGen.__init__
    (G, "LocalHamGen.__init__", "            if coo1 < coo2:\n                continue", "            if coo1 > coo2:\n                continue", "expect-fail"),
    (G, "LocalHamGen.__init__", "X12 = self._flip_cached(self.terms.pop(where))", "X12 = self.terms.pop(where)", "expect-fail"),
    (G, "LocalHamGen.__init__", "                self.terms[new_where] = self._add_cached(\n                    self.terms[new_where], X12\n                )",
     "                self.terms[new_where] = X12", "expect-fail"),
    (G, "LocalHamGen.__init__", "H_tensored = H_tensoreds[pair.index(site)]", "H_tensored = H_tensoreds[1 - pair.index(site)]", "expect-fail"),
    (G, "LocalHamGen.__init__", "H_tensored = H_tensoreds[pair.index(site)]", "H_tensored = H_tensoreds[0]", "expect-fail"),
    (G, "LocalHamGen.__init__", "self._div_cached(H_tensored, num_pairs)", "self._div_cached(H_tensored, 2)", "expect-fail"),
    (G, "LocalHamGen.__init__", "self._div_cached(H_tensored, num_pairs)", "H_tensored", "expect-fail"),
    (G, "LocalHamGen.__init__", "self._sites_to_covering_terms[site_b].append(where)", "pass", "expect-fail"),
    (G, "LocalHamGen.__init__", "                H1s.setdefault(site, default_H1)", "                H1s[site] = default_H1", "expect-fail"),
    (G, "LocalHamGen.__init__", "            if num_pairs == 0:", "            if num_pairs < 0:", "expect-fail"),
    (G, "LocalHamGen.__init__", "H_tensoreds = (self._op_id_cached(H), self._id_op_cached(H))", "H_tensoreds = (self._id_op_cached(H), self._op_id_cached(H))", "expect-fail"),
    (G, "LocalHamGen.__init__", "self.terms = dict(H2)", "self.terms = H2", "expect-fail"),
    (G, "LocalHamGen.__init__", "            for pair in pairs:\n", "            for pair in pairs[:1]:\n", "expect-fail"),
]


_BASE = {}  # failing obligations on the unchanged tree, per carrier


def run_mutant(tmp, relpath, suffix, old, new):
    """like vf.selftest.run_e1_mutant, but 'failed' means: obligations fail that do not fail on the unchanged tree"""
    from vf import pyvc

    def ids(rep):
        return {re.sub(r"@\d+", "@L", o.oid) for o in rep.failed}

    src = open(os.path.join("/repo", relpath)).read()
    if src.count(old) < 1:
        return "stale", "old text not found in the current source"
    cons = [v for k, v in pyvc.REGISTRY.items() if k.endswith(suffix)]
    if not cons:
        return "stale", f"no contract registered for {suffix}"
    if suffix not in _BASE:
        _BASE[suffix] = ids(pyvc.verify(cons[0]))
    base = _BASE[suffix]
    # callee contracts live in other source files: give the scratch tree unchanged copies of every file under contract
    import shutil
    for tgt in list(pyvc.REGISTRY):
        rp = tgt.split("::")[0]
        if rp != relpath and os.path.exists(os.path.join("/repo", rp)) and not os.path.exists(os.path.join(tmp, rp)):
            os.makedirs(os.path.dirname(os.path.join(tmp, rp)), exist_ok=True)
            shutil.copy(os.path.join("/repo", rp), os.path.join(tmp, rp))
    dst = os.path.join(tmp, relpath)
    os.makedirs(os.path.dirname(dst), exist_ok=True)
    open(dst, "w").write(src.replace(old, new, 1))
    pyvc.REPO = tmp
    pyvc._SRC_CACHE.clear()
    try:
        rep = pyvc.verify(cons[0], discharge_now=False)
    finally:
        pyvc.REPO = "/repo"
        pyvc._SRC_CACHE.clear()
        open(dst, "w").write(src)
    if rep.status != "ok":
        return rep.status, rep.detail[:120]
    # discharge one by one and stop at the first obligation that fails although it does not fail on the unchanged tree
    unknown = 0
    for ob in rep.obligations:
        oid = re.sub(r"@\d+", "@L", ob.oid)
        if oid in base:
            continue
        pyvc.discharge(ob, timeout_ms=5000, portfolio=False)
        if ob.status == "failed":
            return "failed", oid.split("::")[-1]
        unknown += ob.status == "unknown"
    if unknown:
        return "unknown", f"{unknown} undecided"
    return "discharged", ""

# the periodic boundary gate spelled against the stored (sorted) orientation of its term: C11-c, repaired in /repo
MUTANTS += [
    ("quimb/tensor/tn1d/tebd.py", "TEBD.sweep", "                    sites = (0, self.L - 1)\n                    U = self._get_gate_from_ham(dt_frac, sites)\n                    self._pt.right_canonize_site(1)",
     "                    sites = (self.L - 1, 0)\n                    U = self._get_gate_from_ham(dt_frac, sites)\n                    self._pt.right_canonize_site(1)", "expect-fail"),
]
