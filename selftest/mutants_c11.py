"""deliberate breakage of the C11 carriers: every behaviour-changing mutant must turn a named obligation of the C11
contracts from discharged to failed.  TEBD.sweep / step / update_to already carry failing obligations on the unchanged
tree (gauge findings) -- the runner only counts obligations that fail IN ADDITION to the baseline set."""
import os
import re

MODULES = ["contracts.c11_tebd"]
G = "quimb/tensor/tnag/tebd.py"
T = "quimb/tensor/tn1d/tebd.py"

MUTANTS = [
    # ---- trotter_schedule
    (G, "::trotter_schedule", "*((k, 0.5) for k in range(nlayers - 1)),", "*((k, 0.5) for k in range(nlayers)),", "expect-fail"),
    (G, "::trotter_schedule", "(nlayers - 1, 1.0),", "(nlayers - 1, 0.5),", "expect-fail"),
    (G, "::trotter_schedule", "*((k, 0.5) for k in reversed(range(nlayers - 1))),", "*((k, 0.5) for k in range(nlayers - 1)),", "expect-fail"),
    (G, "::trotter_schedule", "for f in (s, s, 1 - 4 * s, s, s)", "for f in (s, s, 1 - 3 * s, s, s)", "expect-fail"),
    (G, "::trotter_schedule", "for f in (s, s, 1 - 4 * s, s, s)", "for f in (s, 1 - 4 * s, s, s, s)", "expect-fail"),
    (G, "::trotter_schedule", "s = 1 / (4 - 4 ** (1 / 3))", "s = 1 / (4 - 4 ** (1 / 2))", "expect-fail"),
    (G, "::trotter_schedule", "return [(k, 1.0) for k in range(nlayers)]", "return [(k, 0.5) for k in range(nlayers)]", "expect-fail"),
    (G, "::trotter_schedule", "return [(k, 1.0) for k in range(nlayers)]", "return [(k, 1.0) for k in range(nlayers - 1)]", "expect-fail"),
    (G, "::trotter_schedule", "(k, frac * f)", "(k, frac + f)", "expect-fail"),
    (G, "::trotter_schedule", "        if nlayers == 0:\n            return []\n", "", "expect-fail"),
    (G, "::trotter_schedule", "for f in (s, s, 1 - 4 * s, s, s)", "for f in (s, s, 1 - 4 * s, s)", "expect-fail"),
    (G, "::trotter_schedule", "*((k, 0.5) for k in reversed(range(nlayers - 1))),", "*((k + 1, 0.5) for k in reversed(range(nlayers - 1))),", "expect-fail"),
    (G, "::trotter_schedule", "    if order == 4:\n", "    if order == 4 or order == 3:\n", "expect-fail"),
    (G, "::trotter_schedule", "order2 = trotter_schedule(nlayers, order=2)", "order2 = trotter_schedule(nlayers, order=1)", "expect-fail"),
]


def run_mutant(tmp, relpath, suffix, old, new):
    """like vf.selftest.run_e1_mutant, but 'failed' means: obligations fail that do not fail on the unchanged tree"""
    from vf import pyvc

    def ids(rep):
        return {re.sub(r"@\d+", "@L", o.oid) for o in rep.failed}

    src = open(os.path.join("/repo", relpath)).read()
    if src.count(old) < 1:
        return "stale", "old text not found in the current source"
    cons = [v for k, v in pyvc.REGISTRY.items() if k.endswith(suffix)]
    if not cons:
        return "stale", f"no contract registered for {suffix}"
    base = ids(pyvc.verify(cons[0]))
    dst = os.path.join(tmp, relpath)
    os.makedirs(os.path.dirname(dst), exist_ok=True)
    open(dst, "w").write(src.replace(old, new, 1))
    pyvc.REPO = tmp
    pyvc._SRC_CACHE.clear()
    try:
        rep = pyvc.verify(cons[0])
    finally:
        pyvc.REPO = "/repo"
        pyvc._SRC_CACHE.clear()
        os.remove(dst)
    newf = sorted(ids(rep) - base)
    if newf:
        return "failed", ", ".join(x.split("::")[-1] for x in newf[:3])
    if rep.status != "ok":
        return rep.status, rep.detail[:120]
    if rep.unknown:
        return "unknown", f"{len(rep.unknown)} undecided"
    return "discharged", ""
