"""deliberate breakage of the C19 carriers: (relpath, function, old text, new text, expectation).
Each `expect-fail` mutant must turn at least one obligation of that function's contract from discharged to failed
(or make the contract inapplicable: mismatch / vacuous); `benign` ones do not change behaviour on the property's domain."""
CC = "quimb/operator/configcore.py"
MUTANTS = [
    # flatconfig_to_rank_nosymm
    (CC, "flatconfig_to_rank_nosymm", "r = (r << 1) | xi", "r = (r << 1) | 1", "expect-fail"),
    (CC, "flatconfig_to_rank_nosymm", "r = (r << 1) | xi", "r = r | xi", "expect-fail"),
    (CC, "flatconfig_to_rank_nosymm", "r = 0", "r = 1", "expect-fail"),
    (CC, "flatconfig_to_rank_nosymm", "r = (r << 1) | xi", "r = (xi << 1) | r", "expect-fail"),
    (CC, "flatconfig_to_rank_nosymm", "return r", "return r + 1", "expect-fail"),
    # rank_into_flatconfig_nosymm
    (CC, "rank_into_flatconfig_nosymm", "range(n - 1, -1, -1)", "range(n - 1, 0, -1)", "expect-fail"),
    (CC, "rank_into_flatconfig_nosymm", "range(n - 1, -1, -1)", "range(n, -1, -1)", "expect-fail"),
    (CC, "rank_into_flatconfig_nosymm", "r >>= 1", "pass", "expect-fail"),
    (CC, "rank_into_flatconfig_nosymm", "flatconfig[i] = r & 1", "flatconfig[n - 1 - i] = r & 1", "expect-fail"),
    (CC, "rank_into_flatconfig_nosymm", "flatconfig[i] = r & 1", "flatconfig[i] = 1 - (r & 1)", "expect-fail"),
    # rank_to_flatconfig_nosymm
    (CC, "rank_to_flatconfig_nosymm", "np.empty(n, dtype=np.uint8)", "np.empty(n + 1, dtype=np.uint8)", "expect-fail"),
    (CC, "rank_to_flatconfig_nosymm", "rank_into_flatconfig_nosymm(flatconfig, r, n)", "rank_into_flatconfig_nosymm(flatconfig, n, r)", "expect-fail"),
    (CC, "rank_to_flatconfig_nosymm", "rank_into_flatconfig_nosymm(flatconfig, r, n)", "rank_into_flatconfig_nosymm(flatconfig, r + 1, n)", "expect-fail"),
    (CC, "rank_to_flatconfig_nosymm", "rank_into_flatconfig_nosymm(flatconfig, r, n)", "pass", "expect-fail"),
    (CC, "rank_to_flatconfig_nosymm", "return flatconfig", "return None", "expect-fail"),
    # flatconfig_to_rank_z2
    (CC, "flatconfig_to_rank_z2", "range(flatconfig.size - 1)", "range(flatconfig.size)", "expect-fail"),
    (CC, "flatconfig_to_rank_z2", "range(flatconfig.size - 1)", "range(flatconfig.size - 2)", "expect-fail"),
    (CC, "flatconfig_to_rank_z2", "r = (r << 1) | flatconfig[i]", "r = (r << 1) | flatconfig[i + 1]", "expect-fail"),
    (CC, "flatconfig_to_rank_z2", "r = (r << 1) | flatconfig[i]", "r = (r << 1)", "expect-fail"),
    (CC, "flatconfig_to_rank_z2", "range(flatconfig.size - 1)", "range(1, flatconfig.size)", "expect-fail"),
    # rank_into_flatconfig_z2
    (CC, "rank_into_flatconfig_z2", "m = 1 << (n - 2)", "m = 1 << (n - 1)", "expect-fail"),
    (CC, "rank_into_flatconfig_z2", "m = 1 << (n - 2)", "m = 1 << (n - 3)", "expect-fail"),
    (CC, "rank_into_flatconfig_z2", "m >>= 1", "pass", "expect-fail"),
    (CC, "rank_into_flatconfig_z2", "prem ^= xi", "pass", "expect-fail"),
    (CC, "rank_into_flatconfig_z2", "flatconfig[n - 1] = prem ^ p", "flatconfig[n - 1] = prem", "expect-fail"),
    (CC, "rank_into_flatconfig_z2", "flatconfig[n - 1] = prem ^ p", "flatconfig[n - 1] = p", "expect-fail"),
    (CC, "rank_into_flatconfig_z2", "xi = r & m != 0", "xi = r & m == 0", "expect-fail"),
    (CC, "rank_into_flatconfig_z2", "range(n - 1)", "range(n - 2)", "expect-fail"),
    (CC, "rank_into_flatconfig_z2", "prem = 0", "prem = 1", "expect-fail"),
    # rank_to_flatconfig_z2
    (CC, "rank_to_flatconfig_z2", "np.empty(n, dtype=np.uint8)", "np.empty(n - 1, dtype=np.uint8)", "expect-fail"),
    (CC, "rank_to_flatconfig_z2", "rank_into_flatconfig_z2(flatconfig, r, n, p)", "rank_into_flatconfig_z2(flatconfig, r, n, 1 - p)", "expect-fail"),
    (CC, "rank_to_flatconfig_z2", "rank_into_flatconfig_z2(flatconfig, r, n, p)", "rank_into_flatconfig_z2(flatconfig, r >> 1, n, p)", "expect-fail"),
    (CC, "rank_to_flatconfig_z2", "rank_into_flatconfig_z2(flatconfig, r, n, p)", "rank_into_flatconfig_z2(flatconfig, r, n - 1, p)", "expect-fail"),
    # build_pascal_table
    (CC, "build_pascal_table", "pt[n, 0] = 1", "pt[n, 0] = 0", "expect-fail"),
    (CC, "build_pascal_table", "range(1, n + 1)", "range(1, n)", "expect-fail"),
    (CC, "build_pascal_table", "range(1, n + 1)", "range(1, n + 2)", "expect-fail"),
    (CC, "build_pascal_table", "pt[n - 1, k - 1] + pt[n - 1, k]", "pt[n - 1, k - 1] + pt[n - 1, k - 1]", "expect-fail"),
    (CC, "build_pascal_table", "pt[n - 1, k - 1] + pt[n - 1, k]", "pt[n - 1, k - 1]", "expect-fail"),
    (CC, "build_pascal_table", "d = nmax + 1", "d = nmax", "expect-fail"),
    (CC, "build_pascal_table", "np.zeros((d, d), dtype=np.int64)", "np.ones((d, d), dtype=np.int64)", "expect-fail"),
    # flatconfig_to_rank_u1_pascal
    (CC, "flatconfig_to_rank_u1_pascal", "j -= 1\n        r += xi * pt[j, krem]", "r += xi * pt[j, krem]\n        j -= 1", "expect-fail"),
    (CC, "flatconfig_to_rank_u1_pascal", "krem -= xi", "pass", "expect-fail"),
    (CC, "flatconfig_to_rank_u1_pascal", "r += xi * pt[j, krem]", "r += pt[j, krem]", "expect-fail"),
    (CC, "flatconfig_to_rank_u1_pascal", "r += xi * pt[j, krem]", "r += xi * pt[j, krem - 1]", "expect-fail"),
    (CC, "flatconfig_to_rank_u1_pascal", "r += xi * pt[j, krem]", "r += xi * pt[krem, j]", "expect-fail"),
    (CC, "flatconfig_to_rank_u1_pascal", "j = n", "j = n - 1", "expect-fail"),
    # rank_into_flatconfig_u1_pascal
    (CC, "rank_into_flatconfig_u1_pascal", "if r >= rank_if_one:", "if r > rank_if_one:", "expect-fail"),
    (CC, "rank_into_flatconfig_u1_pascal", "r -= rank_if_one", "pass", "expect-fail"),
    (CC, "rank_into_flatconfig_u1_pascal", "krem -= 1", "pass", "expect-fail"),
    (CC, "rank_into_flatconfig_u1_pascal", "rank_if_one = pt[j, krem]", "rank_if_one = pt[j, krem - 1]", "expect-fail"),
    (CC, "rank_into_flatconfig_u1_pascal", "flatconfig[i] = 0", "pass", "expect-fail"),
    (CC, "rank_into_flatconfig_u1_pascal", "flatconfig[i] = 1", "flatconfig[i] = 0", "expect-fail"),
    (CC, "rank_into_flatconfig_u1_pascal", "j -= 1\n        rank_if_one", "rank_if_one", "expect-fail"),
    # rank_to_flatconfig_u1_pascal
    (CC, "rank_to_flatconfig_u1_pascal", "np.empty(n, dtype=np.uint8)", "np.empty(k, dtype=np.uint8)", "expect-fail"),
    (CC, "rank_to_flatconfig_u1_pascal", "rank_into_flatconfig_u1_pascal(flatconfig, r, n, k, pt)", "rank_into_flatconfig_u1_pascal(flatconfig, r, k, n, pt)", "expect-fail"),
    (CC, "rank_to_flatconfig_u1_pascal", "rank_into_flatconfig_u1_pascal(flatconfig, r, n, k, pt)", "rank_into_flatconfig_u1_pascal(flatconfig, r + 1, n, k, pt)", "expect-fail"),
    (CC, "rank_to_flatconfig_u1_pascal", "rank_into_flatconfig_u1_pascal(flatconfig, r, n, k, pt)", "rank_into_flatconfig_u1_pascal(flatconfig, r, n, k - 1, pt)", "expect-fail"),
    # calculate_strides
    (CC, "calculate_strides", "strides[i + 1] * sizes[i + 1]", "strides[i + 1] * sizes[i]", "expect-fail"),
    (CC, "calculate_strides", "range(n - 2, -1, -1)", "range(n - 2, 0, -1)", "expect-fail"),
    (CC, "calculate_strides", "range(n - 2, -1, -1)", "range(n - 1, -1, -1)", "expect-fail"),
    (CC, "calculate_strides", "np.ones(n, dtype=np.uint64)", "np.zeros(n, dtype=np.uint64)", "expect-fail"),
    (CC, "calculate_strides", "strides[i + 1] * sizes[i + 1]", "strides[i + 1] + sizes[i + 1]", "expect-fail"),
    # flatconfig_to_rank_mixed_radix_nosymm
    (CC, "flatconfig_to_rank_mixed_radix_nosymm", "r += flatconfig[i] * strides[i]", "r += flatconfig[i]", "expect-fail"),
    (CC, "flatconfig_to_rank_mixed_radix_nosymm", "range(flatconfig.size)", "range(flatconfig.size - 1)", "expect-fail"),
    (CC, "flatconfig_to_rank_mixed_radix_nosymm", "range(flatconfig.size)", "range(1, flatconfig.size)", "expect-fail"),
    (CC, "flatconfig_to_rank_mixed_radix_nosymm", "r = 0", "r = 1", "expect-fail"),
    (CC, "flatconfig_to_rank_mixed_radix_nosymm", "r += flatconfig[i] * strides[i]", "r = flatconfig[i] * strides[i]", "expect-fail"),
    # rank_into_flatconfig_mixed_radix_nosymm
    (CC, "rank_into_flatconfig_mixed_radix_nosymm", "(r // strides[i]) % sizes[i]", "(r % strides[i]) // sizes[i]", "expect-fail"),
    (CC, "rank_into_flatconfig_mixed_radix_nosymm", "(r // strides[i]) % sizes[i]", "(r // strides[i])", "expect-fail"),
    (CC, "rank_into_flatconfig_mixed_radix_nosymm", "(r // strides[i]) % sizes[i]", "(r // sizes[i]) % strides[i]", "expect-fail"),
    (CC, "rank_into_flatconfig_mixed_radix_nosymm", "range(len(sizes))", "range(len(sizes) - 1)", "expect-fail"),
    (CC, "rank_into_flatconfig_mixed_radix_nosymm", "flatconfig[i] =", "flatconfig[len(sizes) - 1 - i] =", "expect-fail"),
    # rank_to_flatconfig_mixed_radix_nosymm
    (CC, "rank_to_flatconfig_mixed_radix_nosymm", "n = len(sizes)", "n = len(sizes) + 1", "expect-fail"),
    (CC, "rank_to_flatconfig_mixed_radix_nosymm", "(flatconfig, r, sizes, strides)", "(flatconfig, r, strides, sizes)", "expect-fail"),
    (CC, "rank_to_flatconfig_mixed_radix_nosymm", "(flatconfig, r, sizes, strides)", "(flatconfig, r + 1, sizes, strides)", "expect-fail"),
    (CC, "rank_to_flatconfig_mixed_radix_nosymm", "return flatconfig", "return sizes", "expect-fail"),
    # flatconfig_to_rank_u1u1_pascal
    (CC, "flatconfig_to_rank_u1u1_pascal", "Db = pt[nb, kb]", "Db = pt[na, ka]", "expect-fail"),
    (CC, "flatconfig_to_rank_u1u1_pascal", "flatconfig[:na], na, ka, pt", "flatconfig[:na], nb, kb, pt", "expect-fail"),
    (CC, "flatconfig_to_rank_u1u1_pascal", "flatconfig[na:], nb, kb, pt", "flatconfig[nb:], nb, kb, pt", "expect-fail"),
    (CC, "flatconfig_to_rank_u1u1_pascal", "flatconfig[na:], nb, kb, pt", "flatconfig[:na], nb, kb, pt", "expect-fail"),
    (CC, "flatconfig_to_rank_u1u1_pascal", ") * Db + flatconfig_to_rank_u1_pascal", ") + Db * flatconfig_to_rank_u1_pascal", "expect-fail"),
    (CC, "flatconfig_to_rank_u1u1_pascal", "Db = pt[nb, kb]", "Db = pt[nb, kb] + 1", "expect-fail"),
    # rank_into_flatconfig_u1u1_pascal
    (CC, "rank_into_flatconfig_u1u1_pascal", "r1 = r // Db\n    r2 = r % Db", "r1 = r % Db\n    r2 = r // Db", "expect-fail"),
    (CC, "rank_into_flatconfig_u1u1_pascal", "Db = pt[nb, kb]", "Db = pt[na, ka]", "expect-fail"),
    (CC, "rank_into_flatconfig_u1u1_pascal", "flatconfig[na:], r2, nb, kb, pt", "flatconfig[nb:], r2, nb, kb, pt", "expect-fail"),
    (CC, "rank_into_flatconfig_u1u1_pascal", "flatconfig[na:], r2, nb, kb, pt", "flatconfig[na:], r1, nb, kb, pt", "expect-fail"),
    (CC, "rank_into_flatconfig_u1u1_pascal", "flatconfig[:na], r1, na, ka, pt", "flatconfig[:na], r1, na, kb, pt", "expect-fail"),
    (CC, "rank_into_flatconfig_u1u1_pascal", "rank_into_flatconfig_u1_pascal(flatconfig[na:], r2, nb, kb, pt)", "pass", "expect-fail"),
    (CC, "rank_into_flatconfig_u1u1_pascal", "rank_into_flatconfig_u1_pascal(flatconfig[:na], r1, na, ka, pt)\n    rank_into_flatconfig_u1_pascal(flatconfig[na:], r2, nb, kb, pt)", "rank_into_flatconfig_u1_pascal(flatconfig[na:], r2, nb, kb, pt)\n    rank_into_flatconfig_u1_pascal(flatconfig[:na], r1, na, ka, pt)", "benign"),
    # rank_to_flatconfig_u1u1_pascal
    (CC, "rank_to_flatconfig_u1u1_pascal", "np.empty(na + nb, dtype=np.uint8)", "np.empty(na, dtype=np.uint8)", "expect-fail"),
    (CC, "rank_to_flatconfig_u1u1_pascal", "(flatconfig, r, na, ka, nb, kb, pt)", "(flatconfig, r, nb, kb, na, ka, pt)", "expect-fail"),
    (CC, "rank_to_flatconfig_u1u1_pascal", "(flatconfig, r, na, ka, nb, kb, pt)", "(flatconfig, r, na, kb, nb, ka, pt)", "expect-fail"),
    (CC, "rank_to_flatconfig_u1u1_pascal", "(flatconfig, r, na, ka, nb, kb, pt)", "(flatconfig, r - 1, na, ka, nb, kb, pt)", "expect-fail"),
    # _check_next_coupled_term
    (CC, "_check_next_coupled_term", "b += size_op", "b += 1", "expect-fail"),
    (CC, "_check_next_coupled_term", "a += size_term", "a += 1", "expect-fail"),
    (CC, "_check_next_coupled_term", "ib = b + xi", "ib = b + xi + 1", "expect-fail"),
    (CC, "_check_next_coupled_term", "ia = a + da", "ia = a + da + 1", "expect-fail"),
    (CC, "_check_next_coupled_term", "bj[q] = bi[q]", "bj[q] = 0", "expect-fail"),
    (CC, "_check_next_coupled_term", "bj[reg] = xjs[ib]", "bj[ia] = xjs[ib]", "expect-fail"),
    (CC, "_check_next_coupled_term", "        # increment operator index\n        b += size_op", "            b += size_op", "expect-fail"),
    (CC, "_check_next_coupled_term", "for q in range(n):", "for q in range(n - 1):", "expect-fail"),
    # read-only inputs
    (CC, "flatconfig_to_rank_nosymm", "    return r", "    flatconfig[0] = 0\n    return r", "expect-fail"),
    (CC, "flatconfig_to_rank_mixed_radix_nosymm", "    return r", "    strides[0] = 1\n    return r", "expect-fail"),
    (CC, "flatconfig_to_rank_u1_pascal", "        krem -= xi", "        krem -= xi\n        flatconfig[i] = 0", "expect-fail"),
    (CC, "_check_next_coupled_term", "bj[reg] = xjs[ib]", "bj[reg] = xjs[ib]\n                bi[reg] = xjs[ib]", "expect-fail"),
    # reads the partially coupled configuration: differs when a register repeats inside a term
    (CC, "_check_next_coupled_term", "xi = bi[reg]", "xi = bj[reg]", "expect-fail"),
]

# deliberate breakage of quimb/operator/builder.py against the fdx providers (contracts.c19_ranking.provider_fdx):
# (relpath, old text, new text, obligation label that must fail).  Run by copying the package, editing the file and
# executing the providers with PYTHONPATH pointing at the copy.  The last entry is the FIX of the known defect: with it
# every fdx obligation (89 quick / 91 thorough) is discharged.
BD = "quimb/operator/builder.py"
FDX_MUTANTS = [
    (BD, '"z": {0: (0, 1.0), 1: (1, -1.0)},', '"z": {1: (1, -1.0), 0: (0, 1.0)},', "_OPMAP::row-order-input-0-then-1"),
    (BD, '"y": {0: (1, 1.0j), 1: (0, -1.0j)},', '"y": {0: (1, -1.0j), 1: (0, 1.0j)},', "get_mat::matrix-is-textbook"),
    (BD, '"+": {0: (1, 1.0)},', '"+": {1: (0, 1.0)},', "get_mat::matrix-is-textbook"),
    (BD, "        a[i, j] = xij", "        a[j, i] = xij", "get_mat::matrix-is-table-row"),
    (BD, "            cb = np.trace(bmat @ mat) / 2", "            cb = np.trace(bmat @ mat)",
     "get_pauli_decomp::decomposition-sums-to-operator"),
    (BD, '            (-1j * coeff, "ⴵ") if op == "y" else (coeff, op)', '            (1j * coeff, "ⴵ") if op == "y" else (coeff, op)',
     "get_pauli_decomp::decomposition-sums-to-operator"),
    (BD, "                    for r in range(reg):", "                    for r in range(reg + 1):",
     "jordan_wigner_transform::z-strings-below-every-ladder-operator"),
    (BD, "                    for r in range(reg):", "                    for r in range(1, reg):",
     "jordan_wigner_transform::z-strings-below-every-ladder-operator"),
    (BD, '                        new_term.append(("z", site_below))', '                        new_term.append(("z", r))',
     "jordan_wigner_transform::z-strings-below-every-ladder-operator"),
    (BD, "                new_term.append((op, site))", "                new_term.insert(0, (op, site))",
     "jordan_wigner_transform::z-strings-below-every-ladder-operator"),
    (BD, "        # null-term\n        return 0, None", '        # null-term\n        return 0, "I"',
     "simplify_single_site_ops::null-iff-product-vanishes"),
    (BD, "                xis.append(xi)\n                xjs.append(xj)", "                xis.append(xj)\n                xjs.append(xi)",
     "build_coupling_numba::entries-indexed-by-input-bit"),
    (BD, "    coeff *= ref_coeff / combo_coeff", "    coeff *= combo_coeff / ref_coeff", "FIX: nothing fails"),
]
