"""deliberate breakage of the C19 carriers: (relpath, function, old text, new text, expectation).
Each `expect-fail` mutant must turn at least one obligation of that function's contract from discharged to failed
(or make the contract inapplicable: mismatch / vacuous); `benign` ones do not change behaviour on the property's domain."""
CC = "quimb/operator/configcore.py"
MUTANTS = [
    # flatconfig_to_rank_nosymm
    (CC, "flatconfig_to_rank_nosymm", "r = (r << 1) | xi", "r = (r << 1) | 1", "expect-fail"),
    (CC, "flatconfig_to_rank_nosymm", "r = (r << 1) | xi", "r = r | xi", "expect-fail"),
    (CC, "flatconfig_to_rank_nosymm", "r = 0", "r = 1", "expect-fail"),
    (CC, "flatconfig_to_rank_nosymm", "r = (r << 1) | xi", "r = (xi << 1) | r", "expect-fail"),
    (CC, "flatconfig_to_rank_nosymm", "return r", "return r + 1", "expect-fail"),
    # rank_into_flatconfig_nosymm
    (CC, "rank_into_flatconfig_nosymm", "range(n - 1, -1, -1)", "range(n - 1, 0, -1)", "expect-fail"),
    (CC, "rank_into_flatconfig_nosymm", "range(n - 1, -1, -1)", "range(n, -1, -1)", "expect-fail"),
    (CC, "rank_into_flatconfig_nosymm", "r >>= 1", "pass", "expect-fail"),
    (CC, "rank_into_flatconfig_nosymm", "flatconfig[i] = r & 1", "flatconfig[n - 1 - i] = r & 1", "expect-fail"),
    (CC, "rank_into_flatconfig_nosymm", "flatconfig[i] = r & 1", "flatconfig[i] = 1 - (r & 1)", "expect-fail"),
    # rank_to_flatconfig_nosymm
    (CC, "rank_to_flatconfig_nosymm", "np.empty(n, dtype=np.uint8)", "np.empty(n + 1, dtype=np.uint8)", "expect-fail"),
    (CC, "rank_to_flatconfig_nosymm", "rank_into_flatconfig_nosymm(flatconfig, r, n)", "rank_into_flatconfig_nosymm(flatconfig, n, r)", "expect-fail"),
    (CC, "rank_to_flatconfig_nosymm", "rank_into_flatconfig_nosymm(flatconfig, r, n)", "rank_into_flatconfig_nosymm(flatconfig, r + 1, n)", "expect-fail"),
    (CC, "rank_to_flatconfig_nosymm", "rank_into_flatconfig_nosymm(flatconfig, r, n)", "pass", "expect-fail"),
    (CC, "rank_to_flatconfig_nosymm", "return flatconfig", "return None", "expect-fail"),
    # flatconfig_to_rank_z2
    (CC, "flatconfig_to_rank_z2", "range(flatconfig.size - 1)", "range(flatconfig.size)", "expect-fail"),
    (CC, "flatconfig_to_rank_z2", "range(flatconfig.size - 1)", "range(flatconfig.size - 2)", "expect-fail"),
    (CC, "flatconfig_to_rank_z2", "r = (r << 1) | flatconfig[i]", "r = (r << 1) | flatconfig[i + 1]", "expect-fail"),
    (CC, "flatconfig_to_rank_z2", "r = (r << 1) | flatconfig[i]", "r = (r << 1)", "expect-fail"),
    (CC, "flatconfig_to_rank_z2", "range(flatconfig.size - 1)", "range(1, flatconfig.size)", "expect-fail"),
    # rank_into_flatconfig_z2
    (CC, "rank_into_flatconfig_z2", "m = 1 << (n - 2)", "m = 1 << (n - 1)", "expect-fail"),
    (CC, "rank_into_flatconfig_z2", "m = 1 << (n - 2)", "m = 1 << (n - 3)", "expect-fail"),
    (CC, "rank_into_flatconfig_z2", "m >>= 1", "pass", "expect-fail"),
    (CC, "rank_into_flatconfig_z2", "prem ^= xi", "pass", "expect-fail"),
    (CC, "rank_into_flatconfig_z2", "flatconfig[n - 1] = prem ^ p", "flatconfig[n - 1] = prem", "expect-fail"),
    (CC, "rank_into_flatconfig_z2", "flatconfig[n - 1] = prem ^ p", "flatconfig[n - 1] = p", "expect-fail"),
    (CC, "rank_into_flatconfig_z2", "xi = r & m != 0", "xi = r & m == 0", "expect-fail"),
    (CC, "rank_into_flatconfig_z2", "range(n - 1)", "range(n - 2)", "expect-fail"),
    (CC, "rank_into_flatconfig_z2", "prem = 0", "prem = 1", "expect-fail"),
    # rank_to_flatconfig_z2
    (CC, "rank_to_flatconfig_z2", "np.empty(n, dtype=np.uint8)", "np.empty(n - 1, dtype=np.uint8)", "expect-fail"),
    (CC, "rank_to_flatconfig_z2", "rank_into_flatconfig_z2(flatconfig, r, n, p)", "rank_into_flatconfig_z2(flatconfig, r, n, 1 - p)", "expect-fail"),
    (CC, "rank_to_flatconfig_z2", "rank_into_flatconfig_z2(flatconfig, r, n, p)", "rank_into_flatconfig_z2(flatconfig, r >> 1, n, p)", "expect-fail"),
    (CC, "rank_to_flatconfig_z2", "rank_into_flatconfig_z2(flatconfig, r, n, p)", "rank_into_flatconfig_z2(flatconfig, r, n - 1, p)", "expect-fail"),
    # build_pascal_table
    (CC, "build_pascal_table", "pt[n, 0] = 1", "pt[n, 0] = 0", "expect-fail"),
    (CC, "build_pascal_table", "range(1, n + 1)", "range(1, n)", "expect-fail"),
    (CC, "build_pascal_table", "range(1, n + 1)", "range(1, n + 2)", "expect-fail"),
    (CC, "build_pascal_table", "pt[n - 1, k - 1] + pt[n - 1, k]", "pt[n - 1, k - 1] + pt[n - 1, k - 1]", "expect-fail"),
    (CC, "build_pascal_table", "pt[n - 1, k - 1] + pt[n - 1, k]", "pt[n - 1, k - 1]", "expect-fail"),
    (CC, "build_pascal_table", "d = nmax + 1", "d = nmax", "expect-fail"),
    (CC, "build_pascal_table", "np.zeros((d, d), dtype=np.int64)", "np.ones((d, d), dtype=np.int64)", "expect-fail"),
    # flatconfig_to_rank_u1_pascal
    (CC, "flatconfig_to_rank_u1_pascal", "j -= 1\n        r += xi * pt[j, krem]", "r += xi * pt[j, krem]\n        j -= 1", "expect-fail"),
    (CC, "flatconfig_to_rank_u1_pascal", "krem -= xi", "pass", "expect-fail"),
    (CC, "flatconfig_to_rank_u1_pascal", "r += xi * pt[j, krem]", "r += pt[j, krem]", "expect-fail"),
    (CC, "flatconfig_to_rank_u1_pascal", "r += xi * pt[j, krem]", "r += xi * pt[j, krem - 1]", "expect-fail"),
    (CC, "flatconfig_to_rank_u1_pascal", "r += xi * pt[j, krem]", "r += xi * pt[krem, j]", "expect-fail"),
    (CC, "flatconfig_to_rank_u1_pascal", "j = n", "j = n - 1", "expect-fail"),
    # rank_into_flatconfig_u1_pascal
    (CC, "rank_into_flatconfig_u1_pascal", "if r >= rank_if_one:", "if r > rank_if_one:", "expect-fail"),
    (CC, "rank_into_flatconfig_u1_pascal", "r -= rank_if_one", "pass", "expect-fail"),
    (CC, "rank_into_flatconfig_u1_pascal", "krem -= 1", "pass", "expect-fail"),
    (CC, "rank_into_flatconfig_u1_pascal", "rank_if_one = pt[j, krem]", "rank_if_one = pt[j, krem - 1]", "expect-fail"),
    (CC, "rank_into_flatconfig_u1_pascal", "flatconfig[i] = 0", "pass", "expect-fail"),
    (CC, "rank_into_flatconfig_u1_pascal", "flatconfig[i] = 1", "flatconfig[i] = 0", "expect-fail"),
    (CC, "rank_into_flatconfig_u1_pascal", "j -= 1\n        rank_if_one", "rank_if_one", "expect-fail"),
    # rank_to_flatconfig_u1_pascal
    (CC, "rank_to_flatconfig_u1_pascal", "np.empty(n, dtype=np.uint8)", "np.empty(k, dtype=np.uint8)", "expect-fail"),
    (CC, "rank_to_flatconfig_u1_pascal", "rank_into_flatconfig_u1_pascal(flatconfig, r, n, k, pt)", "rank_into_flatconfig_u1_pascal(flatconfig, r, k, n, pt)", "expect-fail"),
    (CC, "rank_to_flatconfig_u1_pascal", "rank_into_flatconfig_u1_pascal(flatconfig, r, n, k, pt)", "rank_into_flatconfig_u1_pascal(flatconfig, r + 1, n, k, pt)", "expect-fail"),
    (CC, "rank_to_flatconfig_u1_pascal", "rank_into_flatconfig_u1_pascal(flatconfig, r, n, k, pt)", "rank_into_flatconfig_u1_pascal(flatconfig, r, n, k - 1, pt)", "expect-fail"),
    # calculate_strides
    (CC, "calculate_strides", "strides[i + 1] * sizes[i + 1]", "strides[i + 1] * sizes[i]", "expect-fail"),
    (CC, "calculate_strides", "range(n - 2, -1, -1)", "range(n - 2, 0, -1)", "expect-fail"),
    (CC, "calculate_strides", "range(n - 2, -1, -1)", "range(n - 1, -1, -1)", "expect-fail"),
    (CC, "calculate_strides", "np.ones(n, dtype=np.uint64)", "np.zeros(n, dtype=np.uint64)", "expect-fail"),
    (CC, "calculate_strides", "strides[i + 1] * sizes[i + 1]", "strides[i + 1] + sizes[i + 1]", "expect-fail"),
    # flatconfig_to_rank_mixed_radix_nosymm
    (CC, "flatconfig_to_rank_mixed_radix_nosymm", "r += flatconfig[i] * strides[i]", "r += flatconfig[i]", "expect-fail"),
    (CC, "flatconfig_to_rank_mixed_radix_nosymm", "range(flatconfig.size)", "range(flatconfig.size - 1)", "expect-fail"),
    (CC, "flatconfig_to_rank_mixed_radix_nosymm", "range(flatconfig.size)", "range(1, flatconfig.size)", "expect-fail"),
    (CC, "flatconfig_to_rank_mixed_radix_nosymm", "r = 0", "r = 1", "expect-fail"),
    (CC, "flatconfig_to_rank_mixed_radix_nosymm", "r += flatconfig[i] * strides[i]", "r = flatconfig[i] * strides[i]", "expect-fail"),
    # rank_into_flatconfig_mixed_radix_nosymm
    (CC, "rank_into_flatconfig_mixed_radix_nosymm", "(r // strides[i]) % sizes[i]", "(r % strides[i]) // sizes[i]", "expect-fail"),
    (CC, "rank_into_flatconfig_mixed_radix_nosymm", "(r // strides[i]) % sizes[i]", "(r // strides[i])", "expect-fail"),
    (CC, "rank_into_flatconfig_mixed_radix_nosymm", "(r // strides[i]) % sizes[i]", "(r // sizes[i]) % strides[i]", "expect-fail"),
    (CC, "rank_into_flatconfig_mixed_radix_nosymm", "range(len(sizes))", "range(len(sizes) - 1)", "expect-fail"),
    (CC, "rank_into_flatconfig_mixed_radix_nosymm", "flatconfig[i] =", "flatconfig[len(sizes) - 1 - i] =", "expect-fail"),
    # rank_to_flatconfig_mixed_radix_nosymm
    (CC, "rank_to_flatconfig_mixed_radix_nosymm", "n = len(sizes)", "n = len(sizes) + 1", "expect-fail"),
    (CC, "rank_to_flatconfig_mixed_radix_nosymm", "(flatconfig, r, sizes, strides)", "(flatconfig, r, strides, sizes)", "expect-fail"),
    (CC, "rank_to_flatconfig_mixed_radix_nosymm", "(flatconfig, r, sizes, strides)", "(flatconfig, r + 1, sizes, strides)", "expect-fail"),
    (CC, "rank_to_flatconfig_mixed_radix_nosymm", "return flatconfig", "return sizes", "expect-fail"),
    # flatconfig_to_rank_u1u1_pascal
    (CC, "flatconfig_to_rank_u1u1_pascal", "Db = pt[nb, kb]", "Db = pt[na, ka]", "expect-fail"),
    (CC, "flatconfig_to_rank_u1u1_pascal", "flatconfig[:na], na, ka, pt", "flatconfig[:na], nb, kb, pt", "expect-fail"),
    (CC, "flatconfig_to_rank_u1u1_pascal", "flatconfig[na:], nb, kb, pt", "flatconfig[nb:], nb, kb, pt", "expect-fail"),
    (CC, "flatconfig_to_rank_u1u1_pascal", "flatconfig[na:], nb, kb, pt", "flatconfig[:na], nb, kb, pt", "expect-fail"),
    (CC, "flatconfig_to_rank_u1u1_pascal", ") * Db + flatconfig_to_rank_u1_pascal", ") + Db * flatconfig_to_rank_u1_pascal", "expect-fail"),
    (CC, "flatconfig_to_rank_u1u1_pascal", "Db = pt[nb, kb]", "Db = pt[nb, kb] + 1", "expect-fail"),
    # rank_into_flatconfig_u1u1_pascal
    (CC, "rank_into_flatconfig_u1u1_pascal", "r1 = r // Db\n    r2 = r % Db", "r1 = r % Db\n    r2 = r // Db", "expect-fail"),
    (CC, "rank_into_flatconfig_u1u1_pascal", "Db = pt[nb, kb]", "Db = pt[na, ka]", "expect-fail"),
    (CC, "rank_into_flatconfig_u1u1_pascal", "flatconfig[na:], r2, nb, kb, pt", "flatconfig[nb:], r2, nb, kb, pt", "expect-fail"),
    (CC, "rank_into_flatconfig_u1u1_pascal", "flatconfig[na:], r2, nb, kb, pt", "flatconfig[na:], r1, nb, kb, pt", "expect-fail"),
    (CC, "rank_into_flatconfig_u1u1_pascal", "flatconfig[:na], r1, na, ka, pt", "flatconfig[:na], r1, na, kb, pt", "expect-fail"),
    (CC, "rank_into_flatconfig_u1u1_pascal", "rank_into_flatconfig_u1_pascal(flatconfig[na:], r2, nb, kb, pt)", "pass", "expect-fail"),
    (CC, "rank_into_flatconfig_u1u1_pascal", "rank_into_flatconfig_u1_pascal(flatconfig[:na], r1, na, ka, pt)\n    rank_into_flatconfig_u1_pascal(flatconfig[na:], r2, nb, kb, pt)", "rank_into_flatconfig_u1_pascal(flatconfig[na:], r2, nb, kb, pt)\n    rank_into_flatconfig_u1_pascal(flatconfig[:na], r1, na, ka, pt)", "benign"),
    # rank_to_flatconfig_u1u1_pascal
    (CC, "rank_to_flatconfig_u1u1_pascal", "np.empty(na + nb, dtype=np.uint8)", "np.empty(na, dtype=np.uint8)", "expect-fail"),
    (CC, "rank_to_flatconfig_u1u1_pascal", "(flatconfig, r, na, ka, nb, kb, pt)", "(flatconfig, r, nb, kb, na, ka, pt)", "expect-fail"),
    (CC, "rank_to_flatconfig_u1u1_pascal", "(flatconfig, r, na, ka, nb, kb, pt)", "(flatconfig, r, na, kb, nb, ka, pt)", "expect-fail"),
    (CC, "rank_to_flatconfig_u1u1_pascal", "(flatconfig, r, na, ka, nb, kb, pt)", "(flatconfig, r - 1, na, ka, nb, kb, pt)", "expect-fail"),
]
