"""deliberate breakages of quimb/tensor/decomp.py that the C05 contracts must catch (see vf/selftest.py).

Format: (relpath, function_suffix, old_text, new_text, "expect-fail" | "benign").  This file brings its own runner
(``run_mutant``).  The generic ``_trim_and_renorm_svd_result`` has 24 (cutoff mode, renorm) cases (25 s): its mutants are run
on the 10 cases with renorm = 0 or renorm equal to the power of the cutoff mode unless the function_suffix carries
"@<substring>" selecting cases by name ("@" alone: all cases).  Findings 6a / 6b are fixed in /repo; the reverts of both
fixes are expect-fail mutants here.  "::fdx" mutants import the mutated file as a module of its own and evaluate the fdx
provider on it (caught = a provider obligation fails that the unchanged tree discharges).
"""
import os

MODULES = ["contracts.c05_decomp"]
D = "quimb/tensor/decomp.py"
KEEP, RENORM, TRIMN, TRIMG, ABS, ABSN = ("::_compute_number_svals_to_keep_numba", "::_compute_svals_renorm_factor_numba",
                                         "::_trim_and_renorm_svd_result_numba", "::_trim_and_renorm_svd_result",
                                         "::_do_absorb", "::_do_absorb_numba")
FDX = "::fdx"

# the corrected renormalisation of the generic function (fix of finding 6a) and the defective text it replaced
_FIXED = ("            crp = xp.cumsum(sabs**renorm, axis=-1)\n"
          "            norm = (crp[..., -1:] / crp[..., n_chi - 1 : n_chi]) ** (\n"
          "                1 / renorm\n"
          "            )\n")
_DEFECT_6A = "            norm = (tot / csp[n_chi - 1]) ** (1 / pow)\n"

MUTANTS = [
    # ---- _compute_number_svals_to_keep_numba
    (D, KEEP, "        n_chi = np.sum(s > cutoff)\n", "        n_chi = np.sum(s < cutoff)\n", "expect-fail"),
    (D, KEEP, "        n_chi = np.sum(s > cutoff)\n", "        n_chi = np.sum(s >= cutoff)\n", "expect-fail"),  # B.4: exactly #{s > cutoff}
    (D, KEEP, "        n_chi = np.sum(s > cutoff * s[0])", "        n_chi = np.sum(s > cutoff * s[1])", "expect-fail"),
    (D, KEEP, "        n_chi = np.sum(s > cutoff * s[0])", "        n_chi = np.sum(s > cutoff)", "expect-fail"),
    (D, KEEP, "        for i in range(s.size - 1, -1, -1):", "        for i in range(s.size - 2, -1, -1):", "expect-fail"),
    (D, KEEP, "        for i in range(s.size - 1, -1, -1):", "        for i in range(s.size - 1, 0, -1):", "benign"),  # max(.,1) clamps
    (D, KEEP, "            if ssum > target:\n                break", "            if ssum < target:\n                break", "expect-fail"),
    (D, KEEP, "            if ssum > target:\n                break", "            if ssum >= target:\n                break", "benign"),  # tie only
    (D, KEEP, "            n_chi -= 1\n", "            n_chi -= 2\n", "expect-fail"),
    (D, KEEP, "    return max(n_chi, 1)", "    return max(n_chi, 0)", "expect-fail"),
    (D, KEEP, "    return max(n_chi, 1)", "    return n_chi", "expect-fail"),
    (D, KEEP, "        if cutoff_mode in (cutoff_mode_sum2, cutoff_mode_rsum2):\n            pow = 2\n        else:\n            pow = 1\n\n        target = cutoff",
     "        if cutoff_mode in (cutoff_mode_sum2, cutoff_mode_rsum2):\n            pow = 1\n        else:\n            pow = 1\n\n        target = cutoff", "expect-fail"),
    (D, KEEP, "        if cutoff_mode in (cutoff_mode_rsum2, cutoff_mode_rsum1):\n            target *= np.sum(s**pow)",
     "        if cutoff_mode in (cutoff_mode_rsum2, cutoff_mode_sum1):\n            target *= np.sum(s**pow)", "expect-fail"),
    (D, KEEP, "            target *= np.sum(s**pow)", "            target *= np.sum(s)", "expect-fail"),
    (D, KEEP, "        ssum = 0.0\n        for i in range(s.size - 1, -1, -1):", "        ssum = s[0]\n        for i in range(s.size - 1, -1, -1):", "expect-fail"),
    # ---- _compute_svals_renorm_factor_numba
    (D, RENORM, "    raise_power = renorm >= 2", "    raise_power = renorm > 2", "expect-fail"),
    (D, RENORM, "            if i < n_chi:\n                s_tot_keep += s2", "            if i <= n_chi:\n                s_tot_keep += s2", "expect-fail"),
    (D, RENORM, "    f = (s_tot_keep + s_tot_lose) / s_tot_keep", "    f = (s_tot_keep + s_tot_lose) / s_tot_lose", "expect-fail"),
    (D, RENORM, "    f = (s_tot_keep + s_tot_lose) / s_tot_keep", "    f = s_tot_lose / s_tot_keep", "expect-fail"),
    (D, RENORM, "        f **= 1 / renorm", "        f **= renorm", "expect-fail"),
    (D, RENORM, "    for i in range(s.size):\n        s2 = s[i]", "    for i in range(s.size - 1):\n        s2 = s[i]", "expect-fail"),
    (D, RENORM, "            s2 **= renorm", "            s2 **= 2", "expect-fail"),
    (D, RENORM, "    if raise_power:\n        f **= 1 / renorm\n", "    pass\n", "expect-fail"),
    # ---- _trim_and_renorm_svd_result_numba
    (D, TRIMN, "            # bond dimension limited by both cutoff and max_bond\n            n_chi = min(n_chi, max_bond)",
     "            # bond dimension limited by both cutoff and max_bond\n            n_chi = max(n_chi, max_bond)", "expect-fail"),
    (D, TRIMN, "        if max_bond > 0:\n            # bond dimension limited by both cutoff and max_bond", "        if max_bond > 1:\n            # bond dimension limited by both cutoff and max_bond", "expect-fail"),
    (D, TRIMN, "                error = np.sqrt(np.sum(sabs[n_chi:] ** 2))", "                error = np.sqrt(np.sum(sabs[n_chi:] ** 1))", "expect-fail"),
    (D, TRIMN, "                error = np.sqrt(np.sum(sabs[n_chi:] ** 2))", "                error = np.sum(sabs[n_chi:] ** 2)", "expect-fail"),
    (D, TRIMN, "                f = _compute_svals_renorm_factor_numba(sabs, n_chi, renorm)", "                f = _compute_svals_renorm_factor_numba(sabs, n_chi + 1, renorm)", "expect-fail"),
    (D, TRIMN, "                f = _compute_svals_renorm_factor_numba(sabs, n_chi, renorm)", "                f = _compute_svals_renorm_factor_numba(sabs, n_chi, 2)", "expect-fail"),
    (D, TRIMN, "                s = s[:n_chi] * f", "                s = s[:n_chi]", "expect-fail"),
    (D, TRIMN, "            U = U[:, :n_chi]\n            VH = VH[:n_chi, :]", "            U = U[:, :max_bond]\n            VH = VH[:n_chi, :]", "expect-fail"),
    (D, TRIMN, "        n_chi = _compute_number_svals_to_keep_numba(sabs, cutoff, cutoff_mode)", "        n_chi = _compute_number_svals_to_keep_numba(s, cutoff, cutoff_mode)", "expect-fail"),
    (D, TRIMN, "        error = 0.0\n    else:\n        error = None", "        error = None\n    else:\n        error = None", "expect-fail"),
    (D, TRIMN, "        U = U[:, :max_bond]\n        s = s[:max_bond]", "        U = U[:, :max_bond]\n        s = s[:max_bond - 1]", "expect-fail"),
    (D, TRIMN, "    U, s, VH = _do_absorb_numba(U, s, VH, absorb)", "    U, s, VH = _do_absorb_numba(U, s, VH, get_Usq_sqVH)", "expect-fail"),
    # ---- _trim_and_renorm_svd_result (generic; judged on the cases that are clean on the unchanged tree)
    (D, TRIMG, "            n_chi = xp.count_nonzero(above_thresh, axis=-1) + 1", "            n_chi = xp.count_nonzero(above_thresh, axis=-1)", "expect-fail"),
    (D, TRIMG, "                above_thresh = csp < tot - cutoff", "                above_thresh = csp <= tot - cutoff", "benign"),  # tie only
    (D, TRIMG, "                above_thresh = csp < tot * (1 - cutoff)", "                above_thresh = csp < tot * cutoff", "expect-fail"),
    (D, TRIMG, "                above_thresh = csp < tot - cutoff", "                above_thresh = csp < tot * (1 - cutoff)", "expect-fail"),
    (D, TRIMG, "        n_chi = max(int(n_chi), 1)", "        n_chi = max(int(n_chi), 0)", "expect-fail"),
    (D, TRIMG, "            # need to take both cutoff and max bond into account\n            n_chi = min(n_chi, max_bond)",
     "            # need to take both cutoff and max bond into account\n            n_chi = n_chi", "expect-fail"),
    (D, TRIMG, 'info["error"] = xp.sqrt(xp.sum(sabs[..., n_chi:] ** 2, axis=-1))', 'info["error"] = xp.sqrt(xp.sum(sabs[..., n_chi + 1:] ** 2, axis=-1))', "expect-fail"),
    (D, TRIMG, 'info["error"] = xp.sqrt(xp.sum(sabs[..., n_chi:] ** 2, axis=-1))', 'info["error"] = xp.sqrt(xp.sum(s[..., n_chi:] ** 2, axis=-1))', "expect-fail"),
    (D, TRIMG, "            if cutoff_mode in (cutoff_mode_sum2, cutoff_mode_rsum2):\n                pow = 2\n                sp = sabs**pow",
     "            if cutoff_mode in (cutoff_mode_sum2, cutoff_mode_rsum2):\n                pow = 2\n                sp = sabs", "expect-fail"),
    (D, TRIMG, "        # only maximum bond specified\n        n_chi = max_bond", "        # only maximum bond specified\n        n_chi = max_bond + 1", "expect-fail"),
    (D, TRIMG, "        VH = VH[..., :n_chi, :]", "        VH = VH[..., :n_chi - 1, :]", "expect-fail"),
    (D, TRIMG, "            n_chi = xp.count_nonzero(sabs > cutoff * sabs[..., 0:1], axis=-1)", "            n_chi = xp.count_nonzero(sabs > cutoff, axis=-1)", "expect-fail"),
    (D, TRIMG, "        # no truncation\n        info[\"error\"] = 0.0", "        # no truncation\n        info[\"error\"] = 1.0", "expect-fail"),
    (D, TRIMG, "    return _do_absorb(U, s, VH, absorb=absorb, xp=xp)", "    return _do_absorb(U, sabs, VH, absorb=absorb, xp=xp)", "expect-fail"),
    # reverting the fix of finding 6a (renormalise with the cutoff mode's power again) must fail: `renorm-factor` in the
    # cases whose renorm differs from the mode's power, UnboundLocalError for abs / rel with renorm > 0  ("@": all cases)
    (D, TRIMG + "@", _FIXED, _DEFECT_6A, "expect-fail"),
    (D, TRIMG + "@renorm=2", _FIXED, _FIXED.replace("1 / renorm", "1 / pow"), "expect-fail"),
    (D, TRIMG + "@renorm=", _FIXED, _FIXED.replace("n_chi - 1 : n_chi", "n_chi : n_chi + 1"), "expect-fail"),
    (D, TRIMG + "@renorm=1", _FIXED, _FIXED.replace("crp[..., -1:] /", "crp[..., 0:1] /"), "expect-fail"),
    # ---- _do_absorb
    (D, ABS, "        return rdmul(U, sq), None, ldmul(sq, VH)", "        return rdmul(U, s), None, ldmul(sq, VH)", "expect-fail"),
    (D, ABS, "        return U, None, ldmul(s, VH)", "        return U, None, VH", "expect-fail"),
    (D, ABS, "        return rdmul(U, s), None, VH", "        return rdmul(U, s), None, ldmul(s, VH)", "expect-fail"),
    (D, ABS, "    if absorb == get_U:  # 'lorthog'\n        return U, None, None", "    if absorb == get_U:  # 'lorthog'\n        return None, None, U", "expect-fail"),
    (D, ABS, "    if absorb == get_Usq_sqVH:  # 'both'\n        sq = xp.sqrt(s)", "    if absorb == get_Usq_sqVH:  # 'both'\n        sq = s", "expect-fail"),
    (D, ABS, "    raise ValueError(f\"Invalid absorb mode: {absorb}\")", "    return None, None, None", "expect-fail"),
    (D, ABS, "    if absorb == get_s:  # 'svals'\n        return None, s, None\n    raise", "    if absorb == get_s:  # 'svals'\n        return None, None, None\n    raise", "expect-fail"),
    (D, ABS, "    if absorb == get_U_sVH:  # 'right'\n        return U, None, ldmul(s, VH)\n    if absorb == get_Us_VH:  # 'left'", "    if absorb == get_Us_VH:  # 'right'\n        return U, None, ldmul(s, VH)\n    if absorb == get_U_sVH:  # 'left'", "expect-fail"),
    (D, ABS, "        return rdmul(U, s), None, None", "        return ldmul(s, U), None, None", "expect-fail"),
    # ---- _do_absorb_numba
    (D, ABSN, "        return rdmul_numba(U, sq), None, ldmul_numba(sq, VH)", "        return rdmul_numba(U, sq), None, ldmul_numba(s, VH)", "expect-fail"),
    (D, ABSN, "        return U, None, ldmul_numba(s, VH)", "        return U, s, ldmul_numba(s, VH)", "expect-fail"),
    (D, ABSN, "        return rdmul_numba(U, s), None, VH", "        return U, None, VH", "expect-fail"),
    (D, ABSN, "    if absorb == get_VH:  # 'rorthog'\n        return None, None, VH\n    if absorb == get_Usq:  # 'lsqrt'\n        sq = np.sqrt(s)", "    if absorb == get_VH:  # 'rorthog'\n        return None, None, U\n    if absorb == get_Usq:  # 'lsqrt'\n        sq = np.sqrt(s)", "expect-fail"),
    (D, ABSN, "        sq = np.sqrt(s)\n        return None, None, ldmul_numba(sq, VH)", "        sq = np.sqrt(s)\n        return None, None, ldmul_numba(s, VH)", "expect-fail"),
    (D, ABSN, "    if absorb == get_s:  # 'svals'\n        return None, s, None\n    return None, None, None", "    if absorb == get_s:  # 'svals'\n        return None, None, s\n    return None, None, None", "expect-fail"),
    (D, ABSN, "        # get_U_s_VH - return as-is\n        return U, s, VH", "        # get_U_s_VH - return as-is\n        return U, s, None", "expect-fail"),
    # ---- fdx provider (option parsers and their tables): the mutated file is imported as a module of its own and the
    # provider evaluated on it; caught = a provider obligation fails that the unchanged tree discharges
    (D, FDX, "    left_isom = absorb in (get_U_s_VH, get_U_sVH, get_U)", "    left_isom = absorb in (get_U_s_VH, get_U_sVH, get_U, get_Usq_sqVH)", "expect-fail"),
    (D, FDX, "    right_isom = absorb in (get_U_s_VH, get_Us_VH, get_VH)", "    right_isom = absorb in (get_U_s_VH, get_Us_VH, get_VH, get_sVH)", "expect-fail"),
    (D, FDX, "        absorb = _DEFAULT_ABSORB[method]\n", "        absorb = \"both\"\n", "expect-fail"),
    (D, FDX, "                    opts[\"renorm\"] = 0 if renorm is None else renorm", "                    opts[\"renorm\"] = renorm", "expect-fail"),
    (D, FDX, "    if \"max_bond\" in signature.parameters:\n        opts[\"max_bond\"] = max_bond", "    if True:\n        opts[\"max_bond\"] = max_bond", "expect-fail"),
    (D, FDX, "    if method.startswith(\"lq\"):", "    if method == \"lq\":", "expect-fail"),
    (D, FDX, "    get_Us: get_sVH,\n", "    get_Us: get_Us,\n", "expect-fail"),
    (D, FDX, "_RETURNS_LEFT_ABSORBS = {\n    get_U_s_VH,\n    get_Usq,", "_RETURNS_LEFT_ABSORBS = {\n    get_U_s_VH,\n    get_VH,", "expect-fail"),
    (D, FDX, "    truncation = (max_bond > 0) or (cutoff > 0.0)", "    truncation = (max_bond > 0) or (cutoff >= 0.0)", "benign"),  # 'auto' then always resolves to svd: still total
    # reverting the fix of finding 6b (typed=True makes the argument types part of the cache key) must fail memo-key[param=renorm]
    (D, FDX, "@functools.lru_cache(maxsize=None, typed=True)\ndef parse_split_opts(", "@functools.cache\ndef parse_split_opts(", "expect-fail"),
    (D, FDX, "@functools.lru_cache(maxsize=None, typed=True)\ndef parse_split_opts(", "@functools.lru_cache(maxsize=None, typed=False)\ndef parse_split_opts(", "expect-fail"),
    (D, FDX, "@functools.cache\ndef parse_split_left_right_isom(", "@functools.lru_cache(maxsize=None, typed=True)\ndef parse_split_left_right_isom(", "benign"),
]


def _clean_generic_case(name):
    """cases of the generic trim contract that are fully discharged on the unchanged tree"""
    return ("renorm=0" in name or (("sum2" in name) and name.endswith("renorm=2"))
            or (("sum1" in name) and name.endswith("renorm=1")))


_FDX_BASE = {}


def _fdx_failed(D, methods):
    import contracts.c05_decomp as C
    return {o.id for o in C.provider_on(D, isometry_methods=methods) if o.status != "discharged"}


def run_fdx_mutant(tmp, relpath, old, new):
    """import the mutated decomp.py as a module of its own (its tables and caches are its own) and evaluate the provider"""
    import importlib.util
    import warnings
    src = open(os.path.join("/repo", relpath)).read()
    if src.count(old) < 1:
        return "stale", "old text not found in the current source"
    dst = os.path.join(tmp, relpath)
    os.makedirs(os.path.dirname(dst), exist_ok=True)
    open(dst, "w").write(src.replace(old, new, 1))
    methods = ("svd", "qr", "auto", "lq")  # isometry runs restricted to these drivers (compile time of the njit copies)
    try:
        with warnings.catch_warnings():
            warnings.simplefilter("ignore")
            if "base" not in _FDX_BASE:
                import quimb.tensor.decomp as D0
                _FDX_BASE["base"] = _fdx_failed(D0, methods)
            spec = importlib.util.spec_from_file_location("quimb.tensor._decomp_mutant", dst)
            mod = importlib.util.module_from_spec(spec)
            mod.__package__ = "quimb.tensor"
            spec.loader.exec_module(mod)
            got = _fdx_failed(mod, methods)
    finally:
        os.remove(dst)
    new_fail = sorted(got - _FDX_BASE["base"])
    if new_fail:
        return "failed", ", ".join(x.split("::", 1)[1] for x in new_fail[:3]) + f" (+{max(0, len(new_fail) - 3)} more)"
    return "discharged", ""


def run_mutant(tmp, relpath, suffix, old, new):
    from vf import pyvc
    if suffix == FDX:
        return run_fdx_mutant(tmp, relpath, old, new)
    explicit = "@" in suffix
    suffix, _, sel = suffix.partition("@")
    src = open(os.path.join("/repo", relpath)).read()
    if src.count(old) < 1:
        return "stale", "old text not found in the current source"
    cons = [v for k, v in pyvc.REGISTRY.items() if k.endswith(suffix)]
    if not cons:
        return "stale", f"no contract registered for {suffix}"
    con = cons[0]
    dst = os.path.join(tmp, relpath)
    os.makedirs(os.path.dirname(dst), exist_ok=True)
    open(dst, "w").write(src.replace(old, new, 1))
    pyvc.REPO = tmp
    pyvc._SRC_CACHE.clear()
    all_cases = con.cases()
    try:
        if explicit:
            con.cases = lambda: [c for c in all_cases if sel in c.name]
        elif suffix == TRIMG:
            con.cases = lambda: [c for c in all_cases if _clean_generic_case(c.name)]
        rep = pyvc.verify(con)
    finally:
        con.__dict__.pop("cases", None)
        pyvc.REPO = "/repo"
        pyvc._SRC_CACHE.clear()
        os.remove(dst)
    if rep.failed:
        return "failed", ", ".join(sorted({o.label.split("#")[0] for o in rep.failed})[:3])
    if rep.status != "ok":
        return rep.status, rep.detail[:120]
    if rep.unknown:
        return "unknown", f"{len(rep.unknown)} undecided"
    return "discharged", ""
