"""C17 extension mutants: deliberate breakages of quimb/linalg/{autoblock,base_linalg}.py on a scratch copy.
E1 contracts (suffix starts with '::'): the engine re-executes the mutated source; provider obligations (suffix = substring
of the obligation id): the provider runs in a subprocess that imports quimb from the scratch copy.

   ./check selftest c17x
"""
import json
import os
import shutil
import subprocess
import sys

MODULES = ["contracts.c17_ext"]
AB, BL = "quimb/linalg/autoblock.py", "quimb/linalg/base_linalg.py"
SL = "quimb/linalg/scipy_linalg.py"
NL = "quimb/linalg/numpy_linalg.py"

_SS = "    for i in range(dp):\n        for j in range(dp):\n            A[p[i], p[j]] = B[i, j]"

MUTANTS = [
    # ---------------------------------------------------------------- E1 subselect
    (AB, "::subselect", "out[i, j] = A[p[i], p[j]]", "out[i, j] = A[p[j], p[i]]", "expect-fail"),  # transposed block
    (AB, "::subselect", "out = np.empty((dp, dp), dtype=A.dtype)", "out = np.empty((dp, dp))", "expect-fail"),
    (AB, "::subselect", "    for i in range(dp):\n        for j in range(dp):\n            out[i, j]",
     "    for i in range(1, dp):\n        for j in range(dp):\n            out[i, j]", "expect-fail"),
    (AB, "::subselect", "        for j in range(dp):\n            out[i, j]", "        for j in range(dp - 1):\n            out[i, j]",
     "expect-fail"),
    (AB, "::subselect", "out[i, j] = A[p[i], p[j]]", "out[i, j] = A[p[i], j]", "expect-fail"),
    (AB, "::subselect", "out[i, j] = A[p[i], p[j]]", "pi = p[i]\n            out[i, j] = A[pi, p[j]]", "benign"),
    # ---------------------------------------------------------------- E1 subselect_set
    (AB, "::subselect_set", "A[p[i], p[j]] = B[i, j]", "A[p[i], p[j]] = B[j, i]", "expect-fail"),
    (AB, "::subselect_set", "A[p[i], p[j]] = B[i, j]", "A[p[j], p[i]] = B[i, j]", "expect-fail"),
    (AB, "::subselect_set", "A[p[i], p[j]] = B[i, j]", "A[p[i], p[j]] = B[i, i]", "expect-fail"),
    (AB, "::subselect_set", "A[p[i], p[j]] = B[i, j]", "A[p[i], p[j]] = B[i, j]\n            A[0, 0] = B[i, j]", "expect-fail"),  # frame
    (AB, "::subselect_set", _SS, _SS.replace("for j in range(dp)", "for j in range(i, dp)"), "expect-fail"),
    (AB, "::subselect_set", "A[p[i], p[j]] = B[i, j]", "v = B[i, j]\n            A[p[i], p[j]] = v", "benign"),
    # ---------------------------------------------------------------- E1 _rel_window_to_abs_window
    (BL, "::_rel_window_to_abs_window", "el_w_0 = el_min + w_0 * el_range", "el_w_0 = el_max - w_0 * el_range", "expect-fail"),
    (BL, "::_rel_window_to_abs_window", "el_w_min = el_w_0 - w_sz * el_range / 2", "el_w_min = el_w_0 - w_sz * el_range",
     "expect-fail"),
    (BL, "::_rel_window_to_abs_window", "return el_w_0, el_w_min, el_w_max", "return el_w_0, el_w_max, el_w_min", "expect-fail"),
    (BL, "::_rel_window_to_abs_window", "el_range = el_max - el_min", "el_range = el_min - el_max", "expect-fail"),
    (BL, "::_rel_window_to_abs_window", "el_w_0 = el_min + w_0 * el_range", "el_w_0 = w_0 * el_range + el_min", "benign"),
    # ---------------------------------------------------------------- E1 choose_backend
    (BL, "::choose_backend", "if small_d_big_k and not (A_is_linop or B_is_linop):", "if small_d_big_k and not A_is_linop:",
     "expect-fail"),
    (BL, "::choose_backend", "if SLEPC4PY_FOUND and not B_is_linop:", "if SLEPC4PY_FOUND:", "expect-fail"),
    (BL, "::choose_backend", "(10000 if int_eps else 2000)", "(2000 if int_eps else 10000)", "expect-fail"),
    (BL, "::choose_backend", '            return "SLEPC"\n\n        return "SLEPC-NOMPI"',
     '            return "SLEPC-NOMPI"\n\n        return "SLEPC"', "expect-fail"),
    (BL, "::choose_backend", "A.shape[0] ** 2 / k <", "A.shape[0] / k <", "expect-fail"),
    (BL, "::choose_backend", "not (A_is_linop or B_is_linop):", "not (B_is_linop or A_is_linop):", "benign"),
    # ---------------------------------------------------------------- fdx eigensystem_partial
    (BL, "eigensystem_partial::fdx-which-default", '            "SA"\n            if (which is None) and (sigma is None)',
     '            "LA"\n            if (which is None) and (sigma is None)', "expect-fail"),
    (BL, "eigensystem_partial::fdx-which-default", '            else "TR"\n            if (which is None) and (sigma is not None)',
     '            else "TM"\n            if (which is None) and (sigma is not None)', "expect-fail"),
    (BL, "eigensystem_partial::fdx-settings-threaded", '        "sort": sort,\n        "tol": tol,',
     '        "sort": True,\n        "tol": tol,', "expect-fail"),
    (BL, "eigensystem_partial::fdx-backend-dispatch", 'bkd = "AUTO" if backend is None else backend.upper()',
     'bkd = "AUTO" if backend is None else backend', "expect-fail"),
    (BL, "eigensystem_partial::fdx-backend-dispatch", "bkd = choose_backend(A, k, sigma is not None, B=B)",
     "bkd = choose_backend(A, k, sigma is not None)", "expect-fail"),
    (BL, "eigensystem_partial::fdx-backend-dispatch", "bkd = choose_backend(A, k, sigma is not None, B=B)",
     "bkd = choose_backend(A, k, sigma is None, B=B)", "expect-fail"),
    (BL, "eigensystem_partial::fdx-fallback-to-scipy", 'if fallback_to_scipy and (bkd != "SCIPY"):', "if fallback_to_scipy:",
     "expect-fail"),
    (BL, "eigensystem_partial::fdx-fallback-to-scipy", "return eigs_scipy(A, **settings, **backend_opts)",
     "return eigs_scipy(A, **settings)", "expect-fail"),
    (BL, "eigensystem_partial::fdx-", '        "k": k,\n        "B": B,\n        "which": (', '        "B": B,\n        "k": k,\n        "which": (',
     "benign"),
    # ---------------------------------------------------------------- fdx alias table
    (BL, "::eigvalsh::fdx-alias", "eigvalsh = functools.partial(eigensystem, isherm=True, return_vecs=False)",
     "eigvalsh = functools.partial(eigensystem, isherm=False, return_vecs=False)", "expect-fail"),
    (BL, "::groundstate::fdx-alias", 'return eigvecsh(ham, k=1, which="SA", **kwargs)', 'return eigvecsh(ham, k=1, which="LA", **kwargs)',
     "expect-fail"),
    (BL, "::groundenergy::fdx-alias", 'return eigvalsh(ham, k=1, which="SA", **kwargs)[0]',
     'return eigvalsh(ham, k=2, which="SA", **kwargs)[1]', "expect-fail"),
    (BL, "::eigvecs::fdx-alias", "return eigensystem(A, isherm=isherm, sort=sort, **kwargs)[1]",
     "return eigensystem(A, isherm=isherm, sort=sort, **kwargs)[0]", "expect-fail"),
    (BL, "::bound_spectrum::fdx", 'el_max = eigvalsh(A, k=1, which="LA", backend=backend, **kwargs)[0]',
     'el_max = eigvalsh(A, k=1, which="LM", backend=backend, **kwargs)[0]', "expect-fail"),
    (BL, "::eigh::fdx-alias", "    if k < 0:\n        return eig_numpy(", "    if k <= 0:\n        return eig_numpy(", "expect-fail"),
    (BL, "::eigh::fdx-alias", "eigh = functools.partial(eigensystem, isherm=True, return_vecs=True)",
     "eigh = functools.partial(eigensystem, return_vecs=True, isherm=True)", "benign"),
    # ---------------------------------------------------------------- fdx norm / svds / expm / sqrtm
    (BL, "::norm::fdx-norm-type-table", '"nuc": "t",', '"nuc": "f",', "expect-fail"),
    (BL, "::norm::fdx-norm-type-table", '("f", 1): norm_fro_sparse,', '("f", 1): norm_fro_dense,', "expect-fail"),
    (BL, "::norm::fdx-norm-type-table", '("t", 0): norm_trace_dense,', '("t", 0): norm_trace_dense,\n        ("t", 1): norm_trace_dense,',
     "expect-fail"),
    (BL, "::norm_2::fdx", "return svds(A, k=1, return_vecs=False, **kwargs)[0]", "return svds(A, k=1, return_vecs=False, **kwargs)[-1]",
     "expect-fail"),
    (BL, "::svds::fdx", 'if backend in {"auto", "AUTO"}', 'if backend in {"AUTO"}', "expect-fail"),
    (BL, "::svds::fdx", 'settings = {"k": k, "ncv": ncv, "return_vecs": return_vecs}',
     'settings = {"k": k, "ncv": None, "return_vecs": return_vecs}', "expect-fail"),
    (BL, "::svds::fdx", "svds_func = _SVDS_METHODS[bkd.upper()]", "svds_func = _SVDS_METHODS[bkd]", "benign"),
    (BL, "::expm::fdx", "    elif not herm:\n        return qarray(spla.expm(A))", "    elif herm:\n        return qarray(spla.expm(A))",
     "expect-fail"),
    (BL, "::sqrtm::fdx", "    elif not herm:\n        return qarray(sla.sqrtm(A))", "    elif herm:\n        return qarray(sla.sqrtm(A))",
     "expect-fail"),
    (BL, "::sqrtm::fdx", "def sqrtm(A, herm=True):", "def sqrtm(A, herm=False):", "expect-fail"),
    # ---------------------------------------------------------------- fdx eigs_scipy (shift-invert translation)
    (SL, "eigs_scipy::fdx-which-translation", '            else "LM"\n            if (which is None) and (sigma is not None)',
     '            else "TR"\n            if (which is None) and (sigma is not None)', "expect-fail"),
    (SL, "eigs_scipy::fdx-which-translation", 'if ("T" in which.upper()) and (sigma is not None)',
     'if ("T" in which) and (sigma is not None)', "expect-fail"),
    (SL, "eigs_scipy::fdx-which-translation", '            else "LM"\n            if ("T" in which.upper())',
     '            else "SM"\n            if ("T" in which.upper())', "expect-fail"),
    (SL, "eigs_scipy::fdx-settings-threaded", '"tol": 0 if tol is None else tol,', '"tol": 0,', "expect-fail"),
    (SL, "eigs_scipy::fdx-settings-threaded", '        "sigma": sigma,\n        "return_eigenvectors": return_vecs,',
     '        "sigma": None,\n        "return_eigenvectors": return_vecs,', "expect-fail"),
    (SL, "eigs_scipy::fdx-hermitian-flag", "eigs = spla.eigsh if isherm else spla.eigs", "eigs = spla.eigs if isherm else spla.eigsh",
     "expect-fail"),
    (SL, "eigs_scipy::fdx-values-and-vectors-sorted-together", "lk, vk = lk[sortinds], vk[:, sortinds]", "lk = lk[sortinds]", "expect-fail"),
    (SL, "eigs_scipy::fdx-values-and-vectors-sorted-together", "return np.sort(lk) if sort else lk", "return lk", "expect-fail"),
    (SL, "eigs_scipy::fdx-", "        sortinds = np.argsort(lk)\n", "        sortinds = np.argsort(lk, kind='stable')\n", "benign"),
    # ---------------------------------------------------------------- fdx eig_numpy / eigensystem_autoblocked
    (NL, "eig_numpy::fdx-solver-table", "(True, True): nla.eigh,", "(True, True): nla.eig,", "expect-fail"),
    (NL, "eig_numpy::fdx-solver-table", "(False, True): nla.eigvalsh,\n    (False, False): nla.eigvals,",
     "(False, True): nla.eigvals,\n    (False, False): nla.eigvalsh,", "expect-fail"),
    (NL, "eig_numpy::fdx-routes", "evals = _NUMPY_EIG_FUNCS[return_vecs, isherm](A)", "evals = _NUMPY_EIG_FUNCS[isherm, return_vecs](A)",
     "expect-fail"),
    (NL, "eig_numpy::fdx-values-and-vectors-sorted-together", "evals, evecs = evals[sortinds], evecs[:, sortinds]",
     "evals, evecs = evals[sortinds], evecs[sortinds, :]", "expect-fail"),
    (NL, "eig_numpy::fdx-values-and-vectors-sorted-together", "    if sort:\n        evals.sort()", "    if not sort:\n        evals.sort()",
     "expect-fail"),
    (NL, "eig_numpy::fdx-autoblock-flags", "A, sort=sort, isherm=isherm, return_vecs=return_vecs\n        )",
     "A, sort=sort, isherm=isherm, return_vecs=True\n        )", "expect-fail"),
    (NL, "eig_numpy::fdx-", "            sortinds = np.argsort(evals)\n            evals, evecs",
     "            sortinds = np.argsort(evals, kind='stable')\n            evals, evecs", "benign"),
    (AB, "eigensystem_autoblocked::fdx", "    if not return_vecs:\n        return _eigvalsh_autoblocked(A, sort=sort)",
     "    if not return_vecs:\n        return _eigvalsh_autoblocked(A, sort=True)", "expect-fail"),
    (AB, "eigensystem_autoblocked::fdx", "    if not isherm:\n        err_msg", "    if isherm is None:\n        err_msg", "expect-fail"),
    (AB, "eigensystem_autoblocked::fdx", "    el, ev = _eigh_autoblocked(A, sort=sort)\n    return el, qarray(ev)",
     "    ev, el = _eigh_autoblocked(A, sort=sort)\n    return el, qarray(ev)", "expect-fail"),
    # ---------------------------------------------------------------- fdx subspace projection P (free *-algebra words)
    (SL, "eigs_scipy::fdx-projection", "    if P is not None:\n        A = qu.dag(P) @ (A @ P)\n\n    # Options that",
     "    if P is not None:\n        A = P.T @ (A @ P)\n\n    # Options that", "expect-fail"),
    (SL, "eigs_scipy::fdx-projection", "    if P is not None:\n        A = qu.dag(P) @ (A @ P)\n\n    # Options that",
     "    if P is not None:\n        A = P.conj() @ (A @ P)\n\n    # Options that", "expect-fail"),
    (SL, "eigs_scipy::fdx-projection", "    if P is not None:\n        A = qu.dag(P) @ (A @ P)\n\n    # Options that",
     "    if P is not None:\n        A = P @ (A @ qu.dag(P))\n\n    # Options that", "expect-fail"),
    (SL, "eigs_scipy::fdx-projection", "    if P is not None:\n        vk = P @ vk\n\n    return lk, qu.qarray(vk)",
     "    if P is not None:\n        vk = P.conj() @ vk\n\n    return lk, qu.qarray(vk)", "expect-fail"),
    (SL, "eigs_scipy::fdx-projection", "    if P is not None:\n        A = qu.dag(P) @ (A @ P)\n\n    # Options that",
     "    if P is not None:\n        A = (qu.dag(P) @ A) @ P\n\n    # Options that", "benign"),
    (SL, "eigs_lobpcg::fdx-projection", "    if P is not None:\n        A = qu.dag(P) @ (A @ P)\n\n    # avoid matrix like",
     "    if P is not None:\n        A = P.T @ (A @ P)\n\n    # avoid matrix like", "expect-fail"),
    (SL, "eigs_lobpcg::fdx-projection", "            v0 = qu.dag(P) @ v0", "            v0 = P.T @ v0", "expect-fail"),
    (SL, "eigs_lobpcg::fdx-projection", "    if P is not None:\n        A = qu.dag(P) @ (A @ P)\n\n    # avoid matrix like",
     "    if P is not None:\n        A = qu.dag(P) @ A\n\n    # avoid matrix like", "expect-fail"),
    (NL, "eigs_numpy::fdx-projection", "    if P is not None:\n        A = qu.dag(P) @ (A @ P)", "    if P is not None:\n        A = P.T @ (A @ P)",
     "expect-fail"),
    (NL, "eigs_numpy::fdx-projection", "    if P is not None:\n        A = qu.dag(P) @ (A @ P)", "    if P is not None:\n        A = qu.dag(P) @ (A.T @ P)",
     "expect-fail"),
    (NL, "eigs_numpy::fdx-projection", "        if P is not None:\n            vk = P @ vk", "        if P is not None:\n            vk = qu.dag(P).T @ vk",
     "expect-fail"),
    (NL, "eigs_numpy::fdx-projection", "    if P is not None:\n        A = qu.dag(P) @ (A @ P)", "    if P is not None:\n        A = P.conj().T @ (A @ P)",
     "benign"),
    # ---------------------------------------------------------------- frame (ast)
    (AB, "_eigvalsh_autoblocked::frame", "el[g] = np.linalg.eigvalsh(subselect(A, g))", "el[g] = np.linalg.eigvalsh(subselect(A.real, g))",
     "expect-fail"),
    (AB, "_eigvalsh_autoblocked::frame", "            el[g[0]] = A[g[0], g[0]].real\n            continue\n\n        el[g] = np.linalg.eigvalsh",
     "            el[g[0]] = A[g[0], g[-1]].real\n            continue\n\n        el[g] = np.linalg.eigvalsh", "expect-fail"),
    (AB, "_eigvalsh_autoblocked::frame", "    if sort:\n        return np.sort(el)\n\n    return el", "    if sort:\n        return el\n\n    return el",
     "expect-fail"),
    (BL, "sqrtm::frame-sqrt", "np.sqrt(evals.astype(complex))", "np.sqrt(evals)", "expect-fail"),  # seeded regression
    (BL, "sqrtm::frame-sqrt", "np.sqrt(evals.astype(complex))", "np.sqrt(evals.astype(float))", "expect-fail"),
    (BL, "sqrtm::frame-sqrt", "np.sqrt(evals.astype(complex))", "np.sqrt(evals.astype(np.complex128))", "benign"),
    (AB, "_eigh_autoblocked::frame-eigenvector-array", "ev = np.zeros_like(A)", "ev = np.zeros((d, d))", "expect-fail"),
    (AB, "_eigh_autoblocked::frame-eigenvector-array", "ev = np.zeros_like(A)", "ev = np.empty_like(A)", "expect-fail"),
    (AB, "_eigh_autoblocked::frame-eigenvector-array", "ev = np.zeros_like(A)", "ev = np.zeros(A.shape, dtype=A.dtype)", "benign"),
    (AB, "_eigh_autoblocked::frame-block-scatter", "subselect_set(ev, sub_ev, g)", "subselect_set(ev, sub_ev.real, g)", "expect-fail"),
    (AB, "_eigh_autoblocked::frame-block-scatter", "        el[g] = sub_el\n        subselect_set", "        el[g] = sub_el[::-1]\n        subselect_set",
     "expect-fail"),
    (AB, "_eigh_autoblocked::frame-block-scatter", "sub_el, sub_ev = np.linalg.eigh(subselect(A, g))",
     "sub_el, sub_ev = np.linalg.eigh(subselect(A.real, g))", "expect-fail"),
    (AB, "_eigh_autoblocked::frame-one-permutation", "ev[:, :] = ev[:, so]", "ev[:, :] = ev[so, :]", "expect-fail"),
]

_ST = {}


def run_mutant(tmp, relpath, suffix, old, new):
    if suffix.startswith("::") and "fdx" not in suffix and "frame" not in suffix:
        from vf.selftest import run_e1_mutant
        return run_e1_mutant(tmp, relpath, suffix, old, new)
    here = os.path.dirname(os.path.dirname(os.path.abspath(__file__)))
    src_root = os.path.realpath(os.environ.get("VERIF_REPO", "/repo"))
    scratch = os.path.join(tmp, "c17x")
    only = "frame" if "frame" in suffix else None
    code = ("import sys, json; sys.path.insert(0, %r); import contracts.c17_ext as F; "
            "obs = F.provider(only=%r); print('##' + json.dumps({o.id: o.status for o in obs}))" % (here, only))

    def provider():
        env = dict(os.environ, VERIF_REPO=scratch, PYTHONPATH=scratch, PYTHONWARNINGS="ignore",
                   NUMBA_CACHE_DIR=os.path.join(tmp, "numba-cache-c17x"))
        r = subprocess.run([sys.executable, "-c", code], capture_output=True, text=True, env=env)
        line = [x for x in r.stdout.splitlines() if x.startswith("##")]
        if not line:
            raise RuntimeError(r.stderr[-1500:])
        return json.loads(line[-1][2:])

    if "copied" not in _ST:
        shutil.rmtree(os.path.join(scratch, "quimb"), ignore_errors=True)
        shutil.copytree(os.path.join(src_root, "quimb"), os.path.join(scratch, "quimb"),
                        ignore=shutil.ignore_patterns("__pycache__", "*.pyc", "*.nbi", "*.nbc", "*.ipynb"))
        _ST["copied"] = True
    orig = open(os.path.join(src_root, relpath)).read()
    if orig.count(old) < 1:
        return "stale", "old text not found in the current source"
    path = os.path.join(scratch, relpath)
    open(path, "w").write(orig.replace(old, new, 1))
    try:
        res = provider()
    finally:
        open(path, "w").write(orig)
    hit = {k: v for k, v in res.items() if suffix in k}
    if not hit:
        return "stale", f"no obligation id contains {suffix!r}"
    failed_hit = [k for k, v in hit.items() if v == "failed"]
    if failed_hit:
        return "failed", failed_hit[0].split("::", 1)[1][:90]
    if all(v == "discharged" for v in res.values()):
        return "discharged", ""
    other = [k for k, v in res.items() if v != "discharged"]
    return "unknown", "(elsewhere) " + other[0][:100]
