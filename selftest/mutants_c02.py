"""deliberate breakages of the real source that the C02 contracts must catch (see vf/selftest.py)"""
MODULES = ['contracts.c02_maps']


def run_mutant(tmp, relpath, suffix, old, new):
    """as vf.selftest.run_e1_mutant, but the obligations of the case `repeats-allowed` (which fail on the UNCHANGED
    tree for _unlink_inds: known finding C02-a) do not count as `caught`"""
    import os
    from vf import pyvc
    src = open(os.path.join("/repo", relpath)).read()
    if src.count(old) < 1:
        return "stale", "old text not found in the current source"
    dst = os.path.join(tmp, relpath)
    os.makedirs(os.path.dirname(dst), exist_ok=True)
    open(dst, "w").write(src.replace(old, new, 1))
    # callee contracts live in the other carrier file: give the scratch tree an UNCHANGED copy of it
    for other in ("quimb/tensor/tensor_core.py", "quimb/utils.py"):
        if other != relpath:
            od = os.path.join(tmp, other)
            os.makedirs(os.path.dirname(od), exist_ok=True)
            open(od, "w").write(open(os.path.join("/repo", other)).read())
    pyvc.REPO = tmp
    pyvc._SRC_CACHE.clear()
    try:
        cons = [v for k, v in pyvc.REGISTRY.items() if k.endswith(suffix)]
        if not cons:
            return "stale", f"no contract registered for {suffix}"
        rep = pyvc.verify(cons[0])
    finally:
        pyvc.REPO = "/repo"
        pyvc._SRC_CACHE.clear()
        os.remove(dst)
    failed = [o for o in rep.failed if o.case != "repeats-allowed"]
    if failed:
        return "failed", ", ".join(sorted({o.label.split("#")[0] for o in failed})[:3])
    if rep.status != "ok":
        return rep.status, rep.detail[:120]
    if [o for o in rep.unknown if o.case != "repeats-allowed"]:
        return "unknown", f"{len(rep.unknown)} undecided"
    return "discharged", ""


_T = 'quimb/tensor/tensor_core.py'
_U = 'quimb/utils.py'
MUTANTS = [
    # ---- _link_tags
    (_T, '._link_tags', '                self.tag_map[tag].add(tid)\n', '                pass\n', 'expect-fail'),
    (_T, '._link_tags', '                self.tag_map[tag] = oset((tid,))\n', '                self.tag_map[tag] = oset(())\n', 'expect-fail'),
    (_T, '._link_tags', '            if tag in self.tag_map:\n                self.tag_map[tag].add(tid)', '            if tag not in self.tag_map:\n                self.tag_map[tag].add(tid)', 'expect-fail'),
    (_T, '._link_tags', '                self.tag_map[tag].add(tid)\n', '                self.tag_map[tag].discard(tid)\n', 'expect-fail'),
    (_T, '._link_tags', '                self.tag_map[tag].add(tid)\n', '                self.tag_map[tag].add(tid + 1)\n', 'expect-fail'),
    (_T, '._link_tags', '                self.tag_map[tag].add(tid)\n', '                self.tag_map[tag].add(tid)\n                self.ind_map[tag] = oset((tid,))\n', 'expect-fail'),
    # ---- _unlink_tags
    (_T, '._unlink_tags', '                tids.discard(tid)\n                if not tids:', '                if not tids:', 'expect-fail'),
    (_T, '._unlink_tags', '                if not tids:\n                    # tid was last tensor -> delete entry\n                    del self.tag_map[tag]', '                if not tids:\n                    # tid was last tensor -> delete entry\n                    pass', 'expect-fail'),
    (_T, '._unlink_tags', '                if not tids:\n                    # tid was last tensor -> delete entry\n                    del self.tag_map[tag]', '                if tids:\n                    # tid was last tensor -> delete entry\n                    del self.tag_map[tag]', 'expect-fail'),
    (_T, '._unlink_tags', '                tids.discard(tid)\n                if not tids:', '                tids.add(tid)\n                if not tids:', 'expect-fail'),
    (_T, '._unlink_tags', '                tids.discard(tid)\n                if not tids:', '                tids.discard(tid)\n                if len(tids) <= 1:', 'expect-fail'),
    # ---- _link_inds
    (_T, '._link_inds', '                self.ind_map[ind].add(tid)\n', '                pass\n', 'expect-fail'),
    (_T, '._link_inds', '                self._outer_inds.discard(ind)\n                self._inner_inds.add(ind)\n', '                self._inner_inds.discard(ind)\n                self._outer_inds.add(ind)\n', 'expect-fail'),
    (_T, '._link_inds', '                self._outer_inds.discard(ind)\n                self._inner_inds.add(ind)\n', '                self._inner_inds.add(ind)\n', 'expect-fail'),
    (_T, '._link_inds', '                self.ind_map[ind] = oset((tid,))\n                self._outer_inds.add(ind)\n', '                self.ind_map[ind] = oset((tid,))\n                self._inner_inds.add(ind)\n', 'expect-fail'),
    (_T, '._link_inds', '                self.ind_map[ind] = oset((tid,))\n                self._outer_inds.add(ind)\n', '                self.ind_map[ind] = oset((tid,))\n', 'expect-fail'),
    (_T, '._link_inds', '            if ind in self.ind_map:\n                self.ind_map[ind].add(tid)', '            if ind in self._outer_inds:\n                self.ind_map[ind].add(tid)', 'expect-fail'),
    # ---- _unlink_inds
    (_T, '._unlink_inds', '                elif occurences == 1:', '                elif occurences <= 1:', 'benign'),
    (_T, '._unlink_inds', '                elif occurences == 1:', '                elif occurences >= 1:', 'expect-fail'),
    (_T, '._unlink_inds', '                if occurences == 0:', '                if occurences <= 1:', 'expect-fail'),
    (_T, '._unlink_inds', '                    del self.ind_map[ind]\n                    self._outer_inds.discard(ind)\n', '                    self._outer_inds.discard(ind)\n', 'expect-fail'),
    (_T, '._unlink_inds', '                    del self.ind_map[ind]\n                    self._outer_inds.discard(ind)\n', '                    del self.ind_map[ind]\n', 'expect-fail'),
    (_T, '._unlink_inds', '                    self._inner_inds.discard(ind)\n                    self._outer_inds.add(ind)\n            except KeyError:\n                # tid already removed from x entry - e.g. repeated index\n                pass\n\n    def _reset', '                    self._outer_inds.discard(ind)\n                    self._inner_inds.add(ind)\n            except KeyError:\n                # tid already removed from x entry - e.g. repeated index\n                pass\n\n    def _reset', 'expect-fail'),
    (_T, '._unlink_inds', '                tids.discard(tid)\n                occurences = len(tids)', '                occurences = len(tids)', 'expect-fail'),
    (_T, '._unlink_inds', '                tids.discard(tid)\n                occurences = len(tids)', '                tids.discard(tid)\n                occurences = len(tids) - 1', 'expect-fail'),
    # ---- _reset_inner_outer
    (_T, '._reset_inner_outer', '            if occurences == 1:\n                self._inner_inds.discard(ind)\n                self._outer_inds.add(ind)', '            if occurences == 1:\n                self._outer_inds.discard(ind)\n                self._inner_inds.add(ind)', 'expect-fail'),
    (_T, '._reset_inner_outer', '            if occurences == 1:\n                self._inner_inds.discard(ind)', '            if occurences <= 2:\n                self._inner_inds.discard(ind)', 'expect-fail'),
    (_T, '._reset_inner_outer', '            else:\n                self._inner_inds.add(ind)\n                self._outer_inds.discard(ind)', '            else:\n                self._inner_inds.add(ind)', 'expect-fail'),
    (_T, '._reset_inner_outer', '            if occurences == 1:\n                self._inner_inds.discard(ind)\n', '            if occurences == 1:\n', 'expect-fail'),
    # ---- _next_tid
    (_T, '._next_tid', '        while self._tid_counter in self.tensor_map:', '        while self._tid_counter not in self.tensor_map:', 'expect-fail'),
    (_T, '._next_tid', '        return self._tid_counter\n', '        return self._tid_counter + 1\n', 'expect-fail'),
    (_T, '._next_tid', '            self._tid_counter = self._tid_counter + 1', '            self._tid_counter = self._tid_counter - 1', 'expect-fail'),
    (_T, '._next_tid', '            self._tid_counter = self._tid_counter + 1', '            self._tid_counter = self._tid_counter + 2', 'expect-fail'),
    (_T, '._next_tid', '        while self._tid_counter in self.tensor_map:', '        while self._tid_counter + 1 in self.tensor_map:', 'expect-fail'),
    # ---- add_tensor
    (_T, '.add_tensor', '        if (tid is None) or (tid in self.tensor_map):', '        if (tid is None):', 'expect-fail'),
    (_T, '.add_tensor', '        self._link_tags(T.tags, tid)\n', '', 'expect-fail'),
    (_T, '.add_tensor', '        self._link_inds(T.inds, tid)\n', '        self._link_tags(T.inds, tid)\n', 'expect-fail'),
    (_T, '.add_tensor', '        self._link_tags(T.tags, tid)\n        self._link_inds(T.inds, tid)', '        self._link_tags(T.inds, tid)\n        self._link_inds(T.tags, tid)', 'expect-fail'),
    (_T, '.add_tensor', '        self.tensor_map[tid] = T\n', '        self.tensor_map[tid + 1] = T\n', 'expect-fail'),
    (_T, '.add_tensor', '        if (tid is None) or (tid in self.tensor_map):', '        if (tid is None) or (tid not in self.tensor_map):', 'expect-fail'),
    (_T, '.add_tensor', '        if (tid is None) or (tid in self.tensor_map):\n            tid = self._next_tid()', '        if (tid is None) or (tid in self.tensor_map):\n            tid = self._tid_counter', 'expect-fail'),
    # ---- pop_tensor
    (_T, '.pop_tensor', '        self._unlink_tags(t.tags, tid)\n', '', 'expect-fail'),
    (_T, '.pop_tensor', '        self._unlink_inds(t.inds, tid)\n', '', 'expect-fail'),
    (_T, '.pop_tensor', '        self._unlink_inds(t.inds, tid)\n', '        self._unlink_inds(t.tags, tid)\n', 'expect-fail'),
    (_T, '.pop_tensor', '        t = self.tensor_map.pop(tid)\n', '        t = self.tensor_map.pop(tid)\n        self.tensor_map[tid] = t\n', 'expect-fail'),
    (_T, '.pop_tensor', '        self._unlink_tags(t.tags, tid)\n        self._unlink_inds(t.inds, tid)', '        self._unlink_tags(t.tags, tid + 1)\n        self._unlink_inds(t.inds, tid)', 'expect-fail'),
    (_T, '.pop_tensor', '        self._unlink_tags(t.tags, tid)\n        self._unlink_inds(t.inds, tid)', '        self._link_tags(t.tags, tid)\n        self._unlink_inds(t.inds, tid)', 'expect-fail'),
    # ---- oset
    (_U, 'oset.add', '        self._d[k] = None\n\n    def discard', '        pass\n\n    def discard', 'expect-fail'),
    (_U, 'oset.discard', '        self._d.pop(k, None)', '        self._d[k] = None', 'expect-fail'),
    (_U, 'oset.discard', '        self._d.pop(k, None)', '        pass', 'expect-fail'),
    (_U, 'oset.remove', '        del self._d[k]\n\n    def clear', '        self._d.pop(k, None)\n\n    def clear', 'expect-fail'),
    (_U, 'oset.remove', '        del self._d[k]\n\n    def clear', '        pass\n\n    def clear', 'expect-fail'),
    (_U, 'oset.clear', '        self._d.clear()', '        pass', 'expect-fail'),
    (_U, 'oset.update', '                self._d.update(o._d)', '                pass', 'expect-fail'),
    (_U, 'oset.update', '                for k in o:\n                    self._d[k] = None', '                for k in o:\n                    self._d.pop(k, None)', 'expect-fail'),
    (_U, 'oset.update', '                self._d.update(o._d)', '                o._d.update(self._d)', 'expect-fail'),
    (_U, 'oset.update', '        for o in others:\n            try:', '        for o in others[1:]:\n            try:', 'expect-fail'),
    (_U, 'oset.union', '        u = self.copy()\n        u.update(*others)', '        u = self\n        u.update(*others)', 'expect-fail'),
    (_U, 'oset.union', '        u.update(*others)\n        return u', '        return u', 'expect-fail'),
    (_U, 'oset.union', '        u.update(*others)\n        return u', '        u.intersection_update(*others)\n        return u', 'expect-fail'),
    (_U, 'oset.union', '        u.update(*others)\n        return u', '        u.update(*others)\n        return self', 'expect-fail'),
    (_U, 'oset.intersection_update', '        self._d = {k: None for k in self._d if k in si}\n\n    def intersection(', '        self._d = {k: None for k in self._d if k not in si}\n\n    def intersection(', 'expect-fail'),
    (_U, 'oset.intersection_update', '            si = set.intersection(*(set(o._d) for o in others))\n        else:\n            si = others[0]._d\n        self._d', '            si = set.union(*(set(o._d) for o in others))\n        else:\n            si = others[0]._d\n        self._d', 'expect-fail'),
    (_U, 'oset.intersection_update', '        if len(others) > 1:\n            si = set.intersection', '        if len(others) > 2:\n            si = set.intersection', 'expect-fail'),
    (_U, 'oset.intersection_update', '        self._d = {k: None for k in self._d if k in si}\n\n    def intersection(', '        {k: None for k in self._d if k in si}\n\n    def intersection(', 'expect-fail'),
    (_U, 'oset.intersection', '            return self.copy()\n        elif n_others == 1:', '            return self\n        elif n_others == 1:', 'expect-fail'),
    (_U, 'oset.intersection', '        return oset._from_dict({k: None for k in self._d if k in si})', '        return oset._from_dict({k: None for k in self._d if k not in si})', 'expect-fail'),
    (_U, 'oset.intersection', '        else:\n            si = set.intersection(*(set(o._d) for o in others))\n        return oset._from_dict', '        else:\n            si = set.union(*(set(o._d) for o in others))\n        return oset._from_dict', 'expect-fail'),
    (_U, 'oset.intersection', '        return oset._from_dict({k: None for k in self._d if k in si})', '        return oset._from_dict({k: None for k in si if k in si})', 'expect-fail'),
    (_U, 'oset.difference_update', '        self._d = {k: None for k in self._d if k not in su}\n\n    def difference(', '        self._d = {k: None for k in self._d if k in su}\n\n    def difference(', 'expect-fail'),
    (_U, 'oset.difference_update', '            su = set.union(*(set(o._d) for o in others))\n        else:\n            su = others[0]._d\n        self._d', '            su = set.intersection(*(set(o._d) for o in others))\n        else:\n            su = others[0]._d\n        self._d', 'expect-fail'),
    (_U, 'oset.difference_update', '        self._d = {k: None for k in self._d if k not in su}\n\n    def difference(', '        self._d = {k: None for k in su if k not in self._d}\n\n    def difference(', 'expect-fail'),
    (_U, 'oset.difference_update', '            su = others[0]._d\n        self._d = {k: None for k in self._d if k not in su}', '            su = self._d\n        self._d = {k: None for k in self._d if k not in su}', 'expect-fail'),
    (_U, 'oset.difference', '        return oset._from_dict({k: None for k in self._d if k not in su})', '        return oset._from_dict({k: None for k in self._d if k in su})', 'expect-fail'),
    (_U, 'oset.difference', '        return oset._from_dict({k: None for k in self._d if k not in su})', '        self._d = {k: None for k in self._d if k not in su}\n        return self', 'expect-fail'),
    (_U, 'oset.difference', '        return oset._from_dict({k: None for k in self._d if k not in su})', '        return oset._from_dict({k: None for k in su if k not in self._d})', 'expect-fail'),
    (_U, 'oset.difference', '            su = set.union(*(set(o._d) for o in others))\n        else:\n            su = others[0]._d\n        return', '            su = set.intersection(*(set(o._d) for o in others))\n        else:\n            su = others[0]._d\n        return', 'expect-fail'),
    (_U, 'oset.copy', '        return oset.from_dict(self._d)', '        return oset._from_dict(self._d)', 'expect-fail'),
    (_U, 'oset.copy', '        return oset.from_dict(self._d)', '        return self', 'expect-fail'),
    (_U, 'oset.from_dict', '        return oset._from_dict(d.copy())', '        return oset._from_dict(d)', 'expect-fail'),
    (_U, 'oset._from_dict', '        obj._d = d\n', '        obj._d = d.copy()\n', 'expect-fail'),
    (_U, 'oset.__eq__', '            return self._d == other._d', '            return True', 'expect-fail'),
    (_U, 'oset.__eq__', '            return self._d == other._d\n        return False', '            return self._d == other._d\n        return True', 'expect-fail'),
    (_U, 'oset.__eq__', '            return self._d == other._d', '            return self._d == self._d', 'expect-fail'),
    (_U, 'oset.__or__', '        return self.union(other)', '        return self.intersection(other)', 'expect-fail'),
    (_U, 'oset.__or__', '        return self.union(other)', '        return other.union(other)', 'expect-fail'),
    (_U, 'oset.__ior__', '        self.update(other)\n        return self', '        self.update(other)\n        return other', 'expect-fail'),
    (_U, 'oset.__ior__', '        self.update(other)\n        return self', '        return self.union(other)', 'expect-fail'),
    (_U, 'oset.__and__', '        return self.intersection(other)', '        return self.union(other)', 'expect-fail'),
    (_U, 'oset.__and__', '        return self.intersection(other)', '        self.intersection_update(other)\n        return self', 'expect-fail'),
    (_U, 'oset.__iand__', '        self.intersection_update(other)\n        return self', '        self.difference_update(other)\n        return self', 'expect-fail'),
    (_U, 'oset.__iand__', '        self.intersection_update(other)\n        return self', '        return self.intersection(other)', 'expect-fail'),
    (_U, 'oset.__sub__', '        return self.difference(other)', '        return other.difference(self)', 'expect-fail'),
    (_U, 'oset.__sub__', '        return self.difference(other)', '        return self.intersection(other)', 'expect-fail'),
    (_U, 'oset.__isub__', '        self.difference_update(other)\n        return self', '        self.intersection_update(other)\n        return self', 'expect-fail'),
    (_U, 'oset.__isub__', '        self.difference_update(other)\n        return self', '        other.difference_update(self)\n        return self', 'expect-fail'),
    (_U, 'oset.__len__', '        return self._d.__len__()', '        return self._d.__len__() + 1', 'expect-fail'),
    (_U, 'oset.__contains__', '        return self._d.__contains__(x)', '        return not self._d.__contains__(x)', 'expect-fail'),
    # ---- _modify_tensor_tags / _modify_tensor_inds
    (_T, '._modify_tensor_tags', '        self._unlink_tags(old - new, tid)\n        self._link_tags(new - old, tid)', '        self._unlink_tags(new - old, tid)\n        self._link_tags(old - new, tid)', 'expect-fail'),
    (_T, '._modify_tensor_tags', '        self._unlink_tags(old - new, tid)\n', '', 'expect-fail'),
    (_T, '._modify_tensor_tags', '        self._link_tags(new - old, tid)\n', '', 'expect-fail'),
    (_T, '._modify_tensor_tags', '        self._unlink_tags(old - new, tid)\n', '        self._unlink_tags(old, tid)\n', 'expect-fail'),
    (_T, '._modify_tensor_tags', '        self._link_tags(new - old, tid)\n', '        self._link_tags(new | old, tid)\n', 'expect-fail'),
    (_T, '._modify_tensor_tags', '        self._link_tags(new - old, tid)\n', '        self._link_tags(new - old, tid + 1)\n', 'expect-fail'),
    (_T, '._modify_tensor_tags', '        self._link_tags(new - old, tid)\n', '        self._link_tags(new, tid)\n', 'benign'),
    (_T, '._modify_tensor_inds', '        self._unlink_inds(old - new, tid)\n        self._link_inds(new - old, tid)', '        self._unlink_inds(new - old, tid)\n        self._link_inds(old - new, tid)', 'expect-fail'),
    (_T, '._modify_tensor_inds', '        self._unlink_inds(old - new, tid)\n', '', 'expect-fail'),
    (_T, '._modify_tensor_inds', '        self._link_inds(new - old, tid)\n', '', 'expect-fail'),
    (_T, '._modify_tensor_inds', '        self._link_inds(new - old, tid)\n', '        self._link_inds(new, tid)\n', 'expect-fail'),
    (_T, '._modify_tensor_inds', '        self._unlink_inds(old - new, tid)\n', '        self._unlink_inds(old, tid)\n', 'expect-fail'),
    (_T, '._modify_tensor_inds', '        self._link_inds(new - old, tid)\n', '        self._link_tags(new - old, tid)\n', 'expect-fail'),
    # ---- _get_tids_from, oset_union, oset_intersection
    (_T, '._get_tids_from', '            "all": oset_intersection,\n            "any": oset_union,', '            "all": oset_union,\n            "any": oset_intersection,', 'expect-fail'),
    (_T, '._get_tids_from', '        if inverse:\n            return oset(self.tensor_map) - tids', '        if not inverse:\n            return oset(self.tensor_map) - tids', 'expect-fail'),
    (_T, '._get_tids_from', '            return oset(self.tensor_map) - tids', '            return tids - oset(self.tensor_map)', 'expect-fail'),
    (_T, '._get_tids_from', '        if not tid_sets:\n            tids = oset()', '        if tid_sets:\n            tids = oset()', 'expect-fail'),
    (_T, '._get_tids_from', '        if not tid_sets:\n            tids = oset()', '        if not tid_sets:\n            tids = oset(self.tensor_map)', 'expect-fail'),
    (_T, '._get_tids_from', '        inverse = which[0] == "!"', '        inverse = which[0] != "!"', 'expect-fail'),
    (_T, '._get_tids_from', '            return oset(self.tensor_map) - tids', '            return oset(self.tensor_map) & tids', 'expect-fail'),
    (_T, '::oset_union', '    return oset(concat(xs))', '    return oset(concat(xs[1:]))', 'expect-fail'),
    (_T, '::oset_union', '    return oset(concat(xs))', '    return oset_intersection(xs)', 'expect-fail'),
    (_T, '::oset_union', '    return oset(concat(xs))', '    return xs[0]', 'expect-fail'),
    (_T, '::oset_union', '    return oset(concat(xs))', '    return oset(concat(xs[:2]))', 'expect-fail'),
    (_T, '::oset_intersection', '    return x0.intersection(*xs)', '    return x0.union(*xs)', 'expect-fail'),
    (_T, '::oset_intersection', '    return x0.intersection(*xs)', '    return x0.intersection(*xs[1:])', 'expect-fail'),
    (_T, '::oset_intersection', '    return x0.intersection(*xs)', '    return x0', 'expect-fail'),
    (_T, '::oset_intersection', '    return x0.intersection(*xs)', '    x0.intersection_update(*xs)\n    return x0', 'expect-fail'),
]
