"""deliberate breakages of the real source that the C02 contracts must catch (see vf/selftest.py)"""
MODULES = ['contracts.c02_maps']
_T = 'quimb/tensor/tensor_core.py'
_U = 'quimb/utils.py'
MUTANTS = [
    # ---- _link_tags
    (_T, '._link_tags', '                self.tag_map[tag].add(tid)\n', '                pass\n', 'expect-fail'),
    (_T, '._link_tags', '                self.tag_map[tag] = oset((tid,))\n', '                self.tag_map[tag] = oset(())\n', 'expect-fail'),
    (_T, '._link_tags', '            if tag in self.tag_map:\n                self.tag_map[tag].add(tid)', '            if tag not in self.tag_map:\n                self.tag_map[tag].add(tid)', 'expect-fail'),
    (_T, '._link_tags', '                self.tag_map[tag].add(tid)\n', '                self.tag_map[tag].discard(tid)\n', 'expect-fail'),
    (_T, '._link_tags', '                self.tag_map[tag].add(tid)\n', '                self.tag_map[tag].add(tid + 1)\n', 'expect-fail'),
    (_T, '._link_tags', '                self.tag_map[tag].add(tid)\n', '                self.tag_map[tag].add(tid)\n                self.ind_map[tag] = oset((tid,))\n', 'expect-fail'),
    # ---- _unlink_tags
    (_T, '._unlink_tags', '                tids.discard(tid)\n                if not tids:', '                if not tids:', 'expect-fail'),
    (_T, '._unlink_tags', '                if not tids:\n                    # tid was last tensor -> delete entry\n                    del self.tag_map[tag]', '                if not tids:\n                    # tid was last tensor -> delete entry\n                    pass', 'expect-fail'),
    (_T, '._unlink_tags', '                if not tids:\n                    # tid was last tensor -> delete entry\n                    del self.tag_map[tag]', '                if tids:\n                    # tid was last tensor -> delete entry\n                    del self.tag_map[tag]', 'expect-fail'),
    (_T, '._unlink_tags', '                tids.discard(tid)\n                if not tids:', '                tids.add(tid)\n                if not tids:', 'expect-fail'),
    (_T, '._unlink_tags', '                tids.discard(tid)\n                if not tids:', '                tids.discard(tid)\n                if len(tids) <= 1:', 'expect-fail'),
]
