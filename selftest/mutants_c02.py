"""deliberate breakages of the real source that the C02 contracts must catch (see vf/selftest.py)"""
MODULES = ['contracts.c02_maps']
_T = 'quimb/tensor/tensor_core.py'
_U = 'quimb/utils.py'
MUTANTS = [
    # ---- _link_tags
    (_T, '._link_tags', '                self.tag_map[tag].add(tid)\n', '                pass\n', 'expect-fail'),
    (_T, '._link_tags', '                self.tag_map[tag] = oset((tid,))\n', '                self.tag_map[tag] = oset(())\n', 'expect-fail'),
    (_T, '._link_tags', '            if tag in self.tag_map:\n                self.tag_map[tag].add(tid)', '            if tag not in self.tag_map:\n                self.tag_map[tag].add(tid)', 'expect-fail'),
    (_T, '._link_tags', '                self.tag_map[tag].add(tid)\n', '                self.tag_map[tag].discard(tid)\n', 'expect-fail'),
    (_T, '._link_tags', '                self.tag_map[tag].add(tid)\n', '                self.tag_map[tag].add(tid + 1)\n', 'expect-fail'),
    (_T, '._link_tags', '                self.tag_map[tag].add(tid)\n', '                self.tag_map[tag].add(tid)\n                self.ind_map[tag] = oset((tid,))\n', 'expect-fail'),
    # ---- _unlink_tags
    (_T, '._unlink_tags', '                tids.discard(tid)\n                if not tids:', '                if not tids:', 'expect-fail'),
    (_T, '._unlink_tags', '                if not tids:\n                    # tid was last tensor -> delete entry\n                    del self.tag_map[tag]', '                if not tids:\n                    # tid was last tensor -> delete entry\n                    pass', 'expect-fail'),
    (_T, '._unlink_tags', '                if not tids:\n                    # tid was last tensor -> delete entry\n                    del self.tag_map[tag]', '                if tids:\n                    # tid was last tensor -> delete entry\n                    del self.tag_map[tag]', 'expect-fail'),
    (_T, '._unlink_tags', '                tids.discard(tid)\n                if not tids:', '                tids.add(tid)\n                if not tids:', 'expect-fail'),
    (_T, '._unlink_tags', '                tids.discard(tid)\n                if not tids:', '                tids.discard(tid)\n                if len(tids) <= 1:', 'expect-fail'),
    # ---- _link_inds
    (_T, '._link_inds', '                self.ind_map[ind].add(tid)\n', '                pass\n', 'expect-fail'),
    (_T, '._link_inds', '                self._outer_inds.discard(ind)\n                self._inner_inds.add(ind)\n', '                self._inner_inds.discard(ind)\n                self._outer_inds.add(ind)\n', 'expect-fail'),
    (_T, '._link_inds', '                self._outer_inds.discard(ind)\n                self._inner_inds.add(ind)\n', '                self._inner_inds.add(ind)\n', 'expect-fail'),
    (_T, '._link_inds', '                self.ind_map[ind] = oset((tid,))\n                self._outer_inds.add(ind)\n', '                self.ind_map[ind] = oset((tid,))\n                self._inner_inds.add(ind)\n', 'expect-fail'),
    (_T, '._link_inds', '                self.ind_map[ind] = oset((tid,))\n                self._outer_inds.add(ind)\n', '                self.ind_map[ind] = oset((tid,))\n', 'expect-fail'),
    (_T, '._link_inds', '            if ind in self.ind_map:\n                self.ind_map[ind].add(tid)', '            if ind in self._outer_inds:\n                self.ind_map[ind].add(tid)', 'expect-fail'),
    # ---- _unlink_inds
    (_T, '._unlink_inds', '                elif occurences == 1:', '                elif occurences <= 1:', 'benign'),
    (_T, '._unlink_inds', '                elif occurences == 1:', '                elif occurences >= 1:', 'expect-fail'),
    (_T, '._unlink_inds', '                if occurences == 0:', '                if occurences <= 1:', 'expect-fail'),
    (_T, '._unlink_inds', '                    del self.ind_map[ind]\n                    self._outer_inds.discard(ind)\n', '                    self._outer_inds.discard(ind)\n', 'expect-fail'),
    (_T, '._unlink_inds', '                    del self.ind_map[ind]\n                    self._outer_inds.discard(ind)\n', '                    del self.ind_map[ind]\n', 'expect-fail'),
    (_T, '._unlink_inds', '                    self._inner_inds.discard(ind)\n                    self._outer_inds.add(ind)\n            except KeyError:\n                # tid already removed from x entry - e.g. repeated index\n                pass\n\n    def _reset', '                    self._outer_inds.discard(ind)\n                    self._inner_inds.add(ind)\n            except KeyError:\n                # tid already removed from x entry - e.g. repeated index\n                pass\n\n    def _reset', 'expect-fail'),
    (_T, '._unlink_inds', '                tids.discard(tid)\n                occurences = len(tids)', '                occurences = len(tids)', 'expect-fail'),
    (_T, '._unlink_inds', '                tids.discard(tid)\n                occurences = len(tids)', '                tids.discard(tid)\n                occurences = len(tids) - 1', 'expect-fail'),
    # ---- _reset_inner_outer
    (_T, '._reset_inner_outer', '            if occurences == 1:\n                self._inner_inds.discard(ind)\n                self._outer_inds.add(ind)', '            if occurences == 1:\n                self._outer_inds.discard(ind)\n                self._inner_inds.add(ind)', 'expect-fail'),
    (_T, '._reset_inner_outer', '            if occurences == 1:\n                self._inner_inds.discard(ind)', '            if occurences <= 2:\n                self._inner_inds.discard(ind)', 'expect-fail'),
    (_T, '._reset_inner_outer', '            else:\n                self._inner_inds.add(ind)\n                self._outer_inds.discard(ind)', '            else:\n                self._inner_inds.add(ind)', 'expect-fail'),
    (_T, '._reset_inner_outer', '            if occurences == 1:\n                self._inner_inds.discard(ind)\n', '            if occurences == 1:\n', 'expect-fail'),
    # ---- _next_tid
    (_T, '._next_tid', '        while self._tid_counter in self.tensor_map:', '        while self._tid_counter not in self.tensor_map:', 'expect-fail'),
    (_T, '._next_tid', '        return self._tid_counter\n', '        return self._tid_counter + 1\n', 'expect-fail'),
    (_T, '._next_tid', '            self._tid_counter = self._tid_counter + 1', '            self._tid_counter = self._tid_counter - 1', 'expect-fail'),
    (_T, '._next_tid', '            self._tid_counter = self._tid_counter + 1', '            self._tid_counter = self._tid_counter + 2', 'expect-fail'),
    (_T, '._next_tid', '        while self._tid_counter in self.tensor_map:', '        while self._tid_counter + 1 in self.tensor_map:', 'expect-fail'),
    # ---- add_tensor
    (_T, '.add_tensor', '        if (tid is None) or (tid in self.tensor_map):', '        if (tid is None):', 'expect-fail'),
    (_T, '.add_tensor', '        self._link_tags(T.tags, tid)\n', '', 'expect-fail'),
    (_T, '.add_tensor', '        self._link_inds(T.inds, tid)\n', '        self._link_tags(T.inds, tid)\n', 'expect-fail'),
    (_T, '.add_tensor', '        self._link_tags(T.tags, tid)\n        self._link_inds(T.inds, tid)', '        self._link_tags(T.inds, tid)\n        self._link_inds(T.tags, tid)', 'expect-fail'),
    (_T, '.add_tensor', '        self.tensor_map[tid] = T\n', '        self.tensor_map[tid + 1] = T\n', 'expect-fail'),
    (_T, '.add_tensor', '        if (tid is None) or (tid in self.tensor_map):', '        if (tid is None) or (tid not in self.tensor_map):', 'expect-fail'),
    (_T, '.add_tensor', '        if (tid is None) or (tid in self.tensor_map):\n            tid = self._next_tid()', '        if (tid is None) or (tid in self.tensor_map):\n            tid = self._tid_counter', 'expect-fail'),
    # ---- pop_tensor
    (_T, '.pop_tensor', '        self._unlink_tags(t.tags, tid)\n', '', 'expect-fail'),
    (_T, '.pop_tensor', '        self._unlink_inds(t.inds, tid)\n', '', 'expect-fail'),
    (_T, '.pop_tensor', '        self._unlink_inds(t.inds, tid)\n', '        self._unlink_inds(t.tags, tid)\n', 'expect-fail'),
    (_T, '.pop_tensor', '        t = self.tensor_map.pop(tid)\n', '        t = self.tensor_map.pop(tid)\n        self.tensor_map[tid] = t\n', 'expect-fail'),
    (_T, '.pop_tensor', '        self._unlink_tags(t.tags, tid)\n        self._unlink_inds(t.inds, tid)', '        self._unlink_tags(t.tags, tid + 1)\n        self._unlink_inds(t.inds, tid)', 'expect-fail'),
    (_T, '.pop_tensor', '        self._unlink_tags(t.tags, tid)\n        self._unlink_inds(t.inds, tid)', '        self._link_tags(t.tags, tid)\n        self._unlink_inds(t.inds, tid)', 'expect-fail'),
]
