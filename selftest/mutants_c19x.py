"""deliberate breakages of the sector parsers (contracts/c19_ext.py); the first one is the seeded change C19-1"""
MODULES = ["contracts.c19_ext"]
F = "quimb/operator/hilbertspace.py"
MUTANTS = [
    (F, "::parse_u1u1_sector", "(len(species_regs[label]), sector[label]) for label in species_regs",
     "(len(species_regs[label]), k) for label, k in sector.items()", "expect-fail"),
    (F, "::parse_u1u1_sector", "and (na + nb == nsites)", "and (na + nb <= nsites)", "expect-fail"),
    (F, "::parse_u1u1_sector", "and (0 <= kb <= nb)", "and (0 <= kb <= na)", "expect-fail"),
    (F, "::parse_u1u1_sector", "(len(regs), k) for regs, k in zip(species_regs.values(), sector)",
     "(len(regs), k) for regs, k in zip(species_regs.values(), reversed(sector))", "expect-fail"),
    (F, "::parse_u1u1_sector", "return ((na, ka), (nb, kb)) if valid else None", "return ((nb, kb), (na, ka)) if valid else None",
     "expect-fail"),
    (F, "::parse_u1u1_sector", "if (species_regs is None) or (len(sector) != len(species_regs)):",
     "if (species_regs is None) or (len(sector) > len(species_regs)):", "benign"),
    (F, "::valid_u1_sector", "(0 <= sector <= nsites)", "(0 < sector <= nsites)", "expect-fail"),
    (F, "::valid_u1_sector", "(0 <= sector <= nsites)", "(0 <= sector < nsites)", "expect-fail"),
    (F, "::valid_u1_sector", "(0 <= sector <= nsites)", "(0 <= sector and sector <= nsites)", "benign"),
]
