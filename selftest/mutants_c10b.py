"""deliberate breakages for contracts/c10_sweeps.py (sweep discipline of DMRG, 1D compression sweeps, 2D interleaved
boundary bookkeeping).  Every expect-fail mutant changes behaviour on the property's domain and must turn a named
obligation from discharged to failed.
NOTE: MovingEnvironment.init_segment[begin=right] carries the open defect C10-d (UnboundLocalError for L == bsz) and fails
on the unchanged tree already; its mutants are therefore listed for begin='left' code or checked through the callers."""
MODULES = ["contracts.c10_sweeps"]
_DM = "quimb/tensor/tn1d/dmrg.py"
_T1 = "quimb/tensor/tn1d/core.py"
_T2 = "quimb/tensor/tn2d/core.py"

MUTANTS = [
    # ---- MovingEnvironment.init_segment
    (_DM, "MovingEnvironment.init_segment", "for i in reversed(range(start, stop - 1)):", "for i in reversed(range(start + 1, stop - 1)):", "expect-fail"),
    (_DM, "MovingEnvironment.init_segment", "for i in reversed(range(start, stop - 1)):", "for i in reversed(range(start, stop)):", "expect-fail"),
    (_DM, "MovingEnvironment.init_segment", 'self.envs[i] ^= ("_RIGHT", self.site_tag(i + self.bsz))', 'self.envs[i] ^= ("_RIGHT", self.site_tag(i + self.bsz - 1))', "expect-fail"),
    (_DM, "MovingEnvironment.init_segment", "self.envs[i] = self.envs[i + 1].copy(virtual=True)", "self.envs[i] = self.envs[i + 2].copy(virtual=True)", "expect-fail"),
    (_DM, "MovingEnvironment.init_segment", "self.envs[i] |= self.tnc.select(i)\n", "self.envs[i] |= self.tnc.select(i + 1)\n", "expect-fail"),
    (_DM, "MovingEnvironment.init_segment", 'self.envs[start] |= self.tnc["_LEFT"]\n            self.pos = start', 'self.envs[start] |= self.tnc["_LEFT"]\n            self.pos = start + 1', "expect-fail"),
    (_DM, "MovingEnvironment.init_segment", 'self.envs[start] |= self.tnc["_LEFT"]', 'self.envs[stop - 1] |= self.tnc["_LEFT"]', "expect-fail"),
    (_DM, "MovingEnvironment.init_segment", "self.site_tag(stop - 1 + b) for b in range(self.bsz)", "self.site_tag(stop + b) for b in range(self.bsz)", "expect-fail"),
    (_DM, "MovingEnvironment.init_segment", "self.envs = {stop - 1: self.tnc.select_any(tags_initital)}", "self.envs = {stop: self.tnc.select_any(tags_initital)}", "expect-fail"),
    (_DM, "MovingEnvironment.init_segment", "self.envs[i] |= self.tnc.select(i + self.bsz - 1)", "self.envs[i] |= self.tnc.select(i + self.bsz)", "expect-fail"),
    (_DM, "MovingEnvironment.init_segment", 'self.envs[i] ^= ("_LEFT", self.site_tag(i - 1))', 'self.envs[i] ^= ("_LEFT", self.site_tag(i))', "expect-fail"),
    (_DM, "MovingEnvironment.init_segment", "self.pos = stop - 1", "self.pos = stop", "expect-fail"),
    (_DM, "MovingEnvironment.init_segment", "for i in range(start + 1, stop):", "for i in range(start + 1, stop - 1):", "expect-fail"),
    # ---- MovingEnvironment.__init__
    (_DM, "MovingEnvironment.__init__", "start, stop = (0, self.L - self.bsz + 1)", "start, stop = (0, self.L - self.bsz)", "expect-fail"),
    (_DM, "MovingEnvironment.__init__", "start, stop = (0, self.L - self.bsz + 1)", "start, stop = (1, self.L - self.bsz + 1)", "expect-fail"),
    (_DM, "MovingEnvironment.__init__", "self.bsz = bsz\n", "self.bsz = bsz + 1\n", "expect-fail"),
    (_DM, "MovingEnvironment.__init__", "            self.segmented = False\n            start, stop", "            self.segmented = True\n            start, stop", "expect-fail"),
    # ---- move_right / move_left
    (_DM, "MovingEnvironment.move_right", "if i >= i0 + 1:", "if i >= i0 + 2:", "expect-fail"),
    (_DM, "MovingEnvironment.move_right", '["_LEFT", self.site_tag(i - 1)], which="any"', '["_LEFT", self.site_tag(i)], which="any"', "expect-fail"),
    (_DM, "MovingEnvironment.move_right", "new_left = self.envs[i - 1].select(", "new_left = self.envs[i].select(", "expect-fail"),
    (_DM, "MovingEnvironment.move_right", "self.envs[i] |= new_left ^ all", "self.envs[i - 1] |= new_left ^ all", "expect-fail"),
    (_DM, "MovingEnvironment.move_right", "(self.pos + 1 not in self.segment)", "(self.pos not in self.segment)", "expect-fail"),
    (_DM, "MovingEnvironment.move_right", "i = (self.pos + 1) % self.L", "i = (self.pos + 2) % self.L", "expect-fail"),
    (_DM, "MovingEnvironment.move_left", "if i <= iN - 2:", "if i <= iN - 3:", "expect-fail"),
    (_DM, "MovingEnvironment.move_left", '["_RIGHT", self.site_tag(i + self.bsz)], which="any"', '["_RIGHT", self.site_tag(i + 1)], which="any"', "expect-fail"),
    (_DM, "MovingEnvironment.move_left", "new_right = self.envs[i + 1].select(", "new_right = self.envs[i].select(", "expect-fail"),
    (_DM, "MovingEnvironment.move_left", "(self.pos - 1 not in self.segment)", "(self.pos not in self.segment)", "expect-fail"),
    (_DM, "MovingEnvironment.move_left", '["_RIGHT", self.site_tag(i + self.bsz)], which="any"', '["_LEFT", self.site_tag(i + self.bsz)], which="any"', "expect-fail"),
    # ---- move_to / __call__
    (_DM, "MovingEnvironment.move_to", 'direction = "left" if i < self.pos else "right"', 'direction = "left" if i > self.pos else "right"', "expect-fail"),
    (_DM, "MovingEnvironment.move_to", "while self.pos != i % self.L:", "while self.pos + 1 != i % self.L:", "expect-fail"),
    (_DM, "MovingEnvironment.move_to", '{"left": self.move_left, "right": self.move_right}[direction]()', '{"left": self.move_right, "right": self.move_left}[direction]()', "expect-fail"),
    (_DM, "MovingEnvironment.move_to", 'direction = "left" if i < self.pos else "right"', 'direction = "left" if i <= self.pos else "right"', "benign"),
    (_DM, "MovingEnvironment.__call__", "return self.envs[self.pos]", "return self.envs[self.pos + 1]", "expect-fail"),
    (_DM, "MovingEnvironment.__call__", "return self.envs[self.pos]", "return self.envs[0]", "expect-fail"),
    (_DM, "MovingEnvironment.__call__", "return self.envs[self.pos]", "return self.envs[self.pos - 1]", "expect-fail"),
    (_DM, "MovingEnvironment.__call__", "return self.envs[self.pos]", "return self.envs", "expect-fail"),
    (_DM, "MovingEnvironment.site_tag", "return self._site_tag_id.format(i % self.L)", "return self._site_tag_id.format((i + 1) % self.L)", "expect-fail"),
    (_DM, "MovingEnvironment.init_non_segment", '                self.tnc |= Tensor(tags="_RIGHT").astype(self.tn.dtype)\n                return', '                return', "expect-fail"),
    (_DM, "MovingEnvironment.init_non_segment", '                self.tnc |= Tensor(tags="_LEFT").astype(self.tn.dtype)\n                self.tnc |= Tensor(tags="_RIGHT")', '                self.tnc |= Tensor(tags="_LEFT").astype(self.tn.dtype)\n                self.tnc |= Tensor(tags="_LEFT")', "expect-fail"),
]
