"""deliberate breakages for contracts/c10_sweeps.py (sweep discipline of DMRG, 1D compression sweeps, 2D interleaved
boundary bookkeeping).  Every expect-fail mutant changes behaviour on the property's domain and must turn a named
obligation from discharged to failed.
NOTE: MovingEnvironment.init_segment[begin=right] carries the open defect C10-d (UnboundLocalError for L == bsz) and fails
on the unchanged tree already; its mutants are therefore listed for begin='left' code or checked through the callers."""
MODULES = ["contracts.c10_sweeps"]
_DM = "quimb/tensor/tn1d/dmrg.py"
_T1 = "quimb/tensor/tn1d/core.py"
_T2 = "quimb/tensor/tn2d/core.py"



def run_mutant(tmp, relpath, suffix, old, new):
    """the contracts of this family call proved contracts of OTHER source files (C08: tn1d/core.py): the scratch tree gets
    unmodified copies of those files next to the single mutated one"""
    import os
    import shutil

    from vf import selftest

    extra = [f for f in (_DM, _T1, _T2) if f != relpath]
    for f in extra:
        dst = os.path.join(tmp, f)
        os.makedirs(os.path.dirname(dst), exist_ok=True)
        shutil.copyfile(os.path.join("/repo", f), dst)
    try:
        return selftest.run_e1_mutant(tmp, relpath, suffix, old, new)
    finally:
        for f in extra:
            try:
                os.remove(os.path.join(tmp, f))
            except OSError:
                pass


MUTANTS = [
    # ---- MovingEnvironment.init_segment
    (_DM, "MovingEnvironment.init_segment", "for i in reversed(range(start, stop - 1)):", "for i in reversed(range(start + 1, stop - 1)):", "expect-fail"),
    (_DM, "MovingEnvironment.init_segment", "for i in reversed(range(start, stop - 1)):", "for i in reversed(range(start, stop)):", "expect-fail"),
    (_DM, "MovingEnvironment.init_segment", 'self.envs[i] ^= ("_RIGHT", self.site_tag(i + self.bsz))', 'self.envs[i] ^= ("_RIGHT", self.site_tag(i + self.bsz - 1))', "expect-fail"),
    (_DM, "MovingEnvironment.init_segment", "self.envs[i] = self.envs[i + 1].copy(virtual=True)", "self.envs[i] = self.envs[i + 2].copy(virtual=True)", "expect-fail"),
    (_DM, "MovingEnvironment.init_segment", "self.envs[i] |= self.tnc.select(i)\n", "self.envs[i] |= self.tnc.select(i + 1)\n", "expect-fail"),
    (_DM, "MovingEnvironment.init_segment", 'self.envs[start] |= self.tnc["_LEFT"]\n            self.pos = start', 'self.envs[start] |= self.tnc["_LEFT"]\n            self.pos = start + 1', "expect-fail"),
    (_DM, "MovingEnvironment.init_segment", 'self.envs[start] |= self.tnc["_LEFT"]', 'self.envs[stop - 1] |= self.tnc["_LEFT"]', "expect-fail"),
    (_DM, "MovingEnvironment.init_segment", "self.site_tag(stop - 1 + b) for b in range(self.bsz)", "self.site_tag(stop + b) for b in range(self.bsz)", "expect-fail"),
    (_DM, "MovingEnvironment.init_segment", "self.envs = {stop - 1: self.tnc.select_any(tags_initital)}", "self.envs = {stop: self.tnc.select_any(tags_initital)}", "expect-fail"),
    (_DM, "MovingEnvironment.init_segment", "self.envs[i] |= self.tnc.select(i + self.bsz - 1)", "self.envs[i] |= self.tnc.select(i + self.bsz)", "expect-fail"),
    (_DM, "MovingEnvironment.init_segment", 'self.envs[i] ^= ("_LEFT", self.site_tag(i - 1))', 'self.envs[i] ^= ("_LEFT", self.site_tag(i))', "expect-fail"),
    (_DM, "MovingEnvironment.init_segment", "self.pos = stop - 1", "self.pos = stop", "expect-fail"),
    (_DM, "MovingEnvironment.init_segment", "for i in range(start + 1, stop):", "for i in range(start + 1, stop - 1):", "expect-fail"),
    # ---- MovingEnvironment.__init__
    (_DM, "MovingEnvironment.__init__", "start, stop = (0, self.L - self.bsz + 1)", "start, stop = (0, self.L - self.bsz)", "expect-fail"),
    (_DM, "MovingEnvironment.__init__", "start, stop = (0, self.L - self.bsz + 1)", "start, stop = (1, self.L - self.bsz + 1)", "expect-fail"),
    (_DM, "MovingEnvironment.__init__", "self.bsz = bsz\n", "self.bsz = bsz + 1\n", "expect-fail"),
    (_DM, "MovingEnvironment.__init__", "            self.segmented = False\n            start, stop", "            self.segmented = True\n            start, stop", "expect-fail"),
    # ---- move_right / move_left
    (_DM, "MovingEnvironment.move_right", "if i >= i0 + 1:", "if i >= i0 + 2:", "expect-fail"),
    (_DM, "MovingEnvironment.move_right", '["_LEFT", self.site_tag(i - 1)], which="any"', '["_LEFT", self.site_tag(i)], which="any"', "expect-fail"),
    (_DM, "MovingEnvironment.move_right", "new_left = self.envs[i - 1].select(", "new_left = self.envs[i].select(", "expect-fail"),
    (_DM, "MovingEnvironment.move_right", "self.envs[i] |= new_left ^ all", "self.envs[i - 1] |= new_left ^ all", "expect-fail"),
    (_DM, "MovingEnvironment.move_right", "(self.pos + 1 not in self.segment)", "(self.pos not in self.segment)", "expect-fail"),
    (_DM, "MovingEnvironment.move_right", "i = (self.pos + 1) % self.L", "i = (self.pos + 2) % self.L", "expect-fail"),
    (_DM, "MovingEnvironment.move_left", "if i <= iN - 2:", "if i <= iN - 3:", "expect-fail"),
    (_DM, "MovingEnvironment.move_left", '["_RIGHT", self.site_tag(i + self.bsz)], which="any"', '["_RIGHT", self.site_tag(i + 1)], which="any"', "expect-fail"),
    (_DM, "MovingEnvironment.move_left", "new_right = self.envs[i + 1].select(", "new_right = self.envs[i].select(", "expect-fail"),
    (_DM, "MovingEnvironment.move_left", "(self.pos - 1 not in self.segment)", "(self.pos not in self.segment)", "expect-fail"),
    (_DM, "MovingEnvironment.move_left", '["_RIGHT", self.site_tag(i + self.bsz)], which="any"', '["_LEFT", self.site_tag(i + self.bsz)], which="any"', "expect-fail"),
    # ---- move_to / __call__
    (_DM, "MovingEnvironment.move_to", 'direction = "left" if i < self.pos else "right"', 'direction = "left" if i > self.pos else "right"', "expect-fail"),
    (_DM, "MovingEnvironment.move_to", "while self.pos != i % self.L:", "while self.pos + 1 != i % self.L:", "expect-fail"),
    (_DM, "MovingEnvironment.move_to", '{"left": self.move_left, "right": self.move_right}[direction]()', '{"left": self.move_right, "right": self.move_left}[direction]()', "expect-fail"),
    (_DM, "MovingEnvironment.move_to", 'direction = "left" if i < self.pos else "right"', 'direction = "left" if i <= self.pos else "right"', "benign"),
    (_DM, "MovingEnvironment.__call__", "return self.envs[self.pos]", "return self.envs[self.pos + 1]", "expect-fail"),
    (_DM, "MovingEnvironment.__call__", "return self.envs[self.pos]", "return self.envs[0]", "expect-fail"),
    (_DM, "MovingEnvironment.__call__", "return self.envs[self.pos]", "return self.envs[self.pos - 1]", "expect-fail"),
    (_DM, "MovingEnvironment.site_tag", "return self._site_tag_id.format(i % self.L)", "return self._site_tag_id.format((i + 1) % self.L)", "expect-fail"),
    (_DM, "MovingEnvironment.init_non_segment", '                self.tnc |= Tensor(tags="_RIGHT").astype(self.tn.dtype)\n                return', '                return', "expect-fail"),
    (_DM, "MovingEnvironment.init_non_segment", '                self.tnc |= Tensor(tags="_LEFT").astype(self.tn.dtype)\n                self.tnc |= Tensor(tags="_RIGHT")', '                self.tnc |= Tensor(tags="_LEFT").astype(self.tn.dtype)\n                self.tnc |= Tensor(tags="_LEFT")', "expect-fail"),
    # ---- bond / cutoff schedule
    (_DM, "DMRG._set_bond_dim_seq", "self._bond_dims = itertools.chain(bds, itertools.repeat(bds[-1]))", "self._bond_dims = itertools.chain(bds, itertools.repeat(bds[0]))", "expect-fail"),
    (_DM, "DMRG._set_bond_dim_seq", "self._bond_dim0 = bds[0]", "self._bond_dim0 = bds[-1]", "expect-fail"),
    (_DM, "DMRG._set_bond_dim_seq", "self._bond_dims = itertools.chain(bds, itertools.repeat(bds[-1]))", "self._bond_dims = itertools.chain(bds, itertools.repeat(bds[-1] + 1))", "expect-fail"),
    (_DM, "DMRG._set_bond_dim_seq", "self._bond_dims = itertools.chain(bds, itertools.repeat(bds[-1]))", "self._cutoffs = itertools.chain(bds, itertools.repeat(bds[-1]))", "expect-fail"),
    (_DM, "DMRG._set_bond_dim_seq", "bds = (bond_dims,) if isinstance(bond_dims, int) else tuple(bond_dims)", "bds = (bond_dims + 1,) if isinstance(bond_dims, int) else tuple(bond_dims)", "expect-fail"),
    (_DM, "DMRG._set_cutoff_seq", "self._cutoffs = itertools.chain(bds, itertools.repeat(bds[-1]))", "self._cutoffs = itertools.chain(bds, itertools.repeat(bds[0]))", "expect-fail"),
    (_DM, "DMRG._set_cutoff_seq", "self._cutoffs = itertools.chain(bds, itertools.repeat(bds[-1]))", "self._bond_dims = itertools.chain(bds, itertools.repeat(bds[-1]))", "expect-fail"),
    (_DM, "DMRG._set_cutoff_seq", "bds = (cutoffs,) if isinstance(cutoffs, float) else tuple(cutoffs)", "bds = (cutoffs / 2,) if isinstance(cutoffs, float) else tuple(cutoffs)", "expect-fail"),
    (_DM, "DMRG._set_cutoff_seq", "self._cutoffs = itertools.chain(bds, itertools.repeat(bds[-1]))", "self._cutoffs = itertools.chain(bds, itertools.repeat(0.0))", "expect-fail"),
    # ---- _canonize_after_1site_update
    (_DM, "DMRG._canonize_after_1site_update", 'if (direction == "right") and ((i < self.L - 1) or self.cyclic):\n            self._k.left_canonize_site(i, bra=self._b)', 'if (direction == "right") and ((i < self.L - 1) or self.cyclic):\n            self._k.right_canonize_site(i, bra=self._b)', "expect-fail"),
    (_DM, "DMRG._canonize_after_1site_update", 'if (direction == "right") and ((i < self.L - 1) or self.cyclic):', 'if (direction == "right") and ((i < self.L) or self.cyclic):', "expect-fail"),
    (_DM, "DMRG._canonize_after_1site_update", 'elif (direction == "left") and ((i > 0) or self.cyclic):', 'elif (direction == "left") and ((i >= 0) or self.cyclic):', "expect-fail"),
    (_DM, "DMRG._canonize_after_1site_update", "self._k.left_canonize_site(i, bra=self._b)", "self._k.left_canonize_site(i + 1, bra=self._b)", "expect-fail"),
    (_DM, "DMRG._canonize_after_1site_update", "self._k.right_canonize_site(i, bra=self._b)", "self._k.right_canonize_site(i)", "expect-fail"),
    (_DM, "DMRG._canonize_after_1site_update", 'if (direction == "right") and ((i < self.L - 1) or self.cyclic):', 'if (direction == "left") and ((i < self.L - 1) or self.cyclic):', "expect-fail"),
    # ---- one-site / two-site update (mpsghost)
    (_DM, "DMRG1._update_local_state_1site", "self._canonize_after_1site_update(direction, i)", "pass", "expect-fail"),
    (_DM, "DMRG1._update_local_state_1site", "self._canonize_after_1site_update(direction, i)", "self._canonize_after_1site_update(direction, i + 1)", "expect-fail"),
    (_DM, "DMRG1._update_local_state_1site", "self._canonize_after_1site_update(direction, i)", 'self._canonize_after_1site_update("right", i)', "expect-fail"),
    (_DM, "DMRG1._update_local_state_1site", "        Heff, Neff = self.form_local_ops(i, dims, lix, uix)\n\n        # get the old local groundstate", "        Heff, Neff = self.form_local_ops(i + 1, dims, lix, uix)\n\n        # get the old local groundstate", "expect-fail"),
    (_DM, "DMRG1._update_local_state_1site", "        self._k[i].modify(data=loc_gs)\n", "        self._k[i + 1].modify(data=loc_gs)\n", "expect-fail"),
    (_DM, "DMRG2._update_local_state_2site", "absorb=direction,", 'absorb="right",', "expect-fail"),
    (_DM, "DMRG2._update_local_state_2site", "            right_inds=uix_R,\n            **compress_opts,\n", "            right_inds=uix_R,\n", "expect-fail"),
    (_DM, "DMRG2._update_local_state_2site", "            right_inds=uix_R,\n            **compress_opts,\n", "            right_inds=uix_R,\n            **{**compress_opts, 'max_bond': None},\n", "expect-fail"),
    (_DM, "DMRG2._update_local_state_2site", "self._k[i].modify(data=L, inds=(*uix_L, u_bond_ind))", "self._k[i].modify(data=R, inds=(*uix_L, u_bond_ind))", "expect-fail"),
    (_DM, "DMRG2._update_local_state_2site", "self._k[i + 1].modify(data=R, inds=(u_bond_ind, *uix_R))", "self._k[i + 2].modify(data=R, inds=(u_bond_ind, *uix_R))", "expect-fail"),
    (_DM, "DMRG2._update_local_state_2site", "        Heff, Neff = self.form_local_ops(i, dims, lix, uix)\n\n        # get the old 2-site", "        Heff, Neff = self.form_local_ops(i + 1, dims, lix, uix)\n\n        # get the old 2-site", "expect-fail"),
    (_DM, "DMRG2._update_local_state_2site", ") = parse_2site_inds_dims(self._k, self._b, i)", ") = parse_2site_inds_dims(self._b, self._k, i)", "expect-fail"),
    # ---- _update_local_state
    (_DM, "DMRG._update_local_state", "self.ME_eff_ham.move_to(i)", "self.ME_eff_ham.move_to(i + 1)", "expect-fail"),
    (_DM, "DMRG._update_local_state", "self.ME_eff_ham.move_to(i)", "pass", "expect-fail"),
    (_DM, "DMRG._update_local_state", "}[self.bsz](i, **update_opts)", "}[self.bsz](i, direction=update_opts['direction'])", "expect-fail"),
    (_DM, "DMRG._update_local_state", "            1: self._update_local_state_1site,\n            2: self._update_local_state_2site,", "            2: self._update_local_state_1site,\n            1: self._update_local_state_2site,", "expect-fail"),
    (_DM, "DMRG._update_local_state", "}[self.bsz](i, **update_opts)", "}[self.bsz](i - 1, **update_opts)", "expect-fail"),
    # ---- sweep
    (_DM, "DMRG.sweep", '("R", False): ("right", "left", range(n - bsz + 1)),', '("R", False): ("right", "left", range(n - bsz)),', "expect-fail"),
    (_DM, "DMRG.sweep", '("R", False): ("right", "left", range(n - bsz + 1)),', '("R", False): ("right", "left", range(1, n - bsz + 1)),', "expect-fail"),
    (_DM, "DMRG.sweep", '("R", False): ("right", "left", range(n - bsz + 1)),', '("R", False): ("right", "right", range(n - bsz + 1)),', "expect-fail"),
    (_DM, "DMRG.sweep", '("R", False): ("right", "left", range(n - bsz + 1)),', '("R", False): ("left", "left", range(n - bsz + 1)),', "expect-fail"),
    (_DM, "DMRG.sweep", '("L", False): ("left", "right", range(n - bsz, -1, -1)),', '("L", False): ("left", "right", range(n - bsz, 0, -1)),', "expect-fail"),
    (_DM, "DMRG.sweep", '("L", False): ("left", "right", range(n - bsz, -1, -1)),', '("L", False): ("left", "right", range(n - 1, -1, -1)),', "expect-fail"),
    (_DM, "DMRG.sweep", '{"R": self._k.right_canonize, "L": self._k.left_canonize}[', '{"L": self._k.right_canonize, "R": self._k.left_canonize}[', "expect-fail"),
    (_DM, "DMRG.sweep", "        if canonize:\n            {", "        if not canonize:\n            {", "expect-fail"),
    (_DM, "DMRG.sweep", "self._update_local_state(i, direction=direction, **update_opts)", "self._update_local_state(i, direction=direction)", "expect-fail"),
    (_DM, "DMRG.sweep", "self._update_local_state(i, direction=direction, **update_opts)", "self._update_local_state(n - bsz - i, direction=direction, **update_opts)", "expect-fail"),
    (_DM, "DMRG.sweep", "return tot_ens[-1]", "return tot_ens[0]", "expect-fail"),
    (_DM, "DMRG.sweep", "return tot_ens[-1]", "return local_ens[-1]", "expect-fail"),
    (_DM, "DMRG.sweep", "](bra=self._b)", "]()", "expect-fail"),
    (_DM, "DMRG.sweep", '"bsz": bsz,', '"bsz": 1,', "expect-fail"),
    (_DM, "DMRG.sweep_right", 'direction="R",', 'direction="L",', "expect-fail"),
    (_DM, "DMRG.sweep_right", "            canonize=canonize,\n            verbosity=verbosity,\n            **update_opts,\n        )\n\n    def sweep_left", "            canonize=True,\n            verbosity=verbosity,\n            **update_opts,\n        )\n\n    def sweep_left", "expect-fail"),
    (_DM, "DMRG.sweep_right", "            verbosity=verbosity,\n            **update_opts,\n        )\n\n    def sweep_left", "            verbosity=verbosity,\n        )\n\n    def sweep_left", "expect-fail"),
    (_DM, "DMRG.sweep_right", "    def sweep_right(self, canonize=True, verbosity=0, **update_opts):\n        return self.sweep(", "    def sweep_right(self, canonize=True, verbosity=0, **update_opts):\n        self.sweep(direction='R', canonize=canonize, verbosity=verbosity, **update_opts)\n        return self.sweep(", "expect-fail"),
    (_DM, "DMRG.sweep_left", 'direction="L",', 'direction="R",', "expect-fail"),
    (_DM, "DMRG.sweep_left", "            canonize=canonize,\n            verbosity=verbosity,\n            **update_opts,\n        )\n\n    # ---", "            canonize=False,\n            verbosity=verbosity,\n            **update_opts,\n        )\n\n    # ---", "expect-fail"),
    (_DM, "DMRG.sweep_left", "            verbosity=verbosity,\n            **update_opts,\n        )\n\n    # ---", "            verbosity=verbosity,\n        )\n\n    # ---", "expect-fail"),
    (_DM, "DMRG.sweep_left", "    def sweep_left(self, canonize=True, verbosity=0, **update_opts):\n        return self.sweep(", "    def sweep_left(self, canonize=True, verbosity=0, **update_opts):\n        return None\n        return self.sweep(", "expect-fail"),
]
