"""deliberate breakages for contracts/c10_sweeps.py (sweep discipline of DMRG, 1D compression sweeps, 2D interleaved
boundary bookkeeping).  Every expect-fail mutant changes behaviour on the property's domain and must turn a named
obligation from discharged to failed.
NOTE: obligations that fail on the unchanged tree (open findings, see BASELINE_FAILING) are not counted as "caught"."""
MODULES = ["contracts.c10_sweeps"]
_DM = "quimb/tensor/tn1d/dmrg.py"
_T1 = "quimb/tensor/tn1d/core.py"
_T2 = "quimb/tensor/tn2d/core.py"



# obligations that fail on the UNCHANGED tree (open defects, reported): not counted as "caught"
# (the three defects that were listed here -- DMRG cutoffs=0, solve(max_sweeps=0), contract_boundary(max_bond=None,
# compress_late=False) -- are repaired in /repo (F26-F28); their reverts are expect-fail mutants below)
BASELINE_FAILING = {}


def run_mutant(tmp, relpath, suffix, old, new):
    """(1) the contracts of this family call proved contracts of OTHER source files (C08: tn1d/core.py): the scratch tree
    gets unmodified copies of those files next to the single mutated one; (2) obligations are decided one by one with a
    short timeout and the run stops at the first NEW failed obligation (a broken quantified invariant leaves many
    obligations undecided, each of which would otherwise go through the whole solver portfolio); obligations that fail on
    the unchanged tree already (open defects) are ignored"""
    import os
    import shutil

    from vf import pyvc

    src = open(os.path.join("/repo", relpath)).read()
    if src.count(old) < 1:
        return "stale", "old text not found in the current source"
    files = [f for f in (_DM, _T1, _T2)]
    for f in files:
        dst = os.path.join(tmp, f)
        os.makedirs(os.path.dirname(dst), exist_ok=True)
        shutil.copyfile(os.path.join("/repo", f), dst)
    open(os.path.join(tmp, relpath), "w").write(src.replace(old, new, 1))
    pyvc.REPO = tmp
    pyvc._SRC_CACHE.clear()
    try:
        cons = [v for k, v in pyvc.REGISTRY.items() if k.endswith(suffix)]
        if not cons:
            return "stale", f"no contract registered for {suffix}"
        rep = pyvc.verify(cons[0], discharge_now=False)
        if rep.status != "ok":
            return rep.status, rep.detail[:120]
        ignore = BASELINE_FAILING.get(suffix, ())
        undecided = []
        for ob in rep.obligations:
            pyvc.discharge(ob, timeout_ms=3000, portfolio=False)
            if ob.status == "failed" and not any(x in ob.label for x in ignore):
                return "failed", ob.label.split("#")[0]
            if ob.status == "unknown":
                undecided.append(ob)
        for ob in undecided[:40]:  # second chance with the full portfolio
            pyvc.discharge(ob)
            if ob.status == "failed":
                return "failed", ob.label.split("#")[0]
        left = [ob for ob in undecided if ob.status == "unknown"]
        if left:
            return "unknown", f"{len(left)} undecided"
        return "discharged", ""
    finally:
        pyvc.REPO = "/repo"
        pyvc._SRC_CACHE.clear()
        for f in files:
            try:
                os.remove(os.path.join(tmp, f))
            except OSError:
                pass


MUTANTS = [
    # ---- MovingEnvironment.init_segment
    (_DM, "MovingEnvironment.init_segment", "for i in reversed(range(start, stop - 1)):", "for i in reversed(range(start + 1, stop - 1)):", "expect-fail"),
    (_DM, "MovingEnvironment.init_segment", "for i in reversed(range(start, stop - 1)):", "for i in reversed(range(start, stop)):", "expect-fail"),
    (_DM, "MovingEnvironment.init_segment", 'self.envs[i] ^= ("_RIGHT", self.site_tag(i + self.bsz))', 'self.envs[i] ^= ("_RIGHT", self.site_tag(i + self.bsz - 1))', "expect-fail"),
    (_DM, "MovingEnvironment.init_segment", "self.envs[i] = self.envs[i + 1].copy(virtual=True)", "self.envs[i] = self.envs[i + 2].copy(virtual=True)", "expect-fail"),
    (_DM, "MovingEnvironment.init_segment", "self.envs[i] |= self.tnc.select(i)\n", "self.envs[i] |= self.tnc.select(i + 1)\n", "expect-fail"),
    (_DM, "MovingEnvironment.init_segment", 'self.envs[start] |= self.tnc["_LEFT"]\n            self.pos = start', 'self.envs[start] |= self.tnc["_LEFT"]\n            self.pos = start + 1', "expect-fail"),
    (_DM, "MovingEnvironment.init_segment", 'self.envs[start] |= self.tnc["_LEFT"]', 'self.envs[stop - 1] |= self.tnc["_LEFT"]', "expect-fail"),
    (_DM, "MovingEnvironment.init_segment", "self.site_tag(stop - 1 + b) for b in range(self.bsz)", "self.site_tag(stop + b) for b in range(self.bsz)", "expect-fail"),
    (_DM, "MovingEnvironment.init_segment", "self.envs = {stop - 1: self.tnc.select_any(tags_initital)}", "self.envs = {stop: self.tnc.select_any(tags_initital)}", "expect-fail"),
    (_DM, "MovingEnvironment.init_segment", "self.envs[i] |= self.tnc.select(i + self.bsz - 1)", "self.envs[i] |= self.tnc.select(i + self.bsz)", "expect-fail"),
    (_DM, "MovingEnvironment.init_segment", 'self.envs[i] ^= ("_LEFT", self.site_tag(i - 1))', 'self.envs[i] ^= ("_LEFT", self.site_tag(i))', "expect-fail"),
    (_DM, "MovingEnvironment.init_segment", "self.pos = stop - 1", "self.pos = stop", "expect-fail"),
    (_DM, "MovingEnvironment.init_segment", "for i in range(start + 1, stop):", "for i in range(start + 1, stop - 1):", "expect-fail"),
    # (re-introduces finding C10-d: loop variable read after an empty loop when L == bsz)
    (_DM, "MovingEnvironment.init_segment", 'self.envs[stop - 1] |= self.tnc["_RIGHT"]', 'self.envs[i] |= self.tnc["_RIGHT"]', "expect-fail"),
    # ---- MovingEnvironment.__init__
    (_DM, "MovingEnvironment.__init__", "start, stop = (0, self.L - self.bsz + 1)", "start, stop = (0, self.L - self.bsz)", "expect-fail"),
    (_DM, "MovingEnvironment.__init__", "start, stop = (0, self.L - self.bsz + 1)", "start, stop = (1, self.L - self.bsz + 1)", "expect-fail"),
    (_DM, "MovingEnvironment.__init__", "self.bsz = bsz\n", "self.bsz = bsz + 1\n", "expect-fail"),
    (_DM, "MovingEnvironment.__init__", "            self.segmented = False\n            start, stop", "            self.segmented = True\n            start, stop", "expect-fail"),
    # ---- move_right / move_left
    (_DM, "MovingEnvironment.move_right", "if i >= i0 + 1:", "if i >= i0 + 2:", "expect-fail"),
    (_DM, "MovingEnvironment.move_right", '["_LEFT", self.site_tag(i - 1)], which="any"', '["_LEFT", self.site_tag(i)], which="any"', "expect-fail"),
    (_DM, "MovingEnvironment.move_right", "new_left = self.envs[i - 1].select(", "new_left = self.envs[i].select(", "expect-fail"),
    (_DM, "MovingEnvironment.move_right", "self.envs[i] |= new_left ^ all", "self.envs[i - 1] |= new_left ^ all", "expect-fail"),
    (_DM, "MovingEnvironment.move_right", "(self.pos + 1 not in self.segment)", "(self.pos not in self.segment)", "expect-fail"),
    (_DM, "MovingEnvironment.move_right", "i = (self.pos + 1) % self.L", "i = (self.pos + 2) % self.L", "expect-fail"),
    (_DM, "MovingEnvironment.move_left", "if i <= iN - 2:", "if i <= iN - 3:", "expect-fail"),
    (_DM, "MovingEnvironment.move_left", '["_RIGHT", self.site_tag(i + self.bsz)], which="any"', '["_RIGHT", self.site_tag(i + 1)], which="any"', "expect-fail"),
    (_DM, "MovingEnvironment.move_left", "new_right = self.envs[i + 1].select(", "new_right = self.envs[i].select(", "expect-fail"),
    (_DM, "MovingEnvironment.move_left", "(self.pos - 1 not in self.segment)", "(self.pos not in self.segment)", "expect-fail"),
    (_DM, "MovingEnvironment.move_left", '["_RIGHT", self.site_tag(i + self.bsz)], which="any"', '["_LEFT", self.site_tag(i + self.bsz)], which="any"', "expect-fail"),
    # ---- move_to / __call__
    (_DM, "MovingEnvironment.move_to", 'direction = "left" if i < self.pos else "right"', 'direction = "left" if i > self.pos else "right"', "expect-fail"),
    (_DM, "MovingEnvironment.move_to", "while self.pos != i % self.L:", "while self.pos + 1 != i % self.L:", "expect-fail"),
    (_DM, "MovingEnvironment.move_to", '{"left": self.move_left, "right": self.move_right}[direction]()', '{"left": self.move_right, "right": self.move_left}[direction]()', "expect-fail"),
    (_DM, "MovingEnvironment.move_to", 'direction = "left" if i < self.pos else "right"', 'direction = "left" if i <= self.pos else "right"', "benign"),
    (_DM, "MovingEnvironment.__call__", "return self.envs[self.pos]", "return self.envs[self.pos + 1]", "expect-fail"),
    (_DM, "MovingEnvironment.__call__", "return self.envs[self.pos]", "return self.envs[0]", "expect-fail"),
    (_DM, "MovingEnvironment.__call__", "return self.envs[self.pos]", "return self.envs[self.pos - 1]", "expect-fail"),
    (_DM, "MovingEnvironment.site_tag", "return self._site_tag_id.format(i % self.L)", "return self._site_tag_id.format((i + 1) % self.L)", "expect-fail"),
    (_DM, "MovingEnvironment.init_non_segment", '                self.tnc |= Tensor(tags="_RIGHT").astype(self.tn.dtype)\n                return', '                return', "expect-fail"),
    (_DM, "MovingEnvironment.init_non_segment", '                self.tnc |= Tensor(tags="_LEFT").astype(self.tn.dtype)\n                self.tnc |= Tensor(tags="_RIGHT")', '                self.tnc |= Tensor(tags="_LEFT").astype(self.tn.dtype)\n                self.tnc |= Tensor(tags="_LEFT")', "expect-fail"),
    # ---- bond / cutoff schedule
    (_DM, "DMRG._set_bond_dim_seq", "self._bond_dims = itertools.chain(bds, itertools.repeat(bds[-1]))", "self._bond_dims = itertools.chain(bds, itertools.repeat(bds[0]))", "expect-fail"),
    (_DM, "DMRG._set_bond_dim_seq", "self._bond_dim0 = bds[0]", "self._bond_dim0 = bds[-1]", "expect-fail"),
    (_DM, "DMRG._set_bond_dim_seq", "self._bond_dims = itertools.chain(bds, itertools.repeat(bds[-1]))", "self._bond_dims = itertools.chain(bds, itertools.repeat(bds[-1] + 1))", "expect-fail"),
    (_DM, "DMRG._set_bond_dim_seq", "self._bond_dims = itertools.chain(bds, itertools.repeat(bds[-1]))", "self._cutoffs = itertools.chain(bds, itertools.repeat(bds[-1]))", "expect-fail"),
    (_DM, "DMRG._set_bond_dim_seq", "(bond_dims,) if isinstance(bond_dims, Integral) else tuple(bond_dims)", "(bond_dims + 1,) if isinstance(bond_dims, Integral) else tuple(bond_dims)", "expect-fail"),
    (_DM, "DMRG._set_cutoff_seq", "self._cutoffs = itertools.chain(bds, itertools.repeat(bds[-1]))", "self._cutoffs = itertools.chain(bds, itertools.repeat(bds[0]))", "expect-fail"),
    (_DM, "DMRG._set_cutoff_seq", "self._cutoffs = itertools.chain(bds, itertools.repeat(bds[-1]))", "self._bond_dims = itertools.chain(bds, itertools.repeat(bds[-1]))", "expect-fail"),
    (_DM, "DMRG._set_cutoff_seq", "bds = (cutoffs,) if isinstance(cutoffs, Real) else tuple(cutoffs)", "bds = (cutoffs / 2,) if isinstance(cutoffs, Real) else tuple(cutoffs)", "expect-fail"),
    # the independently seeded change C10-2: the schedule keeps repeating its maximum instead of its last entry
    (_DM, "DMRG._set_bond_dim_seq", "itertools.repeat(bds[-1]))\n\n    def _set_cutoff_seq", "itertools.repeat(max(bds)))\n\n    def _set_cutoff_seq", "expect-fail"),
    # the repaired defects put back (F26, F27, F28)
    (_T2, "._contract_boundary_core", "                            if (max_bond is None) or (\n                                bonds_size(t1, tn) > max_bond\n                            ):", "                            if bonds_size(t1, tn) > max_bond:", "expect-fail"),
    (_DM, "DMRG._set_cutoff_seq", "bds = (cutoffs,) if isinstance(cutoffs, Real) else tuple(cutoffs)", "bds = (cutoffs,) if isinstance(cutoffs, float) else tuple(cutoffs)", "expect-fail"),
    (_DM, "DMRG.solve", "        previous_direction = \"0\"\n        converged = False\n", "        previous_direction = \"0\"\n", "expect-fail"),
    (_DM, "DMRG._set_cutoff_seq", "self._cutoffs = itertools.chain(bds, itertools.repeat(bds[-1]))", "self._cutoffs = itertools.chain(bds, itertools.repeat(0.0))", "expect-fail"),
    # ---- _canonize_after_1site_update
    (_DM, "DMRG._canonize_after_1site_update", 'if (direction == "right") and ((i < self.L - 1) or self.cyclic):\n            self._k.left_canonize_site(i, bra=self._b)', 'if (direction == "right") and ((i < self.L - 1) or self.cyclic):\n            self._k.right_canonize_site(i, bra=self._b)', "expect-fail"),
    (_DM, "DMRG._canonize_after_1site_update", 'if (direction == "right") and ((i < self.L - 1) or self.cyclic):', 'if (direction == "right") and ((i < self.L) or self.cyclic):', "expect-fail"),
    (_DM, "DMRG._canonize_after_1site_update", 'elif (direction == "left") and ((i > 0) or self.cyclic):', 'elif (direction == "left") and ((i >= 0) or self.cyclic):', "expect-fail"),
    (_DM, "DMRG._canonize_after_1site_update", "self._k.left_canonize_site(i, bra=self._b)", "self._k.left_canonize_site(i + 1, bra=self._b)", "expect-fail"),
    (_DM, "DMRG._canonize_after_1site_update", "self._k.right_canonize_site(i, bra=self._b)", "self._k.right_canonize_site(i)", "expect-fail"),
    (_DM, "DMRG._canonize_after_1site_update", 'if (direction == "right") and ((i < self.L - 1) or self.cyclic):', 'if (direction == "left") and ((i < self.L - 1) or self.cyclic):', "expect-fail"),
    # ---- one-site / two-site update (mpsghost)
    (_DM, "DMRG1._update_local_state_1site", "self._canonize_after_1site_update(direction, i)", "pass", "expect-fail"),
    (_DM, "DMRG1._update_local_state_1site", "self._canonize_after_1site_update(direction, i)", "self._canonize_after_1site_update(direction, i + 1)", "expect-fail"),
    (_DM, "DMRG1._update_local_state_1site", "self._canonize_after_1site_update(direction, i)", 'self._canonize_after_1site_update("right", i)', "expect-fail"),
    (_DM, "DMRG1._update_local_state_1site", "        Heff, Neff = self.form_local_ops(i, dims, lix, uix)\n\n        # get the old local groundstate", "        Heff, Neff = self.form_local_ops(i + 1, dims, lix, uix)\n\n        # get the old local groundstate", "expect-fail"),
    (_DM, "DMRG1._update_local_state_1site", "        self._k[i].modify(data=loc_gs)\n", "        self._k[i + 1].modify(data=loc_gs)\n", "expect-fail"),
    (_DM, "DMRG2._update_local_state_2site", "absorb=direction,", 'absorb="right",', "expect-fail"),
    (_DM, "DMRG2._update_local_state_2site", "            right_inds=uix_R,\n            **compress_opts,\n", "            right_inds=uix_R,\n", "expect-fail"),
    (_DM, "DMRG2._update_local_state_2site", "            right_inds=uix_R,\n            **compress_opts,\n", "            right_inds=uix_R,\n            **{**compress_opts, 'max_bond': None},\n", "expect-fail"),
    (_DM, "DMRG2._update_local_state_2site", "self._k[i].modify(data=L, inds=(*uix_L, u_bond_ind))", "self._k[i].modify(data=R, inds=(*uix_L, u_bond_ind))", "expect-fail"),
    (_DM, "DMRG2._update_local_state_2site", "self._k[i + 1].modify(data=R, inds=(u_bond_ind, *uix_R))", "self._k[i + 2].modify(data=R, inds=(u_bond_ind, *uix_R))", "expect-fail"),
    (_DM, "DMRG2._update_local_state_2site", "        Heff, Neff = self.form_local_ops(i, dims, lix, uix)\n\n        # get the old 2-site", "        Heff, Neff = self.form_local_ops(i + 1, dims, lix, uix)\n\n        # get the old 2-site", "expect-fail"),
    (_DM, "DMRG2._update_local_state_2site", ") = parse_2site_inds_dims(self._k, self._b, i)", ") = parse_2site_inds_dims(self._b, self._k, i)", "expect-fail"),
    # ---- _update_local_state
    (_DM, "DMRG._update_local_state", "self.ME_eff_ham.move_to(i)", "self.ME_eff_ham.move_to(i + 1)", "expect-fail"),
    (_DM, "DMRG._update_local_state", "self.ME_eff_ham.move_to(i)", "pass", "expect-fail"),
    (_DM, "DMRG._update_local_state", "}[self.bsz](i, **update_opts)", "}[self.bsz](i, direction=update_opts['direction'])", "expect-fail"),
    (_DM, "DMRG._update_local_state", "            1: self._update_local_state_1site,\n            2: self._update_local_state_2site,", "            2: self._update_local_state_1site,\n            1: self._update_local_state_2site,", "expect-fail"),
    (_DM, "DMRG._update_local_state", "}[self.bsz](i, **update_opts)", "}[self.bsz](i - 1, **update_opts)", "expect-fail"),
    # ---- sweep
    (_DM, "DMRG.sweep", '("R", False): ("right", "left", range(n - bsz + 1)),', '("R", False): ("right", "left", range(n - bsz)),', "expect-fail"),
    (_DM, "DMRG.sweep", '("R", False): ("right", "left", range(n - bsz + 1)),', '("R", False): ("right", "left", range(1, n - bsz + 1)),', "expect-fail"),
    (_DM, "DMRG.sweep", '("R", False): ("right", "left", range(n - bsz + 1)),', '("R", False): ("right", "right", range(n - bsz + 1)),', "expect-fail"),
    (_DM, "DMRG.sweep", '("R", False): ("right", "left", range(n - bsz + 1)),', '("R", False): ("left", "left", range(n - bsz + 1)),', "expect-fail"),
    (_DM, "DMRG.sweep", '("L", False): ("left", "right", range(n - bsz, -1, -1)),', '("L", False): ("left", "right", range(n - bsz, 0, -1)),', "expect-fail"),
    (_DM, "DMRG.sweep", '("L", False): ("left", "right", range(n - bsz, -1, -1)),', '("L", False): ("left", "right", range(n - 1, -1, -1)),', "expect-fail"),
    (_DM, "DMRG.sweep", '{"R": self._k.right_canonize, "L": self._k.left_canonize}[', '{"L": self._k.right_canonize, "R": self._k.left_canonize}[', "expect-fail"),
    (_DM, "DMRG.sweep", "        if canonize:\n            {", "        if not canonize:\n            {", "expect-fail"),
    (_DM, "DMRG.sweep", "self._update_local_state(i, direction=direction, **update_opts)", "self._update_local_state(i, direction=direction)", "expect-fail"),
    (_DM, "DMRG.sweep", "self._update_local_state(i, direction=direction, **update_opts)", "self._update_local_state(n - bsz - i, direction=direction, **update_opts)", "expect-fail"),
    (_DM, "DMRG.sweep", "self._update_local_state(i, direction=direction, **update_opts)", "self._update_local_state(i, direction=direction, **{**update_opts, 'cutoff': 0.0})", "expect-fail"),
    (_DM, "DMRG._update_local_state", "}[self.bsz](i, **update_opts)", "}[self.bsz](i, **{**update_opts, 'cutoff': 0.0})", "expect-fail"),
    (_DM, "DMRG.sweep", "return tot_ens[-1]", "return tot_ens[0]", "expect-fail"),
    (_DM, "DMRG.sweep", "return tot_ens[-1]", "return local_ens[-1]", "expect-fail"),
    (_DM, "DMRG.sweep", "](bra=self._b)", "]()", "expect-fail"),
    (_DM, "DMRG.sweep", '"bsz": bsz,', '"bsz": 1,', "expect-fail"),
    (_DM, "DMRG.sweep_right", 'direction="R",', 'direction="L",', "expect-fail"),
    (_DM, "DMRG.sweep_right", "            canonize=canonize,\n            verbosity=verbosity,\n            **update_opts,\n        )\n\n    def sweep_left", "            canonize=True,\n            verbosity=verbosity,\n            **update_opts,\n        )\n\n    def sweep_left", "expect-fail"),
    (_DM, "DMRG.sweep_right", "            verbosity=verbosity,\n            **update_opts,\n        )\n\n    def sweep_left", "            verbosity=verbosity,\n        )\n\n    def sweep_left", "expect-fail"),
    (_DM, "DMRG.sweep_right", "    def sweep_right(self, canonize=True, verbosity=0, **update_opts):\n        return self.sweep(", "    def sweep_right(self, canonize=True, verbosity=0, **update_opts):\n        self.sweep(direction='R', canonize=canonize, verbosity=verbosity, **update_opts)\n        return self.sweep(", "expect-fail"),
    (_DM, "DMRG.sweep_left", 'direction="L",', 'direction="R",', "expect-fail"),
    (_DM, "DMRG.sweep_left", "            canonize=canonize,\n            verbosity=verbosity,\n            **update_opts,\n        )\n\n    # ---", "            canonize=False,\n            verbosity=verbosity,\n            **update_opts,\n        )\n\n    # ---", "expect-fail"),
    (_DM, "DMRG.sweep_left", "            verbosity=verbosity,\n            **update_opts,\n        )\n\n    # ---", "            verbosity=verbosity,\n        )\n\n    # ---", "expect-fail"),
    (_DM, "DMRG.sweep_left", "    def sweep_left(self, canonize=True, verbosity=0, **update_opts):\n        return self.sweep(", "    def sweep_left(self, canonize=True, verbosity=0, **update_opts):\n        return None\n        return self.sweep(", "expect-fail"),
    # ---- solve
    (_DM, "DMRG.solve", 'canonize = not (direction + previous_direction in {"LR", "RL"})', 'canonize = not (direction + previous_direction in {"LL", "RR"})', "expect-fail"),
    (_DM, "DMRG.solve", 'canonize = not (direction + previous_direction in {"LR", "RL"})', 'canonize = (direction + previous_direction in {"LR", "RL"})', "expect-fail"),
    (_DM, "DMRG.solve", 'canonize = not (direction + previous_direction in {"LR", "RL"})', 'canonize = False', "expect-fail"),
    (_DM, "DMRG.solve", 'canonize = not (direction + previous_direction in {"LR", "RL"})', 'canonize = True', "benign"),
    (_DM, "DMRG.solve", "            previous_direction = direction\n", "            previous_direction = 'R'\n", "expect-fail"),
    (_DM, "DMRG.solve", '"max_bond": max_bond,', '"max_bond": max_bond + 1,', "expect-fail"),
    (_DM, "DMRG.solve", '"max_bond": max_bond,', '"max_bond": self._bond_dim0,', "expect-fail"),
    (_DM, "DMRG.solve", '"cutoff": cutoff,', '"cutoff": 0.0,', "expect-fail"),
    (_DM, "DMRG.solve", "                next(self._bond_dims),\n", "                next(self._bond_dims) and next(self._bond_dims),\n", "expect-fail"),
    (_DM, "DMRG.solve", "                self._k.expand_bond_dimension(\n                    max_bond,", "                self._k.expand_bond_dimension(\n                    max_bond + 1,", "expect-fail"),
    (_DM, "DMRG.solve", "                    energy = self.sweep(direction=direction, **sweep_opts)\n            else:", "                    energy = self.sweep(direction='R', **sweep_opts)\n            else:", "expect-fail"),
    (_DM, "DMRG.solve", "            else:\n                energy = self.sweep(direction=direction, **sweep_opts)", "            else:\n                energy = self.sweep(direction=direction, canonize=canonize)", "expect-fail"),
    (_DM, "DMRG.solve", "        if bond_dims is not None:\n            self._set_bond_dim_seq(bond_dims)", "        if bond_dims is not None:\n            self._set_cutoff_seq(bond_dims)", "expect-fail"),
    (_DM, "DMRG.solve", "        if bond_dims is not None:\n            self._set_bond_dim_seq(bond_dims)", "        if bond_dims is None:\n            self._set_bond_dim_seq(bond_dims)", "expect-fail"),
    (_DM, "DMRG.solve", "        return converged", "        return None", "expect-fail"),
    # ---- C09: 1D compression sweeps (tn1d/core.py)
    (_T1, "::set_default_compress_mode", 'opts.setdefault("cutoff_mode", "rel" if cyclic else "rsum2")', 'opts["cutoff_mode"] = "rel" if cyclic else "rsum2"', "expect-fail"),
    (_T1, "::set_default_compress_mode", 'opts.setdefault("cutoff_mode", "rel" if cyclic else "rsum2")', 'opts.setdefault("cutoff_mode", "rsum2" if cyclic else "rel")', "expect-fail"),
    (_T1, "::set_default_compress_mode", 'opts.setdefault("cutoff_mode", "rel" if cyclic else "rsum2")', 'opts.setdefault("cutoff", 0.0)', "expect-fail"),
    (_T1, "::set_default_compress_mode", 'opts.setdefault("cutoff_mode", "rel" if cyclic else "rsum2")', 'opts.pop("max_bond", None)\n    opts.setdefault("cutoff_mode", "rel" if cyclic else "rsum2")', "expect-fail"),
    (_T1, "TensorNetwork1DFlat.left_compress_site", '        compress_opts.setdefault("absorb", "right")\n        compress_opts.setdefault("reduced", "left")', '        compress_opts.setdefault("absorb", "left")\n        compress_opts.setdefault("reduced", "left")', "expect-fail"),
    (_T1, "TensorNetwork1DFlat.left_compress_site", '        compress_opts.setdefault("absorb", "right")\n        compress_opts.setdefault("reduced", "left")', '        compress_opts.setdefault("absorb", "right")\n        compress_opts.setdefault("reduced", "right")', "expect-fail"),
    (_T1, "TensorNetwork1DFlat.left_compress_site", '        tl, tr = self[i], self[i + 1]\n        tensor_compress_bond(tl, tr, create_bond=create_bond, **compress_opts)', '        tl, tr = self[i], self[i + 1]\n        tensor_compress_bond(tl, tr, create_bond=create_bond)', "expect-fail"),
    (_T1, "TensorNetwork1DFlat.left_compress_site", '        tl, tr = self[i], self[i + 1]\n        tensor_compress_bond(tl, tr, create_bond=create_bond, **compress_opts)', '        tl, tr = self[i - 1], self[i]\n        tensor_compress_bond(tl, tr, create_bond=create_bond, **compress_opts)', "expect-fail"),
    (_T1, "TensorNetwork1DFlat.left_compress_site", '        tl, tr = self[i], self[i + 1]\n        tensor_compress_bond(tl, tr, create_bond=create_bond, **compress_opts)', '        tl, tr = self[i], self[i + 1]\n        tensor_compress_bond(tr, tl, create_bond=create_bond, **compress_opts)', "expect-fail"),
    (_T1, "TensorNetwork1DFlat.left_compress_site", '        compress_opts.setdefault("absorb", "right")\n        compress_opts.setdefault("reduced", "left")', '        compress_opts["max_bond"] = None\n        compress_opts.setdefault("absorb", "right")\n        compress_opts.setdefault("reduced", "left")', "expect-fail"),
    (_T1, "TensorNetwork1DFlat.right_compress_site", '        compress_opts.setdefault("absorb", "left")\n        compress_opts.setdefault("reduced", "right")', '        compress_opts.setdefault("absorb", "right")\n        compress_opts.setdefault("reduced", "right")', "expect-fail"),
    (_T1, "TensorNetwork1DFlat.right_compress_site", '        tl, tr = self[i - 1], self[i]\n        tensor_compress_bond(tl, tr, create_bond=create_bond, **compress_opts)', '        tl, tr = self[i - 1], self[i]\n        tensor_compress_bond(tl, tr, **compress_opts)', "expect-fail"),
    (_T1, "TensorNetwork1DFlat.right_compress_site", '        tl, tr = self[i - 1], self[i]\n        tensor_compress_bond(tl, tr, create_bond=create_bond, **compress_opts)', '        tl, tr = self[i], self[i + 1]\n        tensor_compress_bond(tl, tr, create_bond=create_bond, **compress_opts)', "expect-fail"),
    (_T1, "TensorNetwork1DFlat.right_compress_site", '        tl, tr = self[i - 1], self[i]\n        tensor_compress_bond(tl, tr, create_bond=create_bond, **compress_opts)', '        tl, tr = self[i - 1], self[i]\n        tensor_compress_bond(tl, tr, create_bond=create_bond, **{**compress_opts, "cutoff": 1e-10})', "expect-fail"),
    (_T1, "TensorNetwork1DFlat.right_compress_site", '        compress_opts.setdefault("absorb", "left")\n        compress_opts.setdefault("reduced", "right")', '        compress_opts.setdefault("absorb", "left")\n        compress_opts.setdefault("reduced", "left")', "expect-fail"),
    (_T1, "TensorNetwork1DFlat.left_compress", "        for i in range(start, stop):\n            self.left_compress_site(", "        for i in range(start, stop - 1):\n            self.left_compress_site(", "expect-fail"),
    (_T1, "TensorNetwork1DFlat.left_compress", "        for i in range(start, stop):\n            self.left_compress_site(", "        for i in range(start + 1, stop):\n            self.left_compress_site(", "expect-fail"),
    (_T1, "TensorNetwork1DFlat.left_compress", "        for i in range(start, stop):\n            self.left_compress_site(\n                i, bra=bra, create_bond=create_bond, **compress_opts", "        for i in range(start, stop):\n            self.left_compress_site(\n                i, bra=bra, create_bond=create_bond", "expect-fail"),
    (_T1, "TensorNetwork1DFlat.left_compress", "        for i in range(start, stop):\n            self.left_compress_site(", "        for i in range(start, stop):\n            self.right_compress_site(", "expect-fail"),
    (_T1, "TensorNetwork1DFlat.left_compress", "        if stop is None:\n            stop = self.L - 1\n\n        for i in range(start, stop):\n            self.left_compress_site(", "        if stop is None:\n            stop = self.L - 2\n\n        for i in range(start, stop):\n            self.left_compress_site(", "expect-fail"),
    (_T1, "TensorNetwork1DFlat.left_compress", "        for i in range(start, stop):\n            self.left_compress_site(\n                i,", "        for i in range(start, stop):\n            self.left_compress_site(\n                start,", "expect-fail"),
    (_T1, "TensorNetwork1DFlat.right_compress", "        for i in range(start, stop, -1):\n            self.right_compress_site(", "        for i in range(start, stop + 1, -1):\n            self.right_compress_site(", "expect-fail"),
    (_T1, "TensorNetwork1DFlat.right_compress", "        for i in range(start, stop, -1):\n            self.right_compress_site(", "        for i in range(start - 1, stop, -1):\n            self.right_compress_site(", "expect-fail"),
    (_T1, "TensorNetwork1DFlat.right_compress", "        for i in range(start, stop, -1):\n            self.right_compress_site(\n                i, bra=bra, create_bond=create_bond, **compress_opts", "        for i in range(start, stop, -1):\n            self.right_compress_site(\n                i, bra=bra, create_bond=create_bond, max_bond=None", "expect-fail"),
    (_T1, "TensorNetwork1DFlat.right_compress", "        for i in range(start, stop, -1):\n            self.right_compress_site(", "        for i in range(start, stop, -1):\n            self.left_compress_site(", "expect-fail"),
    (_T1, "TensorNetwork1DFlat.right_compress", "            start = self.L - (0 if self.cyclic else 1)\n        if stop is None:\n            stop = 0\n\n        for i in range(start, stop, -1):\n            self.right_compress_site(", "            start = self.L - (0 if self.cyclic else 1)\n        if stop is None:\n            stop = 1\n\n        for i in range(start, stop, -1):\n            self.right_compress_site(", "expect-fail"),
    (_T1, "TensorNetwork1DFlat.compress", '            self.left_canonize(\n                bra=compress_opts.get("bra", None), create_bond=create_bond\n            )\n            self.right_compress(**compress_opts)', '            self.right_canonize(\n                bra=compress_opts.get("bra", None), create_bond=create_bond\n            )\n            self.right_compress(**compress_opts)', "benign"),
    (_T1, "TensorNetwork1DFlat.compress", '            self.left_canonize(\n                bra=compress_opts.get("bra", None), create_bond=create_bond\n            )\n            self.right_compress(**compress_opts)', '            self.left_canonize(\n                bra=compress_opts.get("bra", None), create_bond=create_bond\n            )\n            self.left_compress(**compress_opts)', "expect-fail"),
    (_T1, "TensorNetwork1DFlat.compress", '            self.left_canonize(\n                bra=compress_opts.get("bra", None), create_bond=create_bond\n            )\n            self.right_compress(**compress_opts)', '            self.left_canonize(\n                bra=compress_opts.get("bra", None), create_bond=create_bond\n            )\n            self.right_compress()', "expect-fail"),
    (_T1, "TensorNetwork1DFlat.compress", '            self.left_canonize(\n                bra=compress_opts.get("bra", None), create_bond=create_bond\n            )\n            self.right_compress(**compress_opts)', '            self.left_canonize(\n                bra=compress_opts.get("bra", None), create_bond=create_bond\n            )\n            self.right_compress(stop=1, **compress_opts)', "expect-fail"),
    (_T1, "TensorNetwork1DFlat.compress", "                self.right_compress(**compress_opts)\n                self.left_canonize(stop=form)", "                self.right_compress(**compress_opts)\n                self.left_canonize(stop=form + 1)", "expect-fail"),
    (_T1, "TensorNetwork1DFlat.compress", "                self.left_compress(**compress_opts)\n                self.right_canonize(stop=form)", "                self.left_compress(**compress_opts)\n                self.right_canonize(stop=form - 1)", "expect-fail"),
    (_T1, "TensorNetwork1DFlat.compress", "                self.left_compress(**compress_opts)\n                self.right_canonize(stop=form)", "                self.left_compress(**compress_opts)", "expect-fail"),
    (_T1, "TensorNetwork1DFlat.compress", "            self.left_compress(\n                stop=self.L // 2, create_bond=create_bond, **compress_opts\n            )", "            self.left_compress(\n                stop=self.L // 2 - 1, create_bond=create_bond, **compress_opts\n            )", "expect-fail"),
    (_T1, "TensorNetwork1DFlat.compress", "            self.right_compress(\n                stop=self.L // 2, create_bond=create_bond, **compress_opts\n            )", "            self.right_compress(\n                stop=self.L // 2 + 1, create_bond=create_bond, **compress_opts\n            )", "expect-fail"),
    (_T1, "TensorNetwork1DFlat.compress", "            self.right_compress(\n                stop=self.L // 2, create_bond=create_bond, **compress_opts\n            )", "            self.right_compress(\n                stop=self.L // 2, create_bond=create_bond\n            )", "expect-fail"),
    (_T1, "TensorNetwork1DFlat.compress", '        if form is None:\n            form = "right"', '        if form is None:\n            form = "left"', "expect-fail"),
    (_T1, "TensorNetwork1DFlat.compress", '        elif form == "left":\n            self.right_canonize(', '        elif form == "right":\n            self.right_canonize(', "expect-fail"),
    # ---- C12: 2D boundary contraction bookkeeping (tn2d/core.py)
    (_T2, "._contract_interleaved_boundary_sequence", "            separations[xy] -= 1\n", "            separations[xy] -= 2\n", "expect-fail"),
    (_T2, "._contract_interleaved_boundary_sequence", "            separations[xy] -= 1\n", "            pass\n", "expect-fail"),
    (_T2, "._contract_interleaved_boundary_sequence", '            if minmax == "min":\n                boundaries[direction] += 1\n            else:\n                boundaries[direction] -= 1', '            if minmax == "min":\n                boundaries[direction] -= 1\n            else:\n                boundaries[direction] += 1', "expect-fail"),
    (_T2, "._contract_interleaved_boundary_sequence", '            if minmax == "min":\n                boundaries[direction] += 1', '            if minmax == "max":\n                boundaries[direction] += 1', "expect-fail"),
    (_T2, "._contract_interleaved_boundary_sequence", 'xrange = (boundaries["xmin"], boundaries["xmin"] + 1)', 'xrange = (boundaries["xmin"] + 1, boundaries["xmin"] + 2)', "expect-fail"),
    (_T2, "._contract_interleaved_boundary_sequence", 'xrange = (boundaries["xmax"] - 1, boundaries["xmax"])', 'xrange = (boundaries["xmax"], boundaries["xmax"] + 1)', "expect-fail"),
    (_T2, "._contract_interleaved_boundary_sequence", 'yrange = (boundaries["ymin"], boundaries["ymin"] + 1)', 'yrange = (boundaries["ymin"], boundaries["ymin"])', "expect-fail"),
    (_T2, "._contract_interleaved_boundary_sequence", 'yrange = (boundaries["ymax"] - 1, boundaries["ymax"])\n                xrange = (boundaries["xmin"], boundaries["xmax"])', 'yrange = (boundaries["ymax"] - 1, boundaries["ymax"])\n                xrange = (boundaries["xmin"], boundaries["xmax"] - 1)', "expect-fail"),
    (_T2, "._contract_interleaved_boundary_sequence", '                yrange = (boundaries["ymin"], boundaries["ymax"])\n            else:  # y', '                yrange = (boundaries["xmin"], boundaries["xmax"])\n            else:  # y', "expect-fail"),
    (_T2, "._contract_interleaved_boundary_sequence", "(separations[direction[0]] <= max_separation)", "(separations[direction[0]] < max_separation)", "expect-fail"),
    (_T2, "._contract_interleaved_boundary_sequence", "(separations[direction[0]] <= max_separation)", "(separations[direction[0]] <= max_separation - 2)", "expect-fail"),
    (_T2, "._contract_interleaved_boundary_sequence", "            # do a contraction, and keep direction in sequence to try again\n            sequence.append(direction)", "            # do a contraction, and keep direction in sequence to try again\n            sequence.append(direction)\n            sequence.append(direction)", "expect-fail"),
    (_T2, "._contract_interleaved_boundary_sequence", "                from_which=direction,\n                equalize_norms=equalize_norms,\n                **contract_boundary_opts,", "                from_which=direction,\n                equalize_norms=equalize_norms,", "expect-fail"),
    (_T2, "._contract_interleaved_boundary_sequence", "                from_which=direction,\n                equalize_norms=equalize_norms,\n                **contract_boundary_opts,", "                from_which=direction,\n                equalize_norms=equalize_norms,\n                **{**contract_boundary_opts, 'max_bond': None},", "expect-fail"),
    (_T2, "._contract_interleaved_boundary_sequence", "                from_which=direction,\n                equalize_norms=equalize_norms,\n                **contract_boundary_opts,", "                from_which='xmin',\n                equalize_norms=equalize_norms,\n                **contract_boundary_opts,", "expect-fail"),
    (_T2, "._contract_interleaved_boundary_sequence", "            tn.contract_boundary_from_(\n                xrange=xrange,", "            self.contract_boundary_from_(\n                xrange=xrange,", "expect-fail"),
    (_T2, "._contract_interleaved_boundary_sequence", "        tn = self if inplace else self.copy()\n\n        contract_boundary_opts = ensure_dict(contract_boundary_opts)", "        tn = self\n\n        contract_boundary_opts = ensure_dict(contract_boundary_opts)", "expect-fail"),
    (_T2, "._contract_interleaved_boundary_sequence", "            if strip_exponent:\n                # but we won't redistribute norms (`True`) during contraction\n                equalize_norms = 1.0", "            if not strip_exponent:\n                # but we won't redistribute norms (`True`) during contraction\n                equalize_norms = 1.0", "expect-fail"),
    (_T2, "._contract_interleaved_boundary_sequence", "        if equalize_norms is True:\n            tn.equalize_norms_()", "        if equalize_norms:\n            tn.equalize_norms_()", "expect-fail"),
    (_T2, "._contract_interleaved_boundary_sequence", "        if final_contract and (around is None):", "        if final_contract:", "expect-fail"),
    (_T2, "._contract_interleaved_boundary_sequence", '            final_contract_opts.setdefault("inplace", inplace)', '            final_contract_opts.setdefault("inplace", True)', "expect-fail"),
    (_T2, "._contract_interleaved_boundary_sequence", '            "xmax": auto_xmax if xmax is None else xmax,', '            "xmax": auto_xmax if xmax is None else xmax - 1,', "expect-fail"),
    (_T2, "._contract_interleaved_boundary_sequence", '            "ymin": auto_ymin if ymin is None else ymin,', '            "ymin": auto_xmin if ymin is None else ymin,', "expect-fail"),
    (_T2, "._contract_interleaved_boundary_sequence", 'd: boundaries[f"{d}max"] - boundaries[f"{d}min"] for d in "xy"', 'd: boundaries[f"{d}max"] - boundaries[f"{d}min"] + 1 for d in "xy"', "expect-fail"),
    (_T2, "TensorNetwork2D.contract_boundary", '        contract_boundary_opts["max_bond"] = max_bond\n        contract_boundary_opts["mode"] = mode\n        contract_boundary_opts["cutoff"] = cutoff\n        contract_boundary_opts["canonize"] = canonize\n        contract_boundary_opts["layer_tags"]', '        contract_boundary_opts["max_bond"] = None\n        contract_boundary_opts["mode"] = mode\n        contract_boundary_opts["cutoff"] = cutoff\n        contract_boundary_opts["canonize"] = canonize\n        contract_boundary_opts["layer_tags"]', "expect-fail"),
    (_T2, "TensorNetwork2D.contract_boundary", '        contract_boundary_opts["max_bond"] = max_bond\n        contract_boundary_opts["mode"] = mode\n        contract_boundary_opts["cutoff"] = cutoff\n        contract_boundary_opts["canonize"] = canonize\n        contract_boundary_opts["layer_tags"]', '        contract_boundary_opts["max_bond"] = max_bond\n        contract_boundary_opts["mode"] = mode\n        contract_boundary_opts["cutoff"] = 0.0\n        contract_boundary_opts["canonize"] = canonize\n        contract_boundary_opts["layer_tags"]', "expect-fail"),
    (_T2, "TensorNetwork2D.contract_boundary", '        contract_boundary_opts["max_bond"] = max_bond\n        contract_boundary_opts["mode"] = mode\n        contract_boundary_opts["cutoff"] = cutoff\n        contract_boundary_opts["canonize"] = canonize\n        contract_boundary_opts["layer_tags"]', '        contract_boundary_opts["mode"] = mode\n        contract_boundary_opts["cutoff"] = cutoff\n        contract_boundary_opts["canonize"] = canonize\n        contract_boundary_opts["layer_tags"]', "expect-fail"),
    (_T2, "TensorNetwork2D.contract_boundary", "            max_separation=max_separation,\n            max_unfinished=max_unfinished,\n            around=around,\n            strip_exponent=strip_exponent,\n            equalize_norms=equalize_norms,\n            final_contract=final_contract,\n            final_contract_opts=final_contract_opts,\n            progbar=progbar,\n            inplace=inplace,\n        )\n\n    contract_boundary_ =", "            max_separation=max_separation,\n            max_unfinished=max_unfinished,\n            around=around,\n            strip_exponent=strip_exponent,\n            equalize_norms=equalize_norms,\n            final_contract=final_contract,\n            final_contract_opts=final_contract_opts,\n            progbar=progbar,\n            inplace=True,\n        )\n\n    contract_boundary_ =", "expect-fail"),
    (_T2, "TensorNetwork2D.contract_boundary", "            xmin=xmin,\n            xmax=xmax,\n            ymin=ymin,\n            ymax=ymax,\n            max_separation=max_separation,\n            max_unfinished=max_unfinished,", "            xmin=xmin,\n            xmax=xmax,\n            ymin=ymax,\n            ymax=ymin,\n            max_separation=max_separation,\n            max_unfinished=max_unfinished,", "expect-fail"),
    (_T2, "TensorNetwork2D.contract_boundary_from", '        contract_boundary_opts["max_bond"] = max_bond\n\n        if mode == "full-bond":', '        contract_boundary_opts["max_bond"] = None\n\n        if mode == "full-bond":', "expect-fail"),
    (_T2, "TensorNetwork2D.contract_boundary_from", '        contract_boundary_opts["cutoff"] = cutoff\n        contract_boundary_opts["compress_opts"] = compress_opts', '        contract_boundary_opts["compress_opts"] = compress_opts', "expect-fail"),
    (_T2, "TensorNetwork2D.contract_boundary_from", '        contract_boundary_opts["xrange"] = xrange\n        contract_boundary_opts["yrange"] = yrange', '        contract_boundary_opts["xrange"] = yrange\n        contract_boundary_opts["yrange"] = xrange', "expect-fail"),
    (_T2, "TensorNetwork2D.contract_boundary_from", '        if mode == "mps":\n            tn._contract_boundary_core(**contract_boundary_opts)\n            return tn', '        if mode == "mps":\n            self._contract_boundary_core(**contract_boundary_opts)\n            return tn', "expect-fail"),
    (_T2, "TensorNetwork2D.contract_boundary_from", '        if mode == "mps":\n            tn._contract_boundary_core(**contract_boundary_opts)\n            return tn', '        if mode == "mps":\n            tn._contract_boundary_core(**contract_boundary_opts)\n            return self', "expect-fail"),
    (_T2, "TensorNetwork2D.contract_boundary_from", '        contract_boundary_opts["sweep_reverse"] = sweep_reverse', '        contract_boundary_opts["sweep_reverse"] = not sweep_reverse', "expect-fail"),
    (_T2, "._contract_boundary_core", "                                    max_bond=max_bond,\n                                    cutoff=cutoff,\n                                    equalize_norms=equalize_norms,\n                                    **compress_opts,", "                                    max_bond=None,\n                                    cutoff=cutoff,\n                                    equalize_norms=equalize_norms,\n                                    **compress_opts,", "expect-fail"),
    (_T2, "._contract_boundary_core", "                                    max_bond=max_bond,\n                                    cutoff=cutoff,\n                                    equalize_norms=equalize_norms,\n                                    **compress_opts,", "                                    max_bond=max_bond,\n                                    equalize_norms=equalize_norms,\n                                    **compress_opts,", "expect-fail"),
    (_T2, "._contract_boundary_core", "                                    max_bond=max_bond,\n                                    cutoff=cutoff,\n                                    equalize_norms=equalize_norms,\n                                    **compress_opts,", "                                    max_bond=max_bond,\n                                    cutoff=cutoff,\n                                    equalize_norms=equalize_norms,", "expect-fail"),
    (_T2, "._contract_boundary_core", "                        max_bond=max_bond,\n                        cutoff=cutoff,\n                        equalize_norms=equalize_norms,\n                        compress_opts=compress_opts,", "                        max_bond=1,\n                        cutoff=cutoff,\n                        equalize_norms=equalize_norms,\n                        compress_opts=compress_opts,", "expect-fail"),
    (_T2, "._contract_boundary_core", "                        max_bond=max_bond,\n                        cutoff=cutoff,\n                        equalize_norms=equalize_norms,\n                        compress_opts=compress_opts,", "                        max_bond=max_bond,\n                        cutoff=0.0,\n                        equalize_norms=equalize_norms,\n                        compress_opts=compress_opts,", "expect-fail"),
    (_T2, "._contract_boundary_core", "                        max_bond=max_bond,\n                        cutoff=cutoff,\n                        equalize_norms=equalize_norms,\n                        compress_opts=compress_opts,", "                        max_bond=max_bond,\n                        cutoff=cutoff,\n                        equalize_norms=equalize_norms,\n                        compress_opts=canonize_opts,", "expect-fail"),
    (_T2, "._contract_boundary_core", "                    self.compress_plane(\n                        xrange=xrange if plane != \"x\" else (i, i),", "                    self.compress_plane(\n                        xrange=xrange if plane != \"x\" else (i + istep, i + istep),", "expect-fail"),
    (_T2, "._contract_boundary_core", "                        yrange=yrange if plane != \"y\" else (i, i),\n                        yreverse=sweep_reverse,", "                        yrange=yrange if plane != \"y\" else (i, i),\n                        yreverse=not sweep_reverse,", "expect-fail"),
    (_T2, "._contract_boundary_core", '        canonize_opts.setdefault("absorb", "right")\n        compress_opts = ensure_dict(compress_opts)\n        compress_opts.setdefault("absorb", "right")\n\n        r2d = Rotator2D(self, xrange, yrange, from_which)\n        site_tag = r2d.site_tag\n        plane, istep = r2d.plane, r2d.istep\n\n        if layer_tags is None:', '        canonize_opts.setdefault("absorb", "right")\n        compress_opts = ensure_dict(compress_opts)\n        compress_opts["absorb"] = "left"\n\n        r2d = Rotator2D(self, xrange, yrange, from_which)\n        site_tag = r2d.site_tag\n        plane, istep = r2d.plane, r2d.istep\n\n        if layer_tags is None:', "expect-fail"),
    (_T2, "._contract_boundary_core", '        canonize_opts.setdefault("absorb", "right")\n        compress_opts = ensure_dict(compress_opts)\n        compress_opts.setdefault("absorb", "right")\n\n        r2d = Rotator2D(self, xrange, yrange, from_which)\n        site_tag = r2d.site_tag\n        plane, istep = r2d.plane, r2d.istep\n\n        if layer_tags is None:', '        canonize_opts.setdefault("absorb", "right")\n        compress_opts.setdefault("absorb", "right")\n\n        r2d = Rotator2D(self, xrange, yrange, from_which)\n        site_tag = r2d.site_tag\n        plane, istep = r2d.plane, r2d.istep\n\n        if layer_tags is None:', "expect-fail"),
    (_T2, "._contract_boundary_core", "                            xreverse=not sweep_reverse,", "                            xreverse=sweep_reverse,", "expect-fail"),
]
