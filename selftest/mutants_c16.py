"""deliberate breakages of the real source that the contracts must catch (see vf/selftest.py)"""
MODULES = ['contracts.c16_threads']
MUTANTS = [
    ('quimb/core.py', '::_complex_array_numba', '        for i in range(istart, istop):\n            out[i] = complex(x[i], y[i])', '        for i in range(istart, istop + 1):\n            out[i] = complex(x[i], y[i])', 'expect-fail'),
    ('quimb/core.py', '::_complex_array_numba', 'out[i] = complex(x[i], y[i])', 'out[i] = complex(y[i], x[i])', 'expect-fail'),
    ('quimb/core.py', '::_phase_to_complex_numba', '    for b in range(thread_rank, num_blocks, num_threads):\n        istart, istop = threading_get_block_range(\n            b, base_block_size, block_remainder\n        )\n        for i in range(istart, istop):\n            xi = x[i]', '    for b in range(thread_rank, num_blocks - 1, num_threads):\n        istart, istop = threading_get_block_range(\n            b, base_block_size, block_remainder\n        )\n        for i in range(istart, istop):\n            xi = x[i]', 'expect-fail'),
    ('quimb/core.py', '::threading_get_block_range', 'start = b * base_block_size + min(b, block_remainder)', 'start = b * base_block_size + max(b, block_remainder)', 'expect-fail'),
    ('quimb/core.py', '::threading_get_block_range', '(1 if b < block_remainder else 0)', '(1 if b <= block_remainder else 0)', 'expect-fail'),
    ('quimb/core.py', '::_outer_par', 'out[i, j] = x[i] * y[j]', 'out[j, i] = x[i] * y[j]', 'expect-fail'),
    ('quimb/core.py', '::_r_diag_dot_dense_par', 'out[i, j] = A[i, j] * l[j]', 'out[i, j] = A[i, j] * l[i]', 'expect-fail'),
    ('quimb/core.py', '::_dot_csr_matvec_numba', 'for j in range(indptr[i], indptr[i + 1]):', 'for j in range(indptr[i], indptr[i + 1] - 1):', 'expect-fail'),
    ('quimb/core.py', '::_dot_csr_matvec_numba', 'isum += data[j] * vec[indices[j]]', 'isum += data[j] * vec[indices[i]]', 'expect-fail'),
    ('quimb/core.py', '::_subtract_update_1d_numba', 'X[i] -= c * Y[i]', 'X[i] -= c * Y[i]\n            X[0] = X[0]', 'expect-fail'),
    ('quimb/core.py', '::_kron_dense_numba', 'j = q * ja + jb', 'j = q * jb + ja', 'expect-fail'),
    ('quimb/core.py', '::_kron_dense_numba', 'aij = x[ia, ja]', 'aij = x[ib, ja]', 'expect-fail'),
    ('quimb/core.py', '::_kron_dense_numba', 'out[i, j] = aij * y[ib, jb]', 'out[i, j] = aij * y[jb, ib]', 'expect-fail'),
    ('quimb/core.py', '::_kron_dense_numba', 'for jb in range(q):', 'for jb in range(q - 1):', 'expect-fail'),
    ('quimb/core.py', '::_kron_dense_numba', '    N = m * p\n    num_blocks, base_block_size, block_remainder = threading_choose_num_blocks(\n        N,', '    N = m * p\n    num_blocks, base_block_size, block_remainder = threading_choose_num_blocks(\n        m,', 'expect-fail'),
    ('quimb/core.py', '::threading_choose_num_blocks', 'num_blocks = max(1, np.ceil(size_total / target_block_size))', 'num_blocks = np.ceil(size_total / target_block_size)', 'expect-fail'),
    ('quimb/core.py', '::threading_choose_num_blocks', 'num_blocks = max(1, min(num_threads, round(size_total / num_threads)))', 'num_blocks = min(num_threads, round(size_total / num_threads))', 'expect-fail'),
]
