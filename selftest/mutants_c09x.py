"""C09 extension mutants: deliberate breakages of quimb/tensor/tn1d/compress.py on a scratch copy; each must flip a NAMED
provider obligation (function_suffix = substring of the obligation id) from discharged to failed; 'benign' edits must
leave the named obligation discharged.

   ./check selftest c09x
"""
import os

MODULES = ["contracts.c09_ext"]
F = "quimb/tensor/tn1d/compress.py"
D = "tensor_network_1d_compress::"

_CALL_1D = """            max_bond=max_bond,
            cutoff=cutoff,
            site_tags=site_tags,
            canonize=canonize,
            permute_arrays=permute_arrays,
            optimize=optimize,
            sweep_reverse=sweep_reverse,
"""
MUTANTS = [
    # ------------------------------------------------------------------ dispatcher (fdx)
    (F, D + "dispatch[zipup-first]", '"zipup-first": tensor_network_1d_compress_zipup_oversample,',
     '"zipup-first": tensor_network_1d_compress_zipup,', "expect-fail"),                      # alias to the wrong method
    (F, D + "dispatch[src]", '"src": tensor_network_1d_compress_src,', '"src": tensor_network_1d_compress_srcmps,', "expect-fail"),
    (F, D + "dispatch[sdc-oversample]", '    "sdc-oversample": tensor_network_1d_compress_sdc_oversample,\n', "", "expect-fail"),  # key dropped
    (F, D + "documented-methods", '    "zipup-oversample": tensor_network_1d_compress_zipup_oversample,\n', "", "expect-fail"),
    (F, D + "table-values", 'tensor_network_1d_compress_fit_guess, guess="projector"', 'tensor_network_1d_compress_fit_guess, guess="zipup"',
     "expect-fail"),
    (F, D + "dispatch[dm]", _CALL_1D, _CALL_1D.replace("            cutoff=cutoff,\n", ""), "expect-fail"),           # option dropped
    (F, D + "dispatch[direct]", _CALL_1D, _CALL_1D.replace("sweep_reverse=sweep_reverse", "sweep_reverse=not sweep_reverse"), "expect-fail"),
    (F, D + "dispatch[fit]", _CALL_1D, _CALL_1D.replace("canonize=canonize", "canonize=True"), "expect-fail"),
    (F, D + "dispatch[zipup]", _CALL_1D, _CALL_1D.replace("max_bond=max_bond", "max_bond=max_bond and int(max_bond)"), "expect-fail"),
    (F, D + "dispatch[srcmps]", "            inplace=inplace,\n            **kwargs,\n        )\n\n    # generic tensor network",
     "            inplace=inplace,\n        )\n\n    # generic tensor network", "expect-fail"),                         # **kwargs dropped
    (F, D + "dispatch[fit-zipup]", "    f_tn1d = _TN1D_COMPRESS_METHODS.get(method, None)",
     "    f_tn1d = _TN1D_COMPRESS_METHODS.get(method.split('-')[0], None)", "expect-fail"),
    (F, D + "generic-fallback", "        method=method,\n        site_tags=site_tags,\n        canonize=canonize,\n        optimize=optimize,\n        equalize_norms=equalize_norms,",
     "        method=method,\n        site_tags=site_tags,\n        canonize=canonize,\n        optimize=optimize,\n        equalize_norms=False,", "expect-fail"),
    (F, D + "generic-fallback", "    if permute_arrays:\n        possibly_permute_(tnc, permute_arrays)\n\n    return tnc",
     "    if permute_arrays is True:\n        possibly_permute_(tnc, permute_arrays)\n\n    return tnc", "expect-fail"),
    (F, D + "generic-fallback", "    f_tn1d = _TN1D_COMPRESS_METHODS.get(method, None)",
     "    f_tn1d = _TN1D_COMPRESS_METHODS.get(method, tensor_network_1d_compress_dm)", "expect-fail"),
    (F, D + "defaults", '    cutoff=1e-10,\n    method="dm",\n    site_tags=None,\n    canonize=True,\n    permute_arrays=True,',
     '    cutoff=1e-10,\n    method="dm",\n    site_tags=None,\n    canonize=False,\n    permute_arrays=True,', "expect-fail"),
    (F, D + "defaults", '    cutoff=1e-10,\n    method="dm",\n    site_tags=None,\n    canonize=True,\n    permute_arrays=True,',
     '    cutoff=1e-10,\n    method="zipup",\n    site_tags=None,\n    canonize=True,\n    permute_arrays=True,', "expect-fail"),
    # benign: same behaviour, different spelling
    (F, D + "dispatch[", "    f_tn1d = _TN1D_COMPRESS_METHODS.get(method, None)\n    if f_tn1d is not None:",
     "    f_tn1d = _TN1D_COMPRESS_METHODS.get(method)\n    if f_tn1d is not None:", "benign"),
    (F, D + "generic-fallback", "        # XXX: check if system has only a long range cyclic bond\n", "        # (comment changed)\n", "benign"),
    # ------------------------------------------------------------------ option threading (ast)
]
# the option block occurs in several functions: each mutant is addressed by a unique neighbour line
MUTANTS += [
    # direct: max_bond never stored / stored conditionally / a different value / carrier not handed to the leaf
    (F, "compress_direct::threads[max_bond]",
     'canonize_opts.setdefault("equalize_norms", equalize_norms)\n\n    compress_opts = kwargs | ensure_dict(compress_opts)\n    compress_opts.setdefault("max_bond", max_bond)\n',
     'canonize_opts.setdefault("equalize_norms", equalize_norms)\n\n    compress_opts = kwargs | ensure_dict(compress_opts)\n', "expect-fail"),
    (F, "compress_direct::threads[cutoff]",
     'canonize_opts.setdefault("equalize_norms", equalize_norms)\n\n    compress_opts = kwargs | ensure_dict(compress_opts)\n    compress_opts.setdefault("max_bond", max_bond)\n    compress_opts.setdefault("cutoff", cutoff)\n',
     'canonize_opts.setdefault("equalize_norms", equalize_norms)\n\n    compress_opts = kwargs | ensure_dict(compress_opts)\n    compress_opts.setdefault("max_bond", max_bond)\n    compress_opts.setdefault("cutoff", cutoff * 10)\n',
     "expect-fail"),
    (F, "compress_direct::threads[cutoff_mode]",
     'canonize_opts.setdefault("equalize_norms", equalize_norms)\n\n    compress_opts = kwargs | ensure_dict(compress_opts)\n    compress_opts.setdefault("max_bond", max_bond)\n    compress_opts.setdefault("cutoff", cutoff)\n    compress_opts.setdefault("cutoff_mode", cutoff_mode)\n',
     'canonize_opts.setdefault("equalize_norms", equalize_norms)\n\n    compress_opts = kwargs | ensure_dict(compress_opts)\n    compress_opts.setdefault("max_bond", max_bond)\n    compress_opts.setdefault("cutoff", cutoff)\n    if canonize:\n        compress_opts.setdefault("cutoff_mode", cutoff_mode)\n',
     "expect-fail"),
    (F, "compress_direct::threads[max_bond]",
     "        new.compress_between(site_tags[i - 1], site_tags[i], **compress_opts)\n        #     │ │ │ │ │ │ │ │ │ │\n        #     ▶━▶━▶━▶━▶━▶━○─◀─◀─◀",
     "        new.compress_between(site_tags[i - 1], site_tags[i], **canonize_opts)\n        #     │ │ │ │ │ │ │ │ │ │\n        #     ▶━▶━▶━▶━▶━▶━○─◀─◀─◀",
     "expect-fail"),
    (F, "compress_direct::threads[max_bond]",
     "    new = enforce_1d_like(tn, site_tags=site_tags, inplace=inplace)\n\n    # contract the first site group",
     "    new = enforce_1d_like(tn, site_tags=site_tags, inplace=inplace)\n    compress_opts[\"max_bond\"] = None\n\n    # contract the first site group",
     "expect-fail"),
    (F, "compress_direct::threads[cutoff]",
     "    new = enforce_1d_like(tn, site_tags=site_tags, inplace=inplace)\n\n    # contract the first site group",
     "    new = enforce_1d_like(tn, site_tags=site_tags, inplace=inplace)\n    cutoff = 0.0\n\n    # contract the first site group",
     "expect-fail"),
    # dm: the eigendecomposition leaf loses the carrier / the option is popped
    (F, "compress_dm::threads[max_bond]", '    compress_opts.setdefault("max_bond", max_bond)\n    compress_opts.setdefault("method", "eigh")',
     '    compress_opts.setdefault("max_bond", None)\n    compress_opts.setdefault("method", "eigh")', "expect-fail"),
    (F, "compress_dm::threads[cutoff]", '    compress_opts.setdefault("positive", 1)\n    compress_opts.setdefault("cutoff", cutoff)',
     '    compress_opts.setdefault("positive", 1)\n    compress_opts.setdefault("cutoff", cutoff)\n    compress_opts.pop("cutoff")', "expect-fail"),
    (F, "compress_dm::threads[cutoff_mode]", '    compress_opts.setdefault("cutoff", cutoff)\n    compress_opts.setdefault("cutoff_mode", cutoff_mode)\n    compress_opts.setdefault("absorb", None)',
     '    compress_opts.setdefault("cutoff", cutoff)\n    compress_opts.setdefault("cutoff_mode", "rel")\n    compress_opts.setdefault("absorb", None)', "expect-fail"),
    # zipup_oversample: stages swapped / final stage gets the oversampling cap / first-stage cutoff not the declared one
    (F, "zipup_oversample::threads[max_bond]", "        site_tags=site_tags,\n        max_bond=max_bond,\n        cutoff=cutoff,\n        cutoff_mode=cutoff_mode,\n        equalize_norms=equalize_norms,\n        normalize=normalize,",
     "        site_tags=site_tags,\n        max_bond=max_bond_oversample,\n        cutoff=cutoff,\n        cutoff_mode=cutoff_mode,\n        equalize_norms=equalize_norms,\n        normalize=normalize,",
     "expect-fail"),
    (F, "zipup_oversample::threads[cutoff]", "        max_bond=max_bond_oversample,\n        cutoff=cutoff_oversample,\n        site_tags=site_tags,\n        canonize=canonize,\n        cutoff_mode=cutoff_mode,",
     "        max_bond=max_bond_oversample,\n        cutoff=cutoff_oversample / 2,\n        site_tags=site_tags,\n        canonize=canonize,\n        cutoff_mode=cutoff_mode,",
     "expect-fail"),
    (F, "zipup_oversample::threads[cutoff_mode]", "        max_bond=max_bond_oversample,\n        cutoff=cutoff_oversample,\n        site_tags=site_tags,\n        canonize=canonize,\n        cutoff_mode=cutoff_mode,",
     "        max_bond=max_bond_oversample,\n        cutoff=cutoff_oversample,\n        site_tags=site_tags,\n        canonize=canonize,\n        cutoff_mode=\"rsum2\",",
     "expect-fail"),
    # 2-site fit sweep: the split leaf
    (F, "_tn1d_fit_sum_sweep_2site::threads[max_bond]", "            max_bond=max_bond,\n            cutoff=cutoff,\n", "            max_bond=max_bond + 1,\n            cutoff=cutoff,\n", "expect-fail"),
    (F, "_tn1d_fit_sum_sweep_2site::threads[cutoff]", "            max_bond=max_bond,\n            cutoff=cutoff,\n", "            max_bond=max_bond,\n", "expect-fail"),
    # src: max_bond (the sampling rank) / mps gating wrappers
    (F, "compress_src::threads[max_bond]", "            noise_dist=noise_dist,\n            max_bond=max_bond,\n            Bix=Bix,", "            noise_dist=noise_dist,\n            max_bond=2 * max_bond,\n            Bix=Bix,", "expect-fail"),
    (F, "mps_gate_with_mpo_dm::threads[cutoff]", "        tn, max_bond, cutoff, inplace=inplace, **compress_opts", "        tn, max_bond, inplace=inplace, **compress_opts", "expect-fail"),
    (F, "mps_gate_with_mpo_dm::threads[max_bond]", "        tn, max_bond, cutoff, inplace=inplace, **compress_opts", "        tn, None, cutoff, inplace=inplace, **compress_opts", "expect-fail"),
    (F, "fit_guess::threads[cutoff]", '        # use cutoff in guess, but not in fitting\n        "cutoff": cutoff,', '        # use cutoff in guess, but not in fitting\n        "cutoff": cutoff_fit,', "expect-fail"),
    (F, "fit_guess::threads[max_bond]", "        max_bond=max_bond,\n        cutoff=cutoff_fit,\n        tn_fit=tn_fit,", "        max_bond=None,\n        cutoff=cutoff_fit,\n        tn_fit=tn_fit,", "expect-fail"),
    # a table method that hides the options in **kwargs escapes the reflection: the census must say so
    (F, "census-every-table-method-analysed", "_TN1D_COMPRESS_METHODS = {\n",
     "def tensor_network_1d_compress_lazy(tn, **kwargs):\n    return tn\n\n\n_TN1D_COMPRESS_METHODS = {\n    \"lazy\": tensor_network_1d_compress_lazy,\n",
     "expect-fail"),
    # benign
    (F, "compress_direct::threads[", "    # possibly put the array indices in canonical order (e.g. when MPS or MPO)\n    possibly_permute_(new, permute_arrays)\n\n    return new\n\n\ndef _form_final",
     "    # (comment changed)\n    possibly_permute_(new, permute_arrays)\n\n    return new\n\n\ndef _form_final", "benign"),
    (F, "compress_dm::threads[", '    compress_opts.setdefault("max_bond", max_bond)\n    compress_opts.setdefault("method", "eigh")\n    compress_opts.setdefault("positive", 1)\n    compress_opts.setdefault("cutoff", cutoff)',
     '    compress_opts.setdefault("cutoff", cutoff)\n    compress_opts.setdefault("method", "eigh")\n    compress_opts.setdefault("positive", 1)\n    compress_opts.setdefault("max_bond", max_bond)', "benign"),
]


# ------------------------------------------------------------------ periodic sweeps (E1 engine run by provider_cyclic)
T = "quimb/tensor/tn1d/core.py"
CL, CR, CC = "left_compress::[cyclic]", "right_compress::[cyclic]", "TensorNetwork1DFlat.compress::[cyclic]"
MUTANTS += [
    (T, CL, "            start = -1 if self.cyclic else 0", "            start = 0", "expect-fail"),            # closing bond never compressed
    (T, CL, "            stop = self.L - 1\n\n        for i in range(start, stop):\n            self.left_compress_site(",
     "            stop = self.L\n\n        for i in range(start, stop):\n            self.left_compress_site(", "expect-fail"),   # closing bond twice
    (T, CL, "            self.left_compress_site(\n                i, bra=bra, create_bond=create_bond, **compress_opts\n            )",
     "            self.left_compress_site(\n                i, bra=bra, create_bond=create_bond\n            )", "expect-fail"),   # options dropped
    (T, CL, "            self.left_compress_site(\n                i, bra=bra, create_bond=create_bond, **compress_opts\n            )",
     "            self.left_compress_site(\n                i + 1, bra=bra, create_bond=create_bond, **compress_opts\n            )", "expect-fail"),
    (T, CR, "            start = self.L - (0 if self.cyclic else 1)", "            start = self.L - 1", "expect-fail"),
    (T, CR, "            stop = 0\n\n        for i in range(start, stop, -1):\n            self.right_compress_site(",
     "            stop = 1\n\n        for i in range(start, stop, -1):\n            self.right_compress_site(", "expect-fail"),      # bond (0,1) missed
    (T, CR, "            self.right_compress_site(\n                i, bra=bra, create_bond=create_bond, **compress_opts\n            )",
     "            compress_opts[\"max_bond\"] = None\n            self.right_compress_site(\n                i, bra=bra, create_bond=create_bond, **compress_opts\n            )",
     "expect-fail"),
    (T, CR, "            start = self.L - (0 if self.cyclic else 1)", "            start = self.L if self.cyclic else self.L - 1", "benign"),
    # compress: the seeded-regression shapes -- a sweep that stops at the centre / loses the options, per form
    (T, CC, "                self.right_canonize(create_bond=create_bond)\n                self.left_compress(**compress_opts)",
     "                self.right_canonize(create_bond=create_bond)\n                self.left_compress(stop=form, **compress_opts)", "expect-fail"),
    (T, CC, "                self.left_canonize(create_bond=create_bond)\n                self.right_compress(**compress_opts)",
     "                self.left_canonize(create_bond=create_bond)\n                self.right_compress(stop=form, **compress_opts)", "expect-fail"),
    (T, CC, "            self.left_compress(**compress_opts)\n\n        elif form == \"right\":", "            self.left_compress()\n\n        elif form == \"right\":", "expect-fail"),
    (T, CC, "            self.left_compress(**compress_opts)\n\n        elif form == \"right\":",
     "            self.left_compress(stop=self.L - 2, **compress_opts)\n\n        elif form == \"right\":", "expect-fail"),
    (T, CC, "            self.right_compress(**compress_opts)\n\n        elif form == \"flat\":", "            self.right_canonize()\n\n        elif form == \"flat\":", "expect-fail"),
    (T, CC, "            self.right_compress(\n                stop=self.L // 2, create_bond=create_bond, **compress_opts\n            )",
     "            self.right_compress(\n                stop=self.L // 2 + 1, create_bond=create_bond, **compress_opts\n            )", "expect-fail"),
    (T, CC, "        if form is None:\n            form = \"right\"\n\n        if isinstance(form, Integral):\n            if form < self.L // 2:",
     "        if form is None:\n            form = \"right\"\n\n        if isinstance(form, Integral):\n            if form <= self.L // 2:", "benign"),
]


# ------------------------------------------------------------------ exponent bookkeeping of tensor_network_ag_sum (e2, sympy)
A = "quimb/tensor/tnag/core.py"
S = "tensor_network_ag_sum::exponent-bookkeeping["
MUTANTS += [
    (A, S + "add,symbolic]", "    rescale_b = 10 ** (tnb.exponent - tna.exponent)", "    rescale_b = 10 ** (tna.exponent - tnb.exponent)", "expect-fail"),   # the swap
    (A, S + "sub,float]", "    rescale_b = 10 ** (tnb.exponent - tna.exponent)", "    rescale_b = 10 ** (tna.exponent - tnb.exponent)", "expect-fail"),
    (A, S + "add,zero]", "    rescale_b = 10 ** (tnb.exponent - tna.exponent)", "    rescale_b = 1.0", "expect-fail"),                                     # rescale dropped
    (A, S + "add,symbolic]", "            tb.modify(apply=lambda x: x * rescale_b)\n            # only need to rescale a single tensor\n            rescale_b = 1.0",
     "            tb.modify(apply=lambda x: x * rescale_b)", "expect-fail"),                                                                               # every site rescaled
    (A, S + "sub,symbolic]", "    rescale_b = 10 ** (tnb.exponent - tna.exponent)",
     "    rescale_b = 10 ** (tnb.exponent - tna.exponent)\n    tna.exponent = tnb.exponent", "expect-fail"),                                                # result exponent from b
    (A, S + "sub,equal]", "            tb.negate_()\n            # only need to negate a single tensor\n            negate = False",
     "            tb.negate_()", "expect-fail"),                                                                                                           # every site negated
    (A, S + "sub,zero]", "        if negate:\n            tb.negate_()", "        if negate and rescale_b == 1.0:\n            tb.negate_()", "expect-fail"),   # sign lost when rescaling
    (A, S + "add,float]", "        if rescale_b != 1.0:\n            tb.modify(apply=lambda x: x * rescale_b)", "        if rescale_b > 1.0:\n            tb.modify(apply=lambda x: x * rescale_b)", "expect-fail"),
    (A, S, "    rescale_b = 10 ** (tnb.exponent - tna.exponent)", "    rescale_b = 10.0 ** (-tna.exponent + tnb.exponent)", "benign"),
    (A, S, "            tb.modify(apply=lambda x: x * rescale_b)", "            tb.modify(apply=lambda y: rescale_b * y)", "benign"),
]


def run_mutant(tmp, relpath, suffix, old, new):
    """'failed' = an obligation whose id contains `suffix` fails on the mutated tree and did not fail on the unchanged one;
    'discharged' = every obligation whose id contains `suffix` is discharged on the mutated tree"""
    import contracts.c09_ext as C

    root = os.environ.get("VERIF_REPO", "/repo")
    src = open(os.path.join(root, relpath)).read()
    if src.count(old) < 1:
        return "stale", "old text not found in the current source"
    dst = os.path.join(tmp, relpath)
    os.makedirs(os.path.dirname(dst), exist_ok=True)
    open(dst, "w").write(src.replace(old, new, 1))
    try:
        if "exponent-bookkeeping" in suffix:
            base, mut = C.provider_sum(root=root), C.provider_sum(root=tmp)
        elif "[cyclic]" in suffix:
            base, mut = C.provider_cyclic(root=root), C.provider_cyclic(root=tmp)
        else:
            base = C.provider_dispatch(root=root) + C.provider_threading(root=root)
            mut = C.provider_dispatch(root=tmp) + C.provider_threading(root=tmp)
    finally:
        os.remove(dst)
    base_failed = {o.id for o in base if o.status == "failed"}
    hit = [o for o in mut if suffix in o.id]
    if not hit:
        return "stale", f"no obligation id contains {suffix!r}"
    newly = [o for o in hit if o.status == "failed" and o.id not in base_failed]
    if newly:
        return "failed", ", ".join(o.id.split("::", 1)[1] for o in newly[:2])
    bad = [o for o in hit if o.status != "discharged"]
    if bad:
        return bad[0].status, f"{bad[0].id.split('::', 1)[1]}: {str(bad[0].detail or bad[0].model)[:100]}"
    return "discharged", ""
