"""deliberate breakages of the real source that the C15 extension contracts (contracts/c15_ext.py) must catch.

E1 mutants (function suffix '::name') run through the engine; provider mutants (suffix 'grid:<fn>::<label part>') run the
grid provider on a mutated copy of quimb/core.py: caught = the named obligation fails there and not on the unchanged tree."""
import os

MODULES = ["contracts.c15_ext"]

C = "quimb/core.py"
_PERMUTE = "    if issparse(p):\n        return _permute_sparse(p, dims, perm)\n    return _permute_dense(p, dims, perm)"
_PTR_TAIL = "    if issparse(p):\n        return _partial_trace_simple(p, dims, keep)\n\n    return _partial_trace_dense(p, dims, keep)"
_IC = "    return tuple(i for i in range(n) if i not in inds)"
MUTANTS = [
    # ---- pkron
    (C, "::pkron", "    ip[p] = np.arange(n)\n", "    ip = np.asarray(p)\n", "expect-fail"),  # perm instead of its inverse
    (C, "::pkron", "    dims_in = dims[inds]\n", "    dims_in = dims[: len(inds)]\n", "expect-fail"),
    (C, "::pkron", "*((i, x) for i, x in enumerate(dims) if i not in inds)", "*((i, x) for i, x in enumerate(dims) if i in inds)", "expect-fail"),
    (C, "::pkron", "    p = [*inds, *inds_out]\n", "    p = [*inds_out, *inds]\n", "expect-fail"),
    (C, "::pkron", "b = ikron(op, [sz_in, sz // sz_in], 0, **ikron_opts)", "b = ikron(op, [sz // sz_in, sz_in], 0, **ikron_opts)", "expect-fail"),
    (C, "::pkron", "b = ikron(op, [sz_in, sz // sz_in], 0, **ikron_opts)", "b = ikron(op, [sz_in, sz // sz_in], 1, **ikron_opts)", "expect-fail"),
    (C, "::pkron", "b = ikron(op, [sz_in, sz // sz_in], 0, **ikron_opts)", "b = ikron(op, [sz_in, sz // sz_in], 0)", "expect-fail"),
    (C, "::pkron", "    return permute(b, dims_cur, ip)\n", "    return permute(b, dims_cur, p)\n", "expect-fail"),
    (C, "::pkron", "    dims_cur = (*dims_in, *dims_out)\n", "    dims_cur = (*dims_out, *dims_in)\n", "expect-fail"),
    (C, "::pkron", "    return permute(b, dims_cur, ip)\n", "    return permute(b, dims, ip)\n", "expect-fail"),
    (C, "::pkron", "    ip = np.empty(n, dtype=np.int32)\n", "    ip = np.empty(n, dtype=np.int64)\n", "benign"),
    # ---- permute (dispatch)
    (C, "::permute", _PERMUTE, _PERMUTE.replace("if issparse(p):", "if not issparse(p):"), "expect-fail"),
    (C, "::permute", _PERMUTE, _PERMUTE.replace("_permute_sparse(p, dims, perm)", "_permute_sparse(p, perm, dims)"), "expect-fail"),
    (C, "::permute", _PERMUTE, _PERMUTE.replace("_permute_dense(p, dims, perm)", "_permute_dense(p, dims, dims)"), "expect-fail"),
    (C, "::permute", _PERMUTE, _PERMUTE.replace("return _permute_dense(", "return _permute_sparse("), "expect-fail"),
    (C, "::permute", _PERMUTE, _PERMUTE.replace("\n    return _permute_dense", "\n    else:\n        return _permute_dense"), "benign"),
    # ---- kronpow
    (C, "::kronpow", "    ops = (a,) * p\n", "    ops = (a,) * (p + 1)\n", "expect-fail"),
    (C, "::kronpow", "    ops = (a,) * p\n    return kron(*ops, **kron_opts)", "    ops = (a,) * p\n    return kron(*ops)", "expect-fail"),
    (C, "::kronpow", "    ops = (a,) * p\n    return kron(*ops, **kron_opts)", "    ops = (a,) * p\n    return kron(ops, **kron_opts)", "expect-fail"),
    (C, "::kronpow", "    ops = (a,) * p\n", "    ops = (p,) * p\n", "expect-fail"),
    (C, "::kronpow", "    ops = (a,) * p\n    return kron(*ops, **kron_opts)", "    return kron(*((a,) * p), **kron_opts)", "benign"),
    # ---- partial_trace (dispatch)
    (C, "::partial_trace", "    if ndim >= 2:\n        dims, keep = dim_map(dims, keep)", "    if ndim > 2:\n        dims, keep = dim_map(dims, keep)", "expect-fail"),
    (C, "::partial_trace", "    if ndim >= 2:\n        dims, keep = dim_map(dims, keep)", "    if ndim >= 2:\n        keep, dims = dim_map(dims, keep)", "expect-fail"),
    (C, "::partial_trace", "    if ndim >= 2:\n        dims, keep = dim_map(dims, keep)", "    if ndim >= 2:\n        dims, keep = dim_map(keep, dims)", "expect-fail"),
    (C, "::partial_trace", _PTR_TAIL, _PTR_TAIL.replace("if issparse(p):", "if not issparse(p):"), "expect-fail"),
    (C, "::partial_trace", _PTR_TAIL, _PTR_TAIL.replace("_partial_trace_dense(p, dims, keep)", "_partial_trace_dense(p, keep, dims)"), "expect-fail"),
    (C, "::partial_trace", "        ndim = len(_find_shape_of_nested_int_array(dims))\n", "        ndim = len(_find_shape_of_nested_int_array(dims)) - 1\n", "expect-fail"),
    (C, "::partial_trace", "    if ndim >= 2:\n        dims, keep = dim_map(dims, keep)", "    if ndim > 1:\n        dims, keep = dim_map(dims, keep)", "benign"),
    # ---- ind_complement
    (C, "::ind_complement", _IC, _IC.replace("range(n)", "range(n - 1)"), "expect-fail"),
    (C, "::ind_complement", _IC, _IC.replace("not in", "in"), "expect-fail"),
    (C, "::ind_complement", _IC, _IC.replace("range(n)", "range(1, n)"), "expect-fail"),
    (C, "::ind_complement", _IC, _IC.replace("tuple(i for", "tuple(i + 1 for"), "expect-fail"),
    (C, "::ind_complement", _IC, "    return tuple([i for i in range(n) if i not in inds])", "benign"),
    # ---- _trace_lose (slicing arithmetic)
    (C, "::_trace_lose", "i_f = e * b * (i // b) + (i % b) + (e - 1) * b + 1", "i_f = e * b * (i // b) + (i % b) + (e - 1) * b", "expect-fail"),
    (C, "::_trace_lose", "i_i = e * b * (i // b) + (i % b)\n", "i_i = e * (i // b) + (i % b)\n", "expect-fail"),
    (C, "::_trace_lose", "i_i = e * b * (i // b) + (i % b)\n", "i_i = e * b * (i % b) + (i // b)\n", "expect-fail"),
    (C, "::_trace_lose", "rhos[i, j] = trace(p[i_i:i_f:b, j_i:j_f:b])", "rhos[i, j] = trace(p[i_i:i_f:b, j_i:j_f])", "expect-fail"),
    (C, "::_trace_lose", "rhos[i, j] = trace(p[i_i:i_f:b, j_i:j_f:b])", "rhos[i, j] = trace(p[j_i:j_f:b, i_i:i_f:b])", "expect-fail"),
    (C, "::_trace_lose", "rhos[i, j] = trace(p[i_i:i_f:b, j_i:j_f:b])\n            if j != i:\n                rhos[j, i] = rhos[i, j].conjugate()",
     "rhos[i, j] = trace(p[i_i:i_f:b, j_i:j_f:b])\n            if j != i:\n                rhos[j, i] = rhos[i, j]", "expect-fail"),
    (C, "::_trace_lose", "    e = dims[lose]\n    a = prod(dims[:lose])\n    b = prod(dims[lose + 1 :])", "    e = dims[lose]\n    a = prod(dims[:lose])\n    b = prod(dims[lose:])", "expect-fail"),
    (C, "::_trace_lose", "    e = dims[lose]\n    a = prod(dims[:lose])\n", "    e = dims[lose]\n    a = prod(dims[: lose + 1])\n", "expect-fail"),
    (C, "::_trace_lose", "j_f = e * b * (j // b) + (j % b) + (e - 1) * b + 1", "j_f = e * b * (j // b) + (j % b) + e * b + 1", "expect-fail"),
    (C, "::_trace_lose", "j_i = e * b * (j // b) + (j % b)\n", "j_i = e * b * (i // b) + (j % b)\n", "expect-fail"),
    (C, "::_trace_lose", "i_f = e * b * (i // b) + (i % b) + (e - 1) * b + 1", "i_f = i_i + (e - 1) * b + 1", "benign"),
    # ---- _trace_keep (slicing arithmetic)
    (C, "::_trace_keep", "i_f = b * i + s * b * k + b\n", "i_f = b * i + s * b * k + b - 1\n", "expect-fail"),
    (C, "::_trace_keep", "i_i = b * i + s * b * k\n", "i_i = b * i + b * k\n", "expect-fail"),
    (C, "::_trace_keep", "i_i = b * i + s * b * k\n", "i_i = s * i + s * b * k\n", "expect-fail"),
    (C, "::_trace_keep", "rhos[i, j] += trace(p[i_i:i_f, j_i:j_f])", "rhos[i, j] = trace(p[i_i:i_f, j_i:j_f])", "expect-fail"),
    (C, "::_trace_keep", "rhos[i, j] += trace(p[i_i:i_f, j_i:j_f])", "rhos[j, i] += trace(p[i_i:i_f, j_i:j_f])", "expect-fail"),
    (C, "::_trace_keep", "j_i = b * j + s * b * k\n", "j_i = b * i + s * b * k\n", "expect-fail"),
    (C, "::_trace_keep", "    s = dims[keep]\n    a = prod(dims[:keep])\n    b = prod(dims[keep + 1 :])", "    s = dims[keep]\n    a = prod(dims[:keep])\n    b = prod(dims[keep:])", "expect-fail"),
    (C, "::_trace_keep", "    s = dims[keep]\n    a = prod(dims[:keep])\n", "    s = dims[keep - 1]\n    a = prod(dims[:keep])\n", "expect-fail"),
    (C, "::_trace_keep", "j_f = b * j + s * b * k + b\n", "j_f = b * j + s * b * k + s\n", "expect-fail"),
    (C, "::_trace_keep", "i_f = b * i + s * b * k + b\n", "i_f = i_i + b\n", "benign"),
    # ---- grid provider: _permute_sparse / _permute_dense through permute
    (C, "grid:permute::grid-sparse", "(np.ones(oinds.size), (ninds, oinds))", "(np.ones(oinds.size), (oinds, ninds))", "expect-fail"),
    (C, "grid:permute::grid-sparse", "    new_dims = dims[perm]\n", "    new_dims = dims[np.argsort(perm)]\n", "expect-fail"),
    (C, "grid:permute::grid-sparse", "ninds = np.sum(ndim_stride * basis[:, perm], axis=1)", "ninds = np.sum(ndim_stride * basis[:, np.argsort(perm)], axis=1)", "expect-fail"),
    (C, "grid:permute::grid-sparse", "        return dot(a, dag(perm_mat))\n", "        return dot(a, perm_mat)\n", "expect-fail"),
    (C, "grid:permute::grid-sparse", "    coos = (tuple(range(dim)) for dim in dims)\n", "    coos = [tuple(range(dim)) for dim in dims]\n", "benign"),
    (C, "grid:permute::grid-dense", "        .transpose(perm)\n", "        .transpose(np.argsort(perm))\n", "expect-fail"),
    (C, "grid:permute::grid-dense", ".transpose([*perm, *(perm + len(dims))])", ".transpose([*perm, *(np.argsort(perm) + len(dims))])", "expect-fail"),
    (C, "grid:permute::grid-dense", ".reshape([1, d] if p.shape[0] == 1 else [d, 1])", ".reshape([d, 1] if p.shape[0] == 1 else [1, d])", "expect-fail"),
    # ---- grid provider: pkron end to end (the seeded-regression shape: perm vs inverse)
    (C, "grid:pkron::grid-", "    ip[p] = np.arange(n)\n", "    ip = np.asarray(p)\n", "expect-fail"),
    # ---- grid provider: itrace
    (C, "grid:itrace::grid", "mod2 = sum(x < axis2 for x in gone)", "mod2 = sum(x < axis1 for x in gone)", "expect-fail"),
    (C, "grid:itrace::grid", "gone |= {axis1, axis2}", "gone |= {axis1}", "expect-fail"),
    (C, "grid:itrace::grid", "a = np.trace(a, axis1=axis1 - mod1, axis2=axis2 - mod2)", "a = np.trace(a, axis1=axis1 - mod1, axis2=axis2 - mod1)", "expect-fail"),
    (C, "grid:itrace::grid", "mod1 = sum(x < axis1 for x in gone)", "mod1 = sum(x <= axis1 for x in gone)", "benign"),
    # ---- grid provider: _find_shape_of_nested_int_array
    (C, "grid:_find_shape_of_nested_int_array::grid", "        shape.append(len(sub_x))\n", "        shape.insert(0, len(sub_x))\n", "expect-fail"),
    (C, "grid:_find_shape_of_nested_int_array::grid", "    shape = [len(x)]\n    sub_x = x[0]\n", "    shape = [len(x[0])]\n    sub_x = x[0]\n", "expect-fail"),
    (C, "grid:_find_shape_of_nested_int_array::grid", "        shape.append(len(sub_x))\n        sub_x = sub_x[0]\n    return tuple(shape)", "        shape.append(len(sub_x))\n        sub_x = sub_x[0]\n    return tuple(shape[:-1])", "expect-fail"),
    (C, "grid:_find_shape_of_nested_int_array::grid", "    shape = [len(x)]\n    sub_x = x[0]\n", "    shape = [len(x)]\n    sub_x = x[-1]\n", "benign"),
    # ---- grid provider: _partial_trace_dense / _partial_trace_simple through partial_trace
    (C, "grid:partial_trace::grid-dense-op", "lose2 = tuple(ind + total_dims for ind in lose)", "lose2 = tuple(ind + total_dims - 1 for ind in lose)", "expect-fail"),
    (C, "grid:partial_trace::grid-dense-ket", "p = np.tensordot(p, p.conj(), (lose, lose))", "p = np.tensordot(p.conj(), p, (lose, lose))", "expect-fail"),
    (C, "grid:partial_trace::grid-dense", "    if isinstance(keep, Integral):\n        keep = (keep,)\n    if isvec(p):", "    if isinstance(keep, Integral):\n        keep = (keep + 1,)\n    if isvec(p):", "expect-fail"),
    (C, "grid:partial_trace::grid-csr", "    dims = (*dims[:lmax], *dims[lmax + 1 :])\n", "    dims = (*dims[:lmax], *dims[lmax:])\n", "expect-fail"),
    (C, "grid:partial_trace::grid-csr", "key=lambda ix: (ix[0] not in keep) * ix[1]", "key=lambda ix: (ix[0] in keep) * ix[1]", "expect-fail"),
    (C, "grid:partial_trace::grid-coo", 'if issparse(p) and p.format not in ("csr", "csc"):', 'if issparse(p) and p.format in ("csr", "csc"):', "expect-fail"),
    (C, "grid:_trace_lose::grid", "for j in range(i, a * b):", "for j in range(i + 1, a * b):", "expect-fail"),  # loop ranges: provider only
    (C, "grid:_trace_keep::grid", "            for k in range(a):\n                i_i = b * i", "            for k in range(a - 1):\n                i_i = b * i", "expect-fail"),
]

_BASE = {}


def run_mutant(tmp, relpath, suffix, old, new):
    if not suffix.startswith("grid:"):
        from vf.selftest import run_e1_mutant
        return run_e1_mutant(tmp, relpath, suffix, old, new)
    import contracts.c15_ext as X

    sel = suffix[len("grid:"):]
    root = os.environ.get("VERIF_REPO", "/repo")
    src = open(os.path.join(root, relpath)).read()
    if src.count(old) < 1:
        return "stale", "old text not found in the current source"
    dst = os.path.join(tmp, "c15x", relpath)
    os.makedirs(os.path.dirname(dst), exist_ok=True)
    open(dst, "w").write(src.replace(old, new, 1))
    try:
        if sel not in _BASE:
            _BASE[sel] = {o.id for o in X.provider_grid("quick", root=root, only=[sel]) if o.status != "discharged"}
        mut = X.provider_grid("quick", root=os.path.join(tmp, "c15x"), only=[sel])
    finally:
        os.remove(dst)
    if not mut:
        return "stale", f"no obligation id contains {sel!r}"
    newly = [o for o in mut if o.status == "failed" and o.id not in _BASE[sel]]
    if newly:
        return "failed", ", ".join(o.id.split("::", 1)[1] + " " + str(o.model.get("input", ""))[:60] for o in newly[:2])
    bad = [o for o in mut if o.status != "discharged"]
    if bad:
        return bad[0].status, bad[0].id
    return "discharged", ""
