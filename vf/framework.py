"""framework -- runs all engines for one property, matches known findings, writes evidence + replays."""

from __future__ import annotations

import hashlib
import importlib
import json
import multiprocessing as mp
import os
import re
import sys
import time

ROOT = os.path.dirname(os.path.dirname(os.path.abspath(__file__)))
sys.path.insert(0, ROOT)

from vf import pyvc, lemmas, rtc  # noqa: E402


def norm_oid(oid):
    """obligation id with line numbers removed (lines shift under harmless edits)"""
    return re.sub(r"@\d+", "@L", oid)  # ("@end" is kept as is)


class ObResult:
    """engine-independent obligation record (picklable)"""

    def __init__(self, id, kind, status, backend, solver_s, function=None, model=None, line=None, detail=None,
                 engine="E1"):
        self.id, self.kind, self.status, self.backend, self.solver_s = id, kind, status, backend, solver_s
        self.function, self.model, self.line, self.detail, self.engine = function, model, line, detail, engine

    def to_json(self):
        d = dict(id=self.id, kind=self.kind, status=self.status, backend=self.backend, solver_s=round(self.solver_s, 4),
                 engine=self.engine)
        for k in ("function", "model", "line", "detail"):
            if getattr(self, k) is not None:
                d[k] = getattr(self, k)
        return d


def _verify_target(target):
    con = pyvc.REGISTRY[target]
    try:
        rep = pyvc.verify(con)
    except Exception as e:  # noqa: the engine itself failed on this function: undecided, never a violation
        import traceback
        rep = pyvc.FunctionReport(target)
        rep.status = "unsupported"
        rep.detail = f"engine error: {type(e).__name__}: {e} :: {traceback.format_exc()[-300:]}"
    obs = [ObResult(o.oid, o.kind, o.status, o.backend, o.time, function=target, model=o.model, line=o.line)
           for o in rep.obligations]
    return rep.to_json(), obs


def _run_lemmas(prop):
    out = []
    for ob in lemmas.obligations(prop):
        pyvc.discharge(ob)
        out.append(ObResult(ob.oid, ob.kind, ob.status, ob.backend, ob.time, function=f"lemma:{prop}", model=ob.model))
    return out


def _pool_map(fn, items, procs):
    if not items:
        return []
    if procs <= 1 or len(items) == 1:
        return [fn(x) for x in items]
    ctx = mp.get_context("fork")
    with ctx.Pool(min(procs, len(items))) as pool:
        return pool.map(fn, items, chunksize=1)


class KnownFindings:
    def __init__(self, path):
        self.path = path
        try:
            with open(path) as f:
                self.entries = json.load(f)["findings"]
        except FileNotFoundError:
            self.entries = []
        d = os.path.join(os.path.dirname(path), "known_findings.d")
        if os.path.isdir(d):
            for fn in sorted(os.listdir(d)):
                if fn.endswith(".json"):
                    with open(os.path.join(d, fn)) as f:
                        self.entries.extend(json.load(f)["findings"])

    def match(self, prop, vid):
        for e in self.entries:
            if e["property"] != prop or e.get("status") != "open":
                continue
            if re.search(e["match"], vid):
                return e
        return None


class PropertyRun:
    def __init__(self, mod, tier, seed):
        self.mod = mod
        self.prop = mod.PROP
        self.tier = tier
        self.seed = seed
        self.t0 = time.time()
        self.fn_reports = []
        self.obs = []  # ObResult
        self.bounded = []
        self.violations = []  # dicts: id, kind, detail, replay
        self.notes = []

    # ------------------------------------------------------------------ engines
    def run_e1(self):
        targets = list(getattr(self.mod, "E1", []))
        procs = int(os.environ.get("VERIF_PROCS", "14"))
        res = _pool_map(_verify_target, targets, procs)
        for rep, obs in res:
            self.fn_reports.append(rep)
            self.obs.extend(obs)
        if getattr(self.mod, "LEMMAS", False):
            self.obs.extend(_run_lemmas(self.prop))

    def run_extra(self):
        """E2 / E4 / fdx obligation providers: callables returning lists of ObResult"""
        for prov in getattr(self.mod, "PROVIDERS", []):
            try:
                self.obs.extend(prov(self.tier))
            except Exception as e:  # provider crashed: undecided, never a violation
                import traceback

                self.notes.append(f"provider {prov.__name__} crashed: {type(e).__name__}: {e}")
                self.obs.append(ObResult(f"{prov.__name__}::provider", "provider", "unknown", None, 0.0,
                                         detail=traceback.format_exc()[-800:], engine="?"))

    def run_e3(self, only=None):
        self.bounded = rtc.run_drivers(self.prop, self.tier, self.seed, only=only)

    # ------------------------------------------------------------------ verdict
    def finish(self):
        kf = KnownFindings(os.path.join(ROOT, "known_findings.json"))
        os.makedirs(os.path.join(ROOT, "replays"), exist_ok=True)
        for fn in os.listdir(os.path.join(ROOT, "replays")):
            if fn.startswith(self.prop + "-"):
                os.remove(os.path.join(ROOT, "replays", fn))
        os.makedirs(os.path.join(ROOT, "evidence"), exist_ok=True)
        known_lines = []
        viol_lines = []
        runtime_viol = [v for r in self.bounded for v in r.get("violations", [])]
        # obligation failures, grouped per function (one replay file / VIOLATION line per function)
        groups = {}
        for o in self.obs:
            if o.status != "failed":
                continue
            vid = norm_oid(o.id)
            e = kf.match(self.prop, vid)
            if e:
                known_lines.append((e["id"], e["what"]))
                continue
            groups.setdefault(o.function or o.id, []).append(o)
        for fn, obs in groups.items():
            rp = self.write_replay_ob(obs, runtime_viol)
            viol_lines.append((fn, rp))
        # run-time contract failures, grouped per contract
        rgroups = {}
        for v in runtime_viol:
            vid = "runtime:" + v["contract"] + "|" + json.dumps(v["params"], sort_keys=True, default=str)
            e = kf.match(self.prop, vid)
            if e:
                known_lines.append((e["id"], e["what"]))
                continue
            rgroups.setdefault((v["driver"], v["contract"]), []).append(v)
        for key, vs in rgroups.items():
            rp = self.write_replay_rt(vs)
            viol_lines.append(("runtime:" + key[1], rp))
        seen = set()
        for kid, what in known_lines:
            if kid in seen:
                continue
            seen.add(kid)
            print(f"KNOWN-FINDING: property={self.prop} {kid}: {what}")
        undecided = [o for o in self.obs if o.status == "unknown"]
        fallback = [r for r in self.fn_reports if r["status"] != "ok"]
        for r in fallback:
            print(f"NOTE property={self.prop} contract-not-applicable function={r['function']} status={r['status']} "
                  f"({r['detail'][:160]}) -> decided by the bounded stand-in only")
        for o in undecided:
            print(f"UNDECIDED property={self.prop} obligation={o.id} -> decided by the bounded stand-in only")
        inconcl = [m for r in self.bounded for m in r.get("inconclusive", [])] + \
                  [f"driver error in {r['driver']}[{r['chunk']}]: {r['driver_error'][:300]}" for r in self.bounded
                   if r.get("driver_error")]
        for m in inconcl:
            print(f"INCONCLUSIVE property={self.prop} {m}")
        transient = [t for r in self.bounded for t in r.get("transient", [])]
        for t in transient[:5]:
            print(f"NOTE property={self.prop} transient infrastructure error retried and passed: {t['contract'][:80]} "
                  f"{json.dumps(t['params'], default=str)[:120]} ({t['first_error'][:120]})")
        if transient:
            self.notes.append(f"{len(transient)} case(s) hit a numba infrastructure error (cache race) that did not "
                              f"reproduce on an immediate retry; first: {transient[0]['first_error'][:200]}")
        # de-duplicate violation lines per replay file
        printed = set()
        for vid, (rp, suffix) in viol_lines:
            if rp in printed:
                continue
            printed.add(rp)
            print(f"VIOLATION property={self.prop} replay={rp}" + (f" {suffix}" if suffix else ""))
        if not getattr(self, "partial", False):  # a partial run (--only-e1) must not overwrite the evidence file
            self.write_evidence(len(printed), known_lines, undecided, fallback, inconcl)
        nob = len(self.obs)
        ndis = sum(1 for o in self.obs if o.status == "discharged")
        nev = sum(r.get("evaluations", 0) for r in self.bounded)
        print(f"SUMMARY property={self.prop} tier={self.tier} obligations={nob} discharged={ndis} "
              f"bounded_evaluations={nev} violations={len(printed)} known={len(seen)} wall={time.time() - self.t0:.1f}s")
        # vacuity: nothing checked at all is a checker failure, not a pass
        if nob == 0 and nev == 0:
            print(f"CHECKER-ERROR property={self.prop} no obligation generated and no contract evaluated")
            return 3
        return 1 if printed else 0

    def write_replay_ob(self, obs, runtime_viol):
        o = obs[0]
        slug = hashlib.sha256((o.function or o.id).encode()).hexdigest()[:10]
        path = os.path.join("replays", f"{self.prop}-ob-{slug}.json")
        rec = dict(kind="obligation", property=self.prop, obligation=o.id, function=o.function, line=o.line,
                   engine=o.engine, backend=o.backend, solver_output="sat (negated goal satisfiable)", model=o.model,
                   detail=o.detail, all_failed_obligations=[x.to_json() for x in obs])
        suffix = "no-failing-input-found"
        # 0. a provider obligation (E2 / fdx / stride partition) that already carries a native replay of its counterexample
        for x in obs:
            nr = x.model.get("native_replay") if isinstance(x.model, dict) else None
            if isinstance(nr, dict) and nr.get("reproduced"):
                rec["native_replay"] = {"obligation": x.id, "result": nr}
                suffix = ""
                break
        # 1. contract-provided concretisation of the solver's model, replayed on the real code
        con = pyvc.REGISTRY.get(o.function) if o.function else None
        rp = getattr(con, "replay", None)
        if rp is not None and suffix:
            for x in obs:
                if not x.model:
                    continue
                try:
                    r = rtc.run_isolated(lambda x=x: rp(x.model), timeout=120)
                except Exception as e:  # noqa
                    r = ("exc", repr(e))
                rec.setdefault("native_replays", []).append({"obligation": x.id, "result": r})
                if (r[0] == "ok" and isinstance(r[1], dict) and r[1].get("reproduced")) or r[0] == "died":
                    rec["native_replay"] = {"obligation": x.id, "result": r}
                    suffix = ""
                    break
        # 2. a failing input found by the bounded run-time contracts of the same function
        if suffix:
            tags = set(getattr(con, "bounded", ()) or ())
            subs = list(getattr(self.mod, "BOUNDED_FOR", {}).get((o.function or "").split("::")[-1], ()))
            fname = (o.function or "").split("::")[-1].split(".")[-1]
            for v in runtime_viol:
                if v["driver"] in tags or (fname and fname.strip("_") in v["contract"]) or \
                        any(sub in v["contract"] for sub in subs):
                    rec["failing_input"] = v
                    suffix = ""
                    break
        with open(os.path.join(ROOT, path), "w") as f:
            json.dump(rec, f, indent=1, default=str)
        return path, suffix

    def write_replay_rt(self, vs):
        v = vs[0]
        slug = hashlib.sha256((v["driver"] + v["contract"]).encode()).hexdigest()[:10]
        path = os.path.join("replays", f"{self.prop}-rt-{slug}.json")
        rec = dict(kind="runtime", property=self.prop, failing_cases=len(vs), other_cases=[x["params"] for x in vs[1:20]], **v)
        with open(os.path.join(ROOT, path), "w") as f:
            json.dump(rec, f, indent=1, default=str)
        return path, ""

    def write_evidence(self, nviol, known_lines, undecided, fallback, inconcl):
        mod = self.mod
        nob = len(self.obs)
        ndis = sum(1 for o in self.obs if o.status == "discharged")
        known_ids = sorted({k for k, _ in known_lines})
        nev = sum(r.get("evaluations", 0) for r in self.bounded)
        nontriv = set()
        for r in self.bounded:
            nontriv.update(r.get("nontrivial", []))
        per_driver = {}
        for r in self.bounded:
            d = per_driver.setdefault(r["driver"], dict(evaluations=0, violations=0, rejections={}, contracts={},
                                                        wall_s=0.0, chunks=0))
            d["evaluations"] += r.get("evaluations", 0)
            d["violations"] += len(r.get("violations", []))
            d["wall_s"] = round(d["wall_s"] + r.get("wall", 0.0), 2)
            d["chunks"] += 1
            for k, n in r.get("rejections", {}).items():
                d["rejections"][k] = d["rejections"].get(k, 0) + n
            for k, n in r.get("contracts", {}).items():
                d["contracts"][k] = d["contracts"].get(k, 0) + n
        for (p, name), drv in rtc.DRIVERS.items():
            if p == self.prop and name in per_driver:
                per_driver[name]["bound"] = drv.bound
        samples = []
        for o in self.obs[:3]:
            samples.append({"obligation": o.id, "status": o.status, "backend": o.backend})
        for r in self.bounded:
            for s in r.get("samples", [])[:1]:
                if len(samples) < 8:
                    samples.append({"bounded_case": s})
        by_backend = {}
        for o in self.obs:
            if o.status == "discharged":
                by_backend[o.backend or "?"] = by_backend.get(o.backend or "?", 0) + 1
        level = mod.LEVEL
        cov = dict(
            obligations=nob, discharged=ndis,
            failed_known_findings=sum(1 for o in self.obs if o.status == "failed"),
            undecided=[o.id for o in undecided],
            discharged_by_backend=by_backend,
            solver_s=round(sum(o.solver_s for o in self.obs), 3),
            checker_cmd=f"./check {self.prop} --tier {self.tier}",
            trusted_base=list(getattr(mod, "TRUSTED", [])),
            functions_under_contract=self.fn_reports,
            functions_fallen_back_to_bounded=[r["function"] for r in fallback],
            other_obligation_sources=sorted({o.function for o in self.obs if o.engine != "E1" and o.function}),
            evaluations=max(nev, 0) + nob,
            distinct_nontrivial=len(nontriv) + ndis,
            rule=("obligations: one SMT/CAS/finite-domain query per (function, path, clause) generated from the "
                  "current /repo source; bounded cases: deterministic grids and seeded random inputs per driver, "
                  "a case is non-trivial when the real function was executed and its postcondition evaluated "
                  "against the independent reference; distinct by sha256 of (contract, parameters). "
                  "distinct_nontrivial = distinct bounded cases + discharged obligations."),
            bounded=dict(label="bounded stand-in (run-time contracts on the real functions); never counted as proved",
                         evaluations=nev, distinct_nontrivial=len(nontriv), drivers=per_driver,
                         inconclusive=inconcl),
            samples=samples or [{"note": "no samples"}],
            explanation=getattr(mod, "EXPLANATION", ""),
            known_findings_reproduced=known_ids,
            exhaustive=False,
            notes=self.notes,
        )
        ev = dict(property_id=self.prop, tier=self.tier, seed=self.seed, level=level, coverage=cov,
                  assumptions=list(getattr(mod, "ASSUMPTIONS", [])) + COMMON_ASSUMPTIONS,
                  wall_s=round(time.time() - self.t0, 2), violations=nviol)
        with open(os.path.join(ROOT, "evidence", f"{self.prop}.json"), "w") as f:
            json.dump(ev, f, indent=1, default=str)


COMMON_ASSUMPTIONS = [
    "E1: CPython ast + the symbolic executor's reading of the Python subset (guarded by mutants/selftest, not proved)",
    "E1: Python ints mathematical; floats interpreted over the reals (no rounding, NaN, inf); integer-valued floats "
    "identified with ints; numba-compiled code behaves as the Python text it was compiled from",
    "E1: extraction drops decorators (@njit, @functools.wraps, ...), docstrings, annotations, comments",
    "SMT back ends (z3 5.1 / z3 4.8.12 / cvc5) are sound; 'unsat' from any one is accepted",
    "E3 is a bounded stand-in on a stated input domain: it is labelled bounded and never counted as proved",
]


def load_prop(pid):
    """property module (drivers + metadata) merged with the E1/E2/E4 index (contracts/index.py)"""
    mod = importlib.import_module(f"props.{pid}")
    try:
        index = importlib.import_module("contracts.index")
    except ModuleNotFoundError:
        return mod
    extra = index.load(pid)
    if extra:
        for k in ("E1", "PROVIDERS", "TRUSTED", "ASSUMPTIONS"):
            cur = list(getattr(mod, k, []))
            for x in extra.get(k, []):
                if x not in cur:
                    cur.append(x)
            setattr(mod, k, cur)
        if extra.get("LEMMAS"):
            mod.LEMMAS = True
        bf = dict(getattr(mod, "BOUNDED_FOR", {}))
        bf.update(extra.get("BOUNDED_FOR", {}))
        mod.BOUNDED_FOR = bf
        lv = getattr(index, "level_of", lambda p: None)(pid)
        if lv:
            mod.LEVEL = lv[0]
        if extra.get("EXPLANATION"):
            mod.EXPLANATION = extra["EXPLANATION"] + " || bounded part: " + getattr(mod, "EXPLANATION", "")
    return mod


def main(argv=None):
    import argparse

    ap = argparse.ArgumentParser()
    ap.add_argument("prop")
    ap.add_argument("--tier", default=os.environ.get("VERIF_TIER", "quick"), choices=["quick", "thorough"])
    ap.add_argument("--replay")
    ap.add_argument("--only-e1", action="store_true")
    a = ap.parse_args(argv)
    seed = int(os.environ.get("VERIF_SEED", "0") or 0)
    os.chdir(ROOT)
    if a.replay:
        return replay(a.prop, a.replay, seed)
    mod = load_prop(a.prop)
    run = PropertyRun(mod, a.tier, seed)
    run.run_e1()
    run.run_extra()
    if not a.only_e1:
        run.run_e3()
    else:
        run.partial = True
    if os.environ.get("VERIF_REPO") and os.path.realpath(os.environ["VERIF_REPO"]) != os.path.realpath("/repo"):
        # a run against another checkout (seed evaluation, mutants): its results must not replace the evidence of /repo
        run.partial = True
    return run.finish()


def replay(pid, path, seed):
    with open(path) as f:
        rec = json.load(f)
    mod = load_prop(pid)
    if rec["kind"] == "obligation":
        if rec.get("engine", "E1") == "E1" and rec.get("function") in pyvc.REGISTRY:
            rep, obs = _verify_target(rec["function"])
            hit = [o for o in obs if norm_oid(o.id) == norm_oid(rec["obligation"])]
            for o in hit:
                print(f"obligation {o.id}: {o.status} model={o.model}")
            bad = [o for o in hit if o.status == "failed"]
            if bad:
                print(f"VIOLATION property={pid} replay={path}")
                return 1
            print("obligation no longer fails" if hit else "obligation not generated on this tree")
            return 0
        run = PropertyRun(mod, "quick", seed)
        run.run_e1()
        run.run_extra()
        bad = [o for o in run.obs if norm_oid(o.id) == norm_oid(rec["obligation"]) and o.status == "failed"]
        if bad:
            print(f"VIOLATION property={pid} replay={path}")
            return 1
        print("obligation no longer fails")
        return 0
    only = dict(driver=rec["driver"], chunk=rec["chunk"], key=rec["key"])
    res = rtc.run_drivers(pid, rec.get("tier", "quick"), rec.get("seed", seed), only=only)
    v = [x for r in res for x in r.get("violations", [])]
    for x in v:
        print("reproduced:", json.dumps(x, default=str)[:1500])
    if v:
        print(f"VIOLATION property={pid} replay={path}")
        return 1
    print("case did not reproduce (evaluations: %d)" % sum(r.get("evaluations", 0) for r in res))
    return 0


if __name__ == "__main__":
    sys.exit(main())
