"""pure lemma obligations (no code): name -> (assumptions, goal).  Discharged like any other obligation.
Lemmas justify the instances that contracts add as assumptions inside function proofs."""

from vf.pyvc import Obligation, discharge

LEMMAS = {}


def lemma(prop, name):
    def deco(f):
        LEMMAS[(prop, name)] = f
        return f

    return deco


def obligations(prop):
    out = []
    for (p, name), f in sorted(LEMMAS.items()):
        if p != prop:
            continue
        assumptions, goal = f()
        out.append(Obligation(f"lemma:{prop}", name, "lemma", 0, assumptions, goal, key=("lemma", prop, name, ())))
    return out
