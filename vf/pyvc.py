"""pyvc -- verification-condition generation from the *real* Python source, discharged by SMT.

E1 of DESIGN.md.  A contract (sidecar, /verif/contracts) names a function in /repo by
``file::qualname``.  On every run the source file is re-read, the FunctionDef located with ``ast``
and its body executed symbolically, path by path (decision-replay DFS).  Loops are cut by the
invariants given in the contract (keyed by syntactic ordinal + header text), calls are replaced by
the callee's contract (assert requires / havoc / assume ensures).  Every obligation is a small SMT
query  (path condition /\\ assumptions) => goal.

What the extraction drops: decorators, docstrings, annotations, comments.  Python ints are
mathematical, floats are reals, integer-valued floats are identified with ints.
"""

from __future__ import annotations

import ast
import fractions
import hashlib
import os
import subprocess
import time

import z3

REPO = os.environ.get("VERIF_REPO", "/repo")

V = z3.DeclareSort("V")  # opaque python values / array elements


class Unsupported(Exception):
    """construct outside the supported subset -> checker cannot apply (never a violation)"""


class ContractMismatch(Exception):
    """the sidecar contract no longer matches the code structure (loop header changed, ...)"""


class PyRaise(Exception):
    """a python exception raised by the code under symbolic execution"""

    def __init__(self, name, line=None):
        super().__init__(name)
        self.name = name
        self.line = line


class PathEnd(Exception):
    """the current symbolic path is finished (loop body end, infeasible, ...)"""


# --------------------------------------------------------------------------------------
# values
# --------------------------------------------------------------------------------------


class Opaque:
    """an unknown python value; only equality (through its V-constant) is known"""

    def __init__(self, z, note=""):
        self.z = z
        self.note = note

    def __repr__(self):
        return f"Opaque({self.z})"


class Ref:
    """reference to a heap object"""

    def __init__(self, oid, kind):
        self.oid = oid
        self.kind = kind

    def __repr__(self):
        return f"Ref({self.kind}#{self.oid})"

    def __eq__(self, o):
        return isinstance(o, Ref) and o.oid == self.oid

    def __hash__(self):
        return hash(("Ref", self.oid))


class Arr:
    """numpy-like array value.  ``a`` is a (nested) z3 array Int->...->elem, ``shape`` a tuple of ints"""

    def __init__(self, a, shape, elem=None):
        self.a = a
        self.shape = tuple(shape)

    @property
    def ndim(self):
        return len(self.shape)

    def elem_sort(self):
        so = self.a.sort()
        for _ in self.shape:
            so = so.range()
        return so

    def get(self, idx):
        t = self.a
        for i in idx:
            t = z3.Select(t, i)
        return t

    def set(self, idx, v):
        def rec(t, k):
            if k == len(idx) - 1:
                return z3.Store(t, idx[k], v)
            return z3.Store(t, idx[k], rec(z3.Select(t, idx[k]), k + 1))

        return Arr(rec(self.a, 0), self.shape)


class StarArg:
    """`*x` where x is a collection of symbolic length (kept as one marker argument)"""

    def __init__(self, value):
        self.value = value


class KeysView(tuple):
    """`d.keys()` of a dict with concrete keys: a tuple for iteration / len / membership, but == / != between two key
    views is python's set-like comparison (key order does not matter)"""


class SymIter:
    """an iterable of symbolic length: item getter by position (0-based)"""

    def __init__(self, length, getter):
        self.length, self.getter = length, getter


class NS:
    """attribute-style namespace"""

    def __init__(self, d=None, **kw):
        self.__dict__.update(d or {})
        self.__dict__.update(kw)

    def __getitem__(self, k):
        return self.__dict__[k]

    def __contains__(self, k):
        return k in self.__dict__

    def get(self, k, default=None):
        return self.__dict__.get(k, default)


def is_z3(v):
    return isinstance(v, z3.ExprRef)


def is_val(v):
    return is_z3(v) and v.sort() == V


_num2val_i = z3.Function("val_of_int", z3.IntSort(), V)
_num2val_r = z3.Function("val_of_real", z3.RealSort(), V)


def as_val(v):
    if is_val(v):
        return v
    v = Z(v)
    if z3.is_bool(v):
        v = I(v)
    return _num2val_i(v) if z3.is_int(v) else _num2val_r(v)


def is_int(v):
    return (isinstance(v, int) and not isinstance(v, bool)) or (is_z3(v) and z3.is_int(v))


def is_real(v):
    return isinstance(v, (float, fractions.Fraction)) or (is_z3(v) and z3.is_real(v))


def is_num(v):
    return is_int(v) or is_real(v) or isinstance(v, bool)


def is_bool(v):
    return isinstance(v, bool) or (is_z3(v) and z3.is_bool(v))


def Z(v):
    """python / z3 value -> z3 term"""
    if is_z3(v):
        return v
    if isinstance(v, bool):
        return z3.BoolVal(v)
    if isinstance(v, int):
        return z3.IntVal(v)
    if isinstance(v, float):
        return z3.RealVal(str(fractions.Fraction(v)))
    if isinstance(v, fractions.Fraction):
        return z3.RealVal(str(v))
    if isinstance(v, Opaque):
        return v.z
    raise Unsupported(f"cannot convert {v!r} to a term")


def R(v):
    v = Z(v)
    if z3.is_int(v):
        return z3.ToReal(v)
    if z3.is_bool(v):
        return z3.If(v, z3.RealVal(1), z3.RealVal(0))
    return v


def I(v):
    v = Z(v)
    if z3.is_bool(v):
        return z3.If(v, z3.IntVal(1), z3.IntVal(0))
    return v


def And(*xs):
    xs = [x for x in xs if x is not True]
    if any(x is False for x in xs):
        return z3.BoolVal(False)
    return z3.And(*[Z(x) for x in xs]) if xs else z3.BoolVal(True)


def Or(*xs):
    xs = [x for x in xs if x is not False]
    if any(x is True for x in xs):
        return z3.BoolVal(True)
    return z3.Or(*[Z(x) for x in xs]) if xs else z3.BoolVal(False)


def Not(x):
    if isinstance(x, bool):
        return not x
    return z3.Not(x)


def Implies(a, b):
    return z3.Implies(Z(a), Z(b))


def If(c, a, b):
    if isinstance(c, bool):
        return a if c else b
    a, b = Z(a), Z(b)
    if a.sort() != b.sort():
        a, b = R(a), R(b)
    return z3.If(c, a, b)


def Min(a, b):
    return If(num_cmp("<=", a, b), a, b)


def Max(a, b):
    return If(num_cmp(">=", a, b), a, b)


def num_coerce(a, b):
    a, b = Z(a), Z(b)
    if z3.is_bool(a):
        a = I(a)
    if z3.is_bool(b):
        b = I(b)
    if a.sort() != b.sort():
        a, b = R(a), R(b)
    return a, b


def num_cmp(op, a, b):
    if not is_z3(a) and not is_z3(b):
        return {"<": a < b, "<=": a <= b, ">": a > b, ">=": a >= b, "==": a == b, "!=": a != b}[op]
    a, b = num_coerce(a, b)
    return {"<": a < b, "<=": a <= b, ">": a > b, ">=": a >= b, "==": a == b, "!=": a != b}[op]


def floordiv(a, b):
    """python floor division on mathematical ints (b != 0 is a separate safety obligation)"""
    a, b = Z(a), Z(b)
    # z3 int div: a = b*q + r with 0 <= r < |b|  (euclidean).  python: r has the sign of b.
    q = a / b
    r = a % b
    return z3.If(b > 0, q, z3.If(r == 0, q, q - 1)), z3.If(b > 0, r, z3.If(r == 0, r, r + b))


# --------------------------------------------------------------------------------------
# obligations and solving
# --------------------------------------------------------------------------------------


class Obligation:
    def __init__(self, fn, label, kind, line, assumptions, goal, case="", key=None, note=""):
        self.fn = fn
        self.label = label
        self.kind = kind
        self.line = line
        self.assumptions = list(assumptions)
        self.goal = goal
        self.case = case
        self.key = key
        self.note = note
        self.status = None  # discharged | failed | unknown
        self.backend = None
        self.time = 0.0
        self.model = None

    @property
    def oid(self):
        c = f"[{self.case}]" if self.case else ""
        p = "".join("T" if d else "F" for d in (self.key[3] if self.key else ()))
        return f"{self.fn}{c}::{self.label}" + (f"#{p}" if p else "")

    def to_json(self):
        d = dict(id=self.oid, kind=self.kind, line=self.line, status=self.status, backend=self.backend,
                 solver_s=round(self.time, 4))
        if self.model is not None:
            d["model"] = self.model
        return d


Z3_TIMEOUT_MS = int(os.environ.get("VERIF_Z3_TIMEOUT_MS", "20000"))


def _model_to_json(m):
    out = {}
    try:
        for d in m.decls():
            if d.arity() == 0:
                out[d.name()] = str(m[d])
    except Exception as e:  # pragma: no cover
        out["_error"] = repr(e)
    return out


def _external(smt2, which, timeout_s):
    try:
        if which == "cvc5":
            cmd = ["/usr/bin/cvc5", "--lang=smt2", f"--tlimit={int(timeout_s * 1000)}", "-"]
        else:
            cmd = ["/usr/bin/z3", "-in", f"-T:{int(timeout_s)}"]
        p = subprocess.run(cmd, input=smt2, capture_output=True, text=True, timeout=timeout_s + 5)
        out = p.stdout.strip().splitlines()
        return out[0].strip() if out else "unknown"
    except Exception:
        return "unknown"


def discharge(ob, timeout_ms=None, portfolio=True):
    """decide one obligation.  unsat => discharged, sat => failed (model kept), else unknown"""
    timeout_ms = timeout_ms or Z3_TIMEOUT_MS
    t0 = time.time()
    goal = Z(ob.goal)
    s = z3.Solver()
    s.set("timeout", timeout_ms)
    for a in ob.assumptions:
        s.add(Z(a))
    s.add(z3.Not(goal))
    r = s.check()
    ob.backend = "z3-" + z3.get_version_string()
    if r == z3.unknown and portfolio:
        # second opinion: a tactic based z3 run, then external solvers on the SMT-LIB dump
        try:
            t = z3.Then("simplify", "solve-eqs", "smt").solver()
            t.set("timeout", timeout_ms)
            t.add(s.assertions())
            r2 = t.check()
            if r2 != z3.unknown:
                r = r2
                s = t
                ob.backend += "(tactic)"
        except z3.Z3Exception:
            pass
    if r == z3.unknown and portfolio:
        smt2 = s.to_smt2()
        for which in ("cvc5", "z3-4.8.12"):
            res = _external(smt2, which, max(5, timeout_ms / 1000))
            if res in ("unsat", "sat"):
                ob.backend = which
                r = z3.unsat if res == "unsat" else z3.sat
                if res == "sat":
                    ob.model = {"_note": f"sat reported by {which}; no model extracted"}
                break
    ob.time = time.time() - t0
    if r == z3.unsat:
        ob.status = "discharged"
    elif r == z3.sat:
        ob.status = "failed"
        if ob.model is None:
            try:
                ob.model = _model_to_json(s.model())
            except z3.Z3Exception:
                ob.model = {}
    else:
        ob.status = "unknown"
    return ob


_HQ = {}


def has_quantifier(e):
    k = e.get_id()
    if k in _HQ:
        return _HQ[k]
    r = False
    seen = set()
    stack = [e]
    while stack:
        x = stack.pop()
        if x.get_id() in seen:
            continue
        seen.add(x.get_id())
        if z3.is_quantifier(x):
            r = True
            break
        stack.extend(x.children())
    _HQ[k] = r
    return r


def feasible(assumptions, timeout_ms=3000):
    """satisfiability of a path condition.  Quantified assumptions are left out (over-approximation: a
    path is only pruned when it is infeasible even without them)"""
    s = z3.Solver()
    s.set("timeout", timeout_ms)
    for a in assumptions:
        a = Z(a)
        if has_quantifier(a):
            continue
        s.add(a)
    r = s.check()
    return r  # z3.sat / unsat / unknown


# --------------------------------------------------------------------------------------
# contracts
# --------------------------------------------------------------------------------------


class Loop:
    def __init__(self, header, inv, decreases=None, havoc_heap=True, extra_modifies=(), retype=None, facts=None):
        self.facts = facts  # callable(v) -> list of instances of *definitional* axioms of spec functions (assumed)
        self.retype = retype or {}  # name -> callable(cx) giving the havoc'd value (when a local changes kind)
        self.header = header  # expected ast.unparse of the loop header (None: do not check)
        self.inv = inv  # callable(v) -> dict label -> z3 bool   (v: namespace of locals + .old + .cx)
        self.decreases = decreases
        self.havoc_heap = havoc_heap
        self.extra_modifies = tuple(extra_modifies)


class Contract:
    """sidecar contract for one real function.  Subclass and fill in."""

    target = None  # "quimb/core.py::threading_choose_num_blocks"
    property_ids = ()
    loops = {}
    floor = 1  # minimum number of obligations expected
    safety = True  # emit div-zero / index obligations
    raises = {}  # exception name -> callable(a) -> condition under which raising is allowed (or True)
    dead_ok = ()  # line texts of branches allowed to be unreachable
    drops = "decorators, docstring, annotations"

    def cases(self):
        return [NS(name="")]

    def inputs(self, cx, case):
        raise NotImplementedError

    def requires(self, a, case):
        return {}

    def ensures(self, a, result, cx, case):
        return {}

    def ensures_raise(self, a, exc, cx, case):
        """obligations when the function raises ``exc``; default: raising allowed iff listed in raises"""
        if exc in self.raises:
            c = self.raises[exc]
            return {f"raise-{exc}-allowed": True if c is True else c(a)}
        return {f"no-raise-{exc}": False}

    # hooks -----------------------------------------------------------------------
    def call(self, cx, name, args, kwargs, node):
        """model a call the engine does not know. return NotImplemented to signal unsupported"""
        return NotImplemented

    def attr(self, cx, base, attr, node):
        return NotImplemented

    # use as callee ------------------------------------------------------------------
    def fresh_result(self, cx, a, case):
        raise Unsupported(f"{self.target}: no fresh_result for use as callee")

    def case_of_call(self, cx, a):
        return self.cases()[0]

    def modifies(self, a, case):
        """heap frame: list of (Ref, [field names]) the function may modify"""
        return []

    def apply(self, cx, a, node, case=None):
        """call-site use: assert requires, havoc the frame, make a fresh result, assume ensures"""
        case = case or self.case_of_call(cx, a)
        name = self.target.split("::")[-1]
        for lab, c in self.requires(a, case).items():
            cx.oblige(f"call-pre@{node.lineno}:{name}:{lab}", "call-pre", c, node.lineno)
        pre = {k: dict(v) for k, v in cx.heap.items()}
        for ref, fields in self.modifies(a, case):
            for f in fields:
                cx.heap[ref.oid][f] = cx.havoc_value(cx.heap[ref.oid][f], f"{f}#{ref.oid}")
        res = self.fresh_result(cx, a, case)
        saved = cx.pre_heap
        cx.pre_heap = pre
        try:
            for lab, c in self.ensures(a, res, cx, case).items():
                cx.assume(c)
        finally:
            cx.pre_heap = saved
        return res


REGISTRY = {}
REGISTRY_BY_NAME = {}


def register(cls):
    inst = cls()
    REGISTRY[inst.target] = inst
    qual = inst.target.split("::")[-1]
    if "." not in qual:
        REGISTRY_BY_NAME[qual] = inst  # module level function: callable by bare name
    return cls


# --------------------------------------------------------------------------------------
# source access
# --------------------------------------------------------------------------------------

_SRC_CACHE = {}


def load_function(target):
    path, qual = target.split("::")
    full = os.path.join(REPO, path)
    if full not in _SRC_CACHE:
        with open(full) as f:
            src = f.read()
        _SRC_CACHE[full] = (src, ast.parse(src))
    src, tree = _SRC_CACHE[full]
    node = tree
    parts = qual.split(".")
    for part in parts:
        found = None
        for ch in ast.iter_child_nodes(node):
            if isinstance(ch, (ast.FunctionDef, ast.ClassDef, ast.AsyncFunctionDef)) and ch.name == part:
                found = ch  # last definition wins, as in python
        if found is None and len(parts) == 2 and part == parts[1]:
            # the method may live in another class of the module (class placement is incidental): accept it
            # if exactly one class of the file defines it
            cands = [m for c in ast.iter_child_nodes(tree) if isinstance(c, ast.ClassDef)
                     for m in ast.iter_child_nodes(c) if isinstance(m, ast.FunctionDef) and m.name == part]
            if len(cands) == 1:
                found = cands[0]
        if found is None:
            raise ContractMismatch(f"{target}: definition not found")
        node = found
    if not isinstance(node, ast.FunctionDef):
        raise ContractMismatch(f"{target}: not a function")
    seg = ast.get_source_segment(src, node)
    return node, seg, hashlib.sha256(seg.encode()).hexdigest()[:16]


def loops_of(fn):
    """syntactic (pre-order) list of loops in a function body, not descending into nested defs"""
    out = []

    def rec(n):
        for ch in ast.iter_child_nodes(n):
            if isinstance(ch, (ast.FunctionDef, ast.Lambda, ast.ClassDef)):
                continue
            if isinstance(ch, (ast.For, ast.While)):
                out.append(ch)
            rec(ch)

    rec(fn)
    return out


def loop_header(node):
    if isinstance(node, ast.For):
        return f"for {ast.unparse(node.target)} in {ast.unparse(node.iter)}"
    return f"while {ast.unparse(node.test)}"


def loaded_names(nodes):
    names = set()
    for n in nodes:
        for x in ast.walk(n):
            if isinstance(x, ast.Name) and isinstance(x.ctx, ast.Load):
                names.add(x.id)
    return names


def assigned_names(nodes):
    names = set()
    for n in nodes:
        for x in ast.walk(n):
            if isinstance(x, ast.Name) and isinstance(x.ctx, (ast.Store, ast.Del)):
                names.add(x.id)
            elif isinstance(x, (ast.Subscript, ast.Attribute)) and isinstance(x.ctx, ast.Store):
                b = x
                while isinstance(b, (ast.Subscript, ast.Attribute)):
                    b = b.value
                if isinstance(b, ast.Name):
                    names.add(b.id)
            elif isinstance(x, ast.AugAssign):
                b = x.target
                while isinstance(b, (ast.Subscript, ast.Attribute)):
                    b = b.value
                if isinstance(b, ast.Name):
                    names.add(b.id)
    return names


# --------------------------------------------------------------------------------------
# the symbolic executor (one path per run, decisions replayed)
# --------------------------------------------------------------------------------------


class Ctx:
    def __init__(self, contract, case, prefix, fn_node, collector):
        self.contract = contract
        self.case = case
        self.prefix = tuple(prefix)
        self.taken = []
        self.new_prefixes = []
        self.pc = []
        self.env = {}
        self.heap = {}
        self.ghost = {}
        self.fresh_ctr = {}
        self.fn_node = fn_node
        self.collector = collector
        self.loops = loops_of(fn_node)
        self.fname = contract.target
        self.old = None
        self.unreachable = []
        self.events = []  # ghost trace usable by contracts
        self.notes = []
        self.pre_heap = None  # heap snapshot that `old(...)` refers to while evaluating an ensures clause

    # ---- fresh symbols (deterministic names across re-executions)
    def _name(self, base):
        k = self.fresh_ctr.get(base, 0)
        self.fresh_ctr[base] = k + 1
        return base if k == 0 else f"{base}!{k}"

    def Int(self, base):
        return z3.Int(self._name(base))

    def Real(self, base):
        return z3.Real(self._name(base))

    def Bool(self, base):
        return z3.Bool(self._name(base))

    def Val(self, base):
        return z3.Const(self._name(base), V)

    def Opaque(self, base, note=""):
        return Opaque(self.Val(base), note)

    def Array(self, base, *sorts):
        so = sorts[-1]
        for s in reversed(sorts[:-1]):
            so = z3.ArraySort(s, so)
        return z3.Const(self._name(base), so)

    def new_obj(self, kind, **fields):
        oid = len(self.heap) + 1
        self.heap[oid] = dict(fields)
        return Ref(oid, kind)

    def fields(self, ref):
        return self.heap[ref.oid]

    def pre(self, ref):
        """fields of ref in the pre-state of the contract currently being evaluated"""
        return self.pre_heap[ref.oid]

    # ---- assumptions / obligations
    def assume(self, c):
        if c is True:
            return
        self.pc.append(Z(c))

    def oblige(self, label, kind, goal, line, note=""):
        # the same (label, decisions) emitted again on the SAME path (unrolled loop, comprehension, repeated call
        # site with no fork in between) is a different obligation: it used to be dropped by the collector's
        # de-duplication; it now gets the suffix ~2, ~3, ... (first occurrence keeps its id)
        seen = self.__dict__.setdefault("_ob_seen", {})
        k = seen[(label, tuple(self.taken))] = seen.get((label, tuple(self.taken)), 0) + 1
        if k > 1:
            label = f"{label}~{k}"
        key = (self.fname, self.case.name, label, tuple(self.taken))
        self.collector.add(
            Obligation(self.fname, label, kind, line, list(self.pc), Z(goal), case=self.case.name, key=key,
                       note=note)
        )

    def decide(self, cond, line=None):
        """fork on a condition.  returns the python bool taken on this path"""
        if isinstance(cond, bool):
            return cond
        cond = z3.simplify(Z(cond))
        if z3.is_true(cond):
            return True
        if z3.is_false(cond):
            return False
        k = len(self.taken)
        if k < len(self.prefix):
            d = self.prefix[k]
        else:
            ft = feasible(self.pc + [cond])
            ff = feasible(self.pc + [z3.Not(cond)])
            if ft == z3.unsat and ff == z3.unsat:
                raise PathEnd("infeasible")
            if ft == z3.unsat:
                d = False
                self.unreachable.append((line, "true-branch"))
            elif ff == z3.unsat:
                d = True
                self.unreachable.append((line, "false-branch"))
            else:
                d = True
                self.new_prefixes.append(tuple(self.taken) + (False,))
        self.taken.append(d)
        self.pc.append(cond if d else z3.Not(cond))
        return d

    # ---- truthiness
    def truth(self, v):
        if isinstance(v, bool):
            return v
        if v is None:
            return False
        if isinstance(v, (int, float)):
            return v != 0
        if isinstance(v, (str, tuple, list, dict)):
            return len(v) > 0
        if is_z3(v):
            if z3.is_bool(v):
                return v
            if z3.is_int(v) or z3.is_real(v):
                return v != 0
        if isinstance(v, Ref):
            return True
        if hasattr(v, "truth"):
            return v.truth
        raise Unsupported(f"truthiness of {v!r}")

    # ---- expressions ---------------------------------------------------------------
    def ev(self, n):
        m = getattr(self, "ev_" + type(n).__name__, None)
        if m is None:
            raise Unsupported(f"expression {type(n).__name__} at line {getattr(n, 'lineno', '?')}")
        return m(n)

    def ev_Constant(self, n):
        return n.value

    def ev_Name(self, n):
        if n.id in self.env:
            return self.env[n.id]
        r = self.contract.attr(self, None, n.id, n)
        if r is not NotImplemented:
            return r
        raise Unsupported(f"unknown name {n.id!r} at line {n.lineno}")

    def ev_Tuple(self, n):
        out = []
        for e in n.elts:
            if isinstance(e, ast.Starred):
                v = self.ev(e.value)
                if not isinstance(v, (tuple, list)):
                    # a sequence value of the contract's own (e.g. symbolic length): let the contract build the
                    # value of the whole display from its parts ("item", v) / ("star", v)
                    parts = [("item", x) for x in out] + [("star", v)]
                    for e2 in n.elts[[id(x) for x in n.elts].index(id(e)) + 1:]:
                        parts.append(("star", self.ev(e2.value)) if isinstance(e2, ast.Starred) else ("item", self.ev(e2)))
                    r = self.contract.call(self, "__tuple__", [parts], {}, n)
                    if r is NotImplemented:
                        raise Unsupported(f"starred non-tuple at line {n.lineno}")
                    return r
                out.extend(v)
            else:
                out.append(self.ev(e))
        return tuple(out)

    def ev_List(self, n):
        r = self.ev_Tuple(n)
        return list(r) if isinstance(r, (tuple, list)) else r  # a contract's own sequence value (hook __tuple__) is kept

    def ev_Dict(self, n):
        # optional hook ``on_dict(cx, node)``: a contract may give a dict display (e.g. one with a symbolic key) its
        # own abstract map value; contracts without the hook are unaffected
        hook = getattr(self.contract, "on_dict", None)
        if hook is not None:
            r = hook(self, n)
            if r is not NotImplemented:
                return r
        d = {}
        for k, v in zip(n.keys, n.values):
            if k is None:
                vv = self.ev(v)
                if not isinstance(vv, dict):
                    raise Unsupported("** of non-dict")
                d.update(vv)
                continue
            kk = self.ev(k)
            if is_z3(kk):
                raise Unsupported("symbolic dict key")
            d[kk] = self.ev(v)
        return d

    def ev_Set(self, n):
        # set display of concrete hashable elements ({"LR", "RL"}): the value is the tuple of the distinct elements in
        # first-occurrence order (as for set comprehensions: code only tests membership / iterates)
        out = []
        for e in n.elts:
            if isinstance(e, ast.Starred):
                raise Unsupported(f"starred element in a set display at line {n.lineno}")
            v = self.ev(e)
            if is_z3(v) or isinstance(v, (Opaque, Ref, Arr)) or (isinstance(v, tuple) and any(is_z3(x) for x in v)):
                raise Unsupported(f"symbolic element in a set display at line {n.lineno}")
            if v not in out:
                out.append(v)
        return tuple(out)

    def ev_IfExp(self, n):
        c = self.truth(self.ev(n.test))
        if isinstance(c, bool):
            return self.ev(n.body if c else n.orelse)
        if self.decide(c, n.lineno):
            return self.ev(n.body)
        return self.ev(n.orelse)

    def ev_UnaryOp(self, n):
        v = self.ev(n.operand)
        if isinstance(n.op, ast.Not):
            return Not(self.truth(v))
        if isinstance(n.op, ast.USub):
            if not is_num(v):
                r = self.contract.call(self, "__binop__", ["Sub", 0, v], {}, n)
                if r is not NotImplemented:
                    return r
                raise Unsupported(f"unary minus on {v!r}")
            return -v if not is_z3(v) or not z3.is_bool(v) else -I(v)
        if isinstance(n.op, ast.UAdd):
            return v
        raise Unsupported(f"unary {type(n.op).__name__}")

    def ev_BoolOp(self, n):
        # short circuit; operands may have side effects / be non-boolean -> fork
        isand = isinstance(n.op, ast.And)
        val = None
        for i, e in enumerate(n.values):
            val = self.ev(e)
            if i == len(n.values) - 1:
                return val
            t = self.truth(val)
            if isinstance(t, bool):
                d = t
            else:
                d = self.decide(t, n.lineno)
                val = d  # value known on this path
            if isand and not d:
                return val if not isinstance(val, bool) or True else val
            if (not isand) and d:
                return val
        return val

    def ev_Compare(self, n):
        left = self.ev(n.left)
        res = True
        for op, rn in zip(n.ops, n.comparators):
            right = self.ev(rn)
            c = self.compare(op, left, right, n)
            if len(n.ops) == 1 and not isinstance(c, bool) and not is_z3(c):
                return c  # non-scalar result of a single comparison (mask object made by a ``__cmp__`` hook)
            res = And(res, c) if not (isinstance(res, bool) and isinstance(c, bool)) else (res and c)
            left = right
        return res

    def compare(self, op, a, b, n):
        if isinstance(op, (ast.Is, ast.IsNot)):
            if a is None or b is None:
                r = a is None and b is None
            elif isinstance(a, bool) or isinstance(b, bool):
                if is_z3(a) or is_z3(b):
                    aa, bb = Z(a), Z(b)
                    r = (aa == bb) if aa.sort() == bb.sort() else False
                else:
                    r = a is b
            elif isinstance(a, Ref) and isinstance(b, Ref):
                r = a.oid == b.oid
            elif isinstance(a, str) or isinstance(b, str):
                r = a == b if (isinstance(a, str) and isinstance(b, str)) else False
            elif not is_z3(a) and not is_z3(b) and not isinstance(a, Opaque) and not isinstance(b, Opaque):
                r = a is b  # python level sentinels (builtins, Ellipsis, ...)
            elif (isinstance(a, Opaque) and not is_z3(b) and not isinstance(b, Opaque)) or \
                    (isinstance(b, Opaque) and not is_z3(a) and not isinstance(a, Opaque)):
                r = False  # an opaque value is, by kind enumeration, none of the python-level sentinels
            elif isinstance(a, Opaque) and isinstance(b, Opaque):
                r = a.z == b.z  # two unknown values: identity is as unknown as their equality (was: unsupported)
            else:
                raise Unsupported(f"'is' on {a!r}, {b!r} at line {n.lineno}")
            return r if isinstance(op, ast.Is) else Not(r)
        if isinstance(op, (ast.In, ast.NotIn)):
            r = self.contains(b, a, n)
            return r if isinstance(op, ast.In) else Not(r)
        sym = {ast.Lt: "<", ast.LtE: "<=", ast.Gt: ">", ast.GtE: ">=", ast.Eq: "==", ast.NotEq: "!="}[type(op)]
        return self.cmp_values(sym, a, b, n)

    def cmp_values(self, sym, a, b, n=None):
        if sym in ("==", "!="):
            r = self.eq_values(a, b)
            return r if sym == "==" else Not(r)
        if isinstance(a, tuple) and isinstance(b, tuple):
            # lexicographic
            if sym in ("<", "<="):
                return self.lex_lt(a, b, sym == "<=")
            return self.lex_lt(b, a, sym == ">=")
        if is_num(a) and is_num(b):
            return num_cmp(sym, a, b)
        # ordering comparison on non-scalars (numpy-like ``s > cutoff`` giving a mask): contract hook
        r = self.contract.call(self, "__cmp__", [sym, a, b], {}, n)
        if r is not NotImplemented:
            return r
        raise Unsupported(f"comparison {sym} on {a!r}, {b!r}")

    def lex_lt(self, a, b, orequal):
        if not a or not b:
            return (len(a) <= len(b)) if orequal else (len(a) < len(b))
        return Or(num_cmp("<", a[0], b[0]), And(num_cmp("==", a[0], b[0]), self.lex_lt(a[1:], b[1:], orequal)))

    def eq_values(self, a, b):
        if a is None or b is None:
            return a is None and b is None
        if isinstance(a, KeysView) and isinstance(b, KeysView):
            return set(a) == set(b)
        if isinstance(a, (tuple, list)) and isinstance(b, (tuple, list)):
            if len(a) != len(b) or type(a) is not type(b):
                return False
            return And(*[self.eq_values(x, y) for x, y in zip(a, b)])
        if isinstance(a, (tuple, list)) or isinstance(b, (tuple, list)):
            return False
        if isinstance(a, str) or isinstance(b, str):
            if isinstance(a, str) and isinstance(b, str):
                return a == b
            if isinstance(a, Opaque) or isinstance(b, Opaque):
                raise Unsupported("string vs opaque equality")
            return False
        if isinstance(a, Ref) or isinstance(b, Ref):
            return isinstance(a, Ref) and isinstance(b, Ref) and a.oid == b.oid
        if isinstance(a, Opaque) and isinstance(b, Opaque):
            return a.z == b.z
        if is_num(a) and is_num(b):
            return num_cmp("==", a, b)
        r = self.contract.call(self, "__eq__", [a, b], {}, None)
        if r is not NotImplemented:
            return r
        raise Unsupported(f"equality on {a!r}, {b!r}")

    def contains(self, container, x, n):
        if isinstance(container, (tuple, list)):
            return Or(*[self.eq_values(x, e) for e in container])
        if isinstance(container, dict):
            if is_z3(x):
                raise Unsupported("symbolic key membership")
            return x in container
        if isinstance(container, str) and isinstance(x, str):
            return x in container
        r = self.contract.call(self, "__contains__", [container, x], {}, n)
        if r is not NotImplemented:
            return r
        raise Unsupported(f"'in' on {container!r} at line {n.lineno}")

    def ev_BinOp(self, n):
        a = self.ev(n.left)
        b = self.ev(n.right)
        return self.binop(n.op, a, b, n)

    def binop(self, op, a, b, n):
        line = getattr(n, "lineno", 0)
        if isinstance(op, ast.Add) and isinstance(a, (tuple, list, str)) and type(a) is type(b):
            return a + b
        if isinstance(op, ast.Mult) and isinstance(a, (tuple, list)) and isinstance(b, int):
            return a * b
        if isinstance(op, ast.Mod) and isinstance(a, str):
            return self.Opaque("fmt")
        if not (is_num(a) and is_num(b)):
            r = self.contract.call(self, "__binop__", [type(op).__name__, a, b], {}, n)
            if r is not NotImplemented:
                return r
            if (is_val(a) or is_val(b)) and (is_val(a) or is_num(a)) and (is_val(b) or is_num(b)):
                # arithmetic on opaque scalars: an uninterpreted function of the operands (same term for
                # every schedule / path, no float reasoning)
                return self.uf("v" + type(op).__name__, [as_val(a), as_val(b)])
            raise Unsupported(f"binop {type(op).__name__} on {a!r}, {b!r} at line {line}")
        conc = not is_z3(a) and not is_z3(b)
        if isinstance(op, ast.Add):
            return a + b if conc else (lambda x: x[0] + x[1])(num_coerce(a, b))
        if isinstance(op, ast.Sub):
            return a - b if conc else (lambda x: x[0] - x[1])(num_coerce(a, b))
        if isinstance(op, ast.Mult):
            if is_z3(a) and is_z3(b) and getattr(self.contract, "nonlinear_hooks", False):
                # optional hook: a contract may abstract a product of two symbolic terms (keeps queries linear)
                r = self.contract.call(self, "__nlmul__", [a, b], {}, n)
                if r is not NotImplemented:
                    return r
            return a * b if conc else (lambda x: x[0] * x[1])(num_coerce(a, b))
        if isinstance(op, ast.Div):
            if self.contract.safety:
                self.oblige(f"divzero@{line}", "safety", num_cmp("!=", b, 0), line)
            if conc:
                return fractions.Fraction(a) / fractions.Fraction(b)
            return R(a) / R(b)
        if isinstance(op, (ast.FloorDiv, ast.Mod)):
            if self.contract.safety:
                self.oblige(f"divzero@{line}", "safety", num_cmp("!=", b, 0), line)
            if conc:
                return a // b if isinstance(op, ast.FloorDiv) else a % b
            if not (is_int(a) and is_int(b)):
                raise Unsupported(f"floor division on reals at line {line}")
            if is_z3(b) and getattr(self.contract, "nonlinear_hooks", False):
                # optional hook: division by a symbolic divisor modelled by the contract -> (quotient, remainder)
                qr = self.contract.call(self, "__nldivmod__", [a, b], {}, n)
                if qr is not NotImplemented:
                    return qr[0] if isinstance(op, ast.FloorDiv) else qr[1]
            q, r = floordiv(a, b)
            return q if isinstance(op, ast.FloorDiv) else r
        if isinstance(op, ast.Pow):
            if conc:
                return a**b
            if isinstance(b, int) and 0 <= b <= 4:
                r = 1
                for _ in range(b):
                    r = r * Z(a)
                return r
            r = self.contract.call(self, "__pow__", [a, b], {}, n)
            if r is not NotImplemented:
                return r
            raise Unsupported(f"symbolic power at line {line}")
        if isinstance(op, (ast.LShift, ast.RShift, ast.BitAnd, ast.BitOr, ast.BitXor)):
            if conc:
                return {ast.LShift: a << b, ast.RShift: a >> b, ast.BitAnd: a & b, ast.BitOr: a | b,
                        ast.BitXor: a ^ b}[type(op)]
            r = self.contract.call(self, "__bitop__", [type(op).__name__, a, b], {}, n)
            if r is not NotImplemented:
                return r
            raise Unsupported(f"bit operation at line {line}")
        raise Unsupported(f"binop {type(op).__name__}")

    def ev_Attribute(self, n):
        base = self.ev(n.value)
        if isinstance(base, Ref):
            f = self.heap[base.oid]
            if n.attr in f:
                return f[n.attr]
        if isinstance(base, Arr):
            if n.attr == "size":
                r = 1
                for s in base.shape:
                    r = r * s
                return r
            if n.attr == "shape":
                return base.shape
            if n.attr == "ndim":
                return base.ndim
        if isinstance(base, NS) and n.attr in base:
            return base[n.attr]
        r = self.contract.attr(self, base, n.attr, n)
        if r is not NotImplemented:
            return r
        raise Unsupported(f"attribute .{n.attr} of {base!r} at line {n.lineno}")

    def ev_Subscript(self, n):
        base = self.ev(n.value)
        if isinstance(n.slice, ast.Slice):
            lo = self.ev(n.slice.lower) if n.slice.lower else None
            hi = self.ev(n.slice.upper) if n.slice.upper else None
            st = self.ev(n.slice.step) if n.slice.step else None
            if isinstance(base, (tuple, list, str)) and all(x is None or isinstance(x, int) for x in (lo, hi, st)):
                return base[lo:hi:st]
            r = self.contract.call(self, "__getslice__", [base, lo, hi, st], {}, n)
            if r is not NotImplemented:
                return r
            raise Unsupported(f"slice at line {n.lineno}")
        idx = self.ev(n.slice)
        return self.getitem(base, idx, n)

    def getitem(self, base, idx, n):
        line = getattr(n, "lineno", 0)
        if isinstance(base, (tuple, list)):
            if isinstance(idx, int):
                if not -len(base) <= idx < len(base):
                    raise PyRaise("IndexError", line)  # what python does (was: engine crash reported as mismatch)
                return base[idx]
            if is_z3(idx) and base and all(is_num(x) for x in base):
                if self.contract.safety:
                    self.oblige(f"index@{line}", "safety", And(idx >= -len(base), idx < len(base)), line)
                r = Z(base[-1])
                for k in range(len(base) - 2, -1, -1):
                    r = If(Or(idx == k, idx == k - len(base)), base[k], r)
                return r
            raise Unsupported(f"symbolic index into tuple at line {line}")
        if isinstance(base, dict):
            if is_z3(idx):
                raise Unsupported("symbolic dict key")
            if idx not in base:
                raise PyRaise("KeyError", line)
            return base[idx]
        if isinstance(base, Arr):
            if not isinstance(idx, tuple):
                idx = (idx,)
            if len(idx) != base.ndim:
                raise Unsupported(f"partial index at line {line}")
            if self.contract.safety:
                for k, (i, s) in enumerate(zip(idx, base.shape)):
                    # negative indices wrap in numpy; the kernels never intend that: require 0 <= i < s
                    self.oblige(f"index@{line}:ax{k}", "safety", And(num_cmp(">=", i, 0), num_cmp("<", i, s)), line)
            hook = getattr(self.contract, "on_read", None)
            if hook is not None:
                hook(self, n, base, idx)
            return base.get([I(i) for i in idx])
        r = self.contract.call(self, "__getitem__", [base, idx], {}, n)
        if r is not NotImplemented:
            return r
        raise Unsupported(f"subscript of {base!r} at line {line}")

    def ev_Yield(self, n):
        # generator functions: the sequence of yielded values is collected per path in ``cx.yielded`` (the
        # contract's ensures reads it at the end of the path; generators under contract have no side effects, so
        # lazy and eager evaluation agree).  A contract may intercept with ``on_yield(cx, value, node)``.
        v = self.ev(n.value) if n.value is not None else None
        hook = getattr(self.contract, "on_yield", None)
        if hook is not None and hook(self, v, n) is not NotImplemented:
            return None
        if not hasattr(self, "yielded"):
            self.yielded = []
        self.yielded.append(v)
        return None

    def ev_YieldFrom(self, n):
        # ``yield from <iterable>``: the delegated iterable (a callee generator's result value, a sequence) is
        # evaluated -- all effects of producing it happen here, as for ev_Yield generators under contract have none
        # while iterating -- and recorded as ONE entry ("yield-from", value) of ``cx.yielded``
        v = self.ev(n.value)
        if not hasattr(self, "yielded"):
            self.yielded = []
        self.yielded.append(("yield-from", v))
        return None

    def ev_Slice(self, n):
        return slice(self.ev(n.lower) if n.lower else None, self.ev(n.upper) if n.upper else None,
                     self.ev(n.step) if n.step else None)

    def ev_JoinedStr(self, n):
        # optional hook ``on_fstring(cx, node)``: a contract whose domain gives f-strings a meaning (label calculus:
        # generated index ids) evaluates the parts itself; contracts without the hook are unaffected
        hook = getattr(self.contract, "on_fstring", None)
        if hook is not None:
            r = hook(self, n)
            if r is not NotImplemented:
                return r
        return self.Opaque("fstr")

    def ev_Lambda(self, n):
        return ("lambda", n, dict(self.env))

    def apply_lambda(self, lam, args):
        """apply a lambda value (closure over the environment at its creation) to positional arguments"""
        _, n, env = lam
        params = [a.arg for a in n.args.args]
        if len(params) != len(args):
            raise PyRaise("TypeError", n.lineno)
        saved = self.env
        self.env = dict(env)
        self.env.update(zip(params, args))
        try:
            return self.ev(n.body)
        finally:
            self.env = saved

    def ev_GeneratorExp(self, n):
        try:
            return tuple(self.comprehension(n))
        except Unsupported:
            r = self.contract.call(self, "__genexp__", [n], {}, n)
            if r is not NotImplemented:
                return r
            raise

    def ev_ListComp(self, n):
        # optional hook ``on_listcomp(cx, node)``: a contract may give a list comprehension its own (abstract list) value,
        # e.g. a filter over a concrete tuple whose 2**len outcomes are irrelevant; contracts without the hook are unaffected
        hook = getattr(self.contract, "on_listcomp", None)
        if hook is not None:
            r = hook(self, n)
            if r is not NotImplemented:
                return r
        try:
            return list(self.comprehension(n))
        except Unsupported:
            r = self.contract.call(self, "__genexp__", [n], {}, n)
            if r is not NotImplemented:
                return r
            raise

    def ev_DictComp(self, n):
        # {k: v for target in <concrete iterable> [if ...]}: same restrictions as comprehension(); keys concrete
        # optional hook ``on_dictcomp(cx, node)``: a contract may give a dict comprehension over a collection of
        # symbolic size its own (abstract map) value; contracts without the hook are unaffected
        hook = getattr(self.contract, "on_dictcomp", None)
        if hook is not None:
            r = hook(self, n)
            if r is not NotImplemented:
                return r
        if len(n.generators) != 1:
            raise Unsupported("nested comprehension")
        g = n.generators[0]
        it = self.iter_concrete(self.ev(g.iter), n)
        out = {}
        saved = dict(self.env)
        for item in it:
            self.assign(g.target, item)
            ok = True
            for cond in g.ifs:
                t = self.truth(self.ev(cond))
                if not isinstance(t, bool):
                    t = self.decide(t, n.lineno)
                ok = ok and t
            if ok:
                k = self.ev(n.key)
                if is_z3(k):
                    raise Unsupported("symbolic dict key")
                out[k] = self.ev(n.value)
        self.env = saved
        return out

    def ev_SetComp(self, n):
        # {elt for t1 in <concrete> for t2 in <concrete> ...}: all generators over concrete iterables, concrete
        # (hashable, non-symbolic) elements; the value is a python list of the distinct elements in first-occurrence
        # order (contracts / code only ever sort it, test membership or iterate)
        out = []
        saved = dict(self.env)

        def rec(k):
            if k == len(n.generators):
                v = self.ev(n.elt)
                if is_z3(v) or (isinstance(v, tuple) and any(is_z3(x) for x in v)):
                    raise Unsupported("symbolic element in a set comprehension")
                if v not in out:
                    out.append(v)
                return
            g = n.generators[k]
            for item in self.iter_concrete(self.ev(g.iter), n):
                self.assign(g.target, item)
                ok = True
                for cond in g.ifs:
                    t = self.truth(self.ev(cond))
                    if not isinstance(t, bool):
                        t = self.decide(t, n.lineno)
                    ok = ok and t
                if ok:
                    rec(k + 1)

        try:
            rec(0)
        finally:
            self.env = saved
        return out

    def comprehension(self, n):
        if len(n.generators) != 1:
            raise Unsupported("nested comprehension")
        g = n.generators[0]
        it = self.iter_concrete(self.ev(g.iter), n)
        out = []
        saved = dict(self.env)
        for item in it:
            self.assign(g.target, item)
            ok = True
            for cond in g.ifs:
                t = self.truth(self.ev(cond))
                if not isinstance(t, bool):
                    t = self.decide(t, n.lineno)
                ok = ok and t
            if ok:
                out.append(self.ev(n.elt))
        self.env = saved
        return out

    def iter_concrete(self, v, n):
        if isinstance(v, tuple) and len(v) > 1 and isinstance(v[0], str) and v[0] == "range":
            # the marker bi_range returns for a range with symbolic bounds: not a concrete iteration space
            raise Unsupported(f"iteration over a symbolic range at line {getattr(n, 'lineno', '?')}")
        if isinstance(v, (tuple, list)):
            return list(v)
        if isinstance(v, dict):
            return list(v.keys())
        if isinstance(v, range):
            return list(v)
        if isinstance(v, str):
            return list(v)  # a concrete python string iterates over its characters (``for s in "xyz"``)
        raise Unsupported(f"iteration over symbolic-length value at line {getattr(n, 'lineno', '?')}")

    # ---- calls
    def ev_Call(self, n):
        fname = ast.unparse(n.func)
        if fname == "isinstance" and len(n.args) == 2:
            # the class expression is not evaluated: contracts decide on its text
            r = self.contract.call(self, "__isinstance__", [self.ev(n.args[0]), ast.unparse(n.args[1])], {}, n)
            if r is NotImplemented:
                raise Unsupported(f"isinstance(..., {ast.unparse(n.args[1])}) at line {n.lineno}")
            return r
        # evaluate arguments
        args = []
        for a in n.args:
            if isinstance(a, ast.Starred):
                v = self.ev(a.value)
                if not isinstance(v, (tuple, list)):
                    args.append(StarArg(v))  # a collection of symbolic length, passed on as one marker
                else:
                    args.extend(v)
            else:
                args.append(self.ev(a))
        kwargs = {}
        for k in n.keywords:
            if k.arg is None:
                v = self.ev(k.value)
                if not isinstance(v, dict):
                    raise Unsupported(f"**kwargs of unknown content at line {n.lineno}")
                kwargs.update(v)
            else:
                kwargs[k.arg] = self.ev(k.value)
        # contract hook first (lets a contract override builtins)
        r = self.contract.call(self, fname, args, kwargs, n)
        if r is not NotImplemented:
            return r
        b = getattr(self, "bi_" + fname.replace(".", "_"), None) if fname.replace(".", "_").isidentifier() else None
        if b is not None and (isinstance(n.func, ast.Name) or fname.split(".")[0] in ("np", "math")):
            return b(args, kwargs, n)
        if fname in REGISTRY_BY_NAME:
            return self.call_contract(REGISTRY_BY_NAME[fname], args, kwargs, n)
        # method on a heap object / receiver: "<expr>.name"
        if isinstance(n.func, ast.Attribute):
            recv = self.ev(n.func.value)
            r = self.contract.call(self, "." + n.func.attr, [recv] + args, kwargs, n)
            if r is not NotImplemented:
                return r
            if isinstance(recv, dict):
                if n.func.attr == "get":
                    k = args[0]
                    return recv.get(k, args[1] if len(args) > 1 else None)
                if n.func.attr == "copy":
                    return dict(recv)
                if n.func.attr == "keys":
                    return KeysView(recv.keys())  # iterates in insertion order, compares like a set (python's dict_keys)
                if n.func.attr in ("items", "keys", "values"):
                    return tuple(getattr(recv, n.func.attr)())
                if n.func.attr == "setdefault":
                    return recv.setdefault(args[0], args[1] if len(args) > 1 else None)
                if n.func.attr == "pop":
                    if args[0] in recv:
                        return recv.pop(args[0])
                    if len(args) > 1:
                        return args[1]
                    raise PyRaise("KeyError", n.lineno)
            if isinstance(recv, str) and n.func.attr in ("upper", "lower", "strip", "startswith", "endswith", "format",
                                                         "replace", "split", "join") \
                    and all(isinstance(x, (str, int, tuple)) for x in args) and not kwargs:
                return getattr(recv, n.func.attr)(*args)  # pure string method on concrete strings
            if isinstance(recv, list) and n.func.attr == "append":
                recv.append(args[0])
                return None
            if isinstance(recv, list) and n.func.attr == "insert" and len(args) == 2 and isinstance(args[0], int):
                recv.insert(args[0], args[1])
                return None
            if isinstance(recv, (tuple, list)) and n.func.attr == "index":
                for k, e in enumerate(recv):
                    c = self.eq_values(e, args[0])
                    if c is True or (not isinstance(c, bool) and self.decide(c, n.lineno)):
                        return k
                raise PyRaise("ValueError", n.lineno)
        # a lambda / local closure value being called
        try:
            fv = self.ev(n.func)
        except Unsupported:
            fv = None
        if isinstance(fv, tuple) and len(fv) == 3 and fv[0] == "lambda" and not kwargs:
            return self.apply_lambda(fv, args)
        raise Unsupported(f"call to {fname!r} at line {n.lineno}: no contract")

    def call_contract(self, callee, args, kwargs, n, recv=None):
        fn, _, _ = load_function(callee.target)
        a = bind_args(fn, args, kwargs, self, skip_self=recv is not None)
        if recv is not None:
            a.self = recv
        res = callee.apply(self, a, n)
        # arrays are values bound to names; a callee that writes into an array parameter publishes the new
        # value in a.__dict__["_out"] = {param: Arr}; rebind the caller's variable (or let the contract map a view back)
        outs = a.__dict__.get("_out") or {}
        if outs:
            params = [x.arg for x in fn.args.posonlyargs + fn.args.args]
            if recv is not None and params and params[0] in ("self", "cls"):
                params = params[1:]
            argnodes = {}
            for i, an in enumerate(n.args):
                if i < len(params) and not isinstance(an, ast.Starred):
                    argnodes[params[i]] = an
            for k in n.keywords:
                if k.arg:
                    argnodes[k.arg] = k.value
            for pname, newarr in outs.items():
                an = argnodes.get(pname)
                if isinstance(an, ast.Name):
                    self.env[an.id] = newarr
                else:
                    r = self.contract.call(self, "__writeback__", [an, newarr, a[pname]], {}, n)
                    if r is NotImplemented:
                        raise Unsupported(f"callee writes into argument {pname!r} that is not a plain variable (line {n.lineno})")
        return res

    # builtins ------------------------------------------------------------------------
    def bi_min(self, args, kw, n):
        if len(args) == 1:
            args = list(args[0])
        r = args[0]
        for x in args[1:]:
            r = Min(r, x)
        return r

    def bi_max(self, args, kw, n):
        if len(args) == 1:
            args = list(args[0])
        r = args[0]
        for x in args[1:]:
            r = Max(r, x)
        return r

    def bi_abs(self, args, kw, n):
        x = args[0]
        if not is_z3(x):
            return abs(x)
        return If(x >= 0, x, -x)

    def bi_len(self, args, kw, n):
        x = args[0]
        if isinstance(x, (tuple, list, dict, str)):
            return len(x)
        if isinstance(x, Arr):
            return x.shape[0]
        r = self.contract.call(self, "__len__", [x], {}, n)
        if r is not NotImplemented:
            return r
        raise Unsupported(f"len of {x!r}")

    def bi_divmod(self, args, kw, n):
        a, b = args
        line = n.lineno
        if self.contract.safety:
            self.oblige(f"divzero@{line}", "safety", num_cmp("!=", b, 0), line)
        if not is_z3(a) and not is_z3(b):
            return divmod(a, b)
        if not (is_int(a) and is_int(b)):
            raise Unsupported("divmod on reals")
        return floordiv(a, b)

    def bi_round(self, args, kw, n):
        x = args[0]
        if len(args) > 1:
            raise Unsupported("round with ndigits")
        if is_int(x):
            return x
        if not is_z3(x):
            return round(x)
        r = self.Int(f"round@{n.lineno}")
        # any nearest integer: sound over-approximation of round-half-even
        self.assume(And(R(r) - x <= z3.RealVal("1/2"), x - R(r) <= z3.RealVal("1/2")))
        return r

    def bi_np_ceil(self, args, kw, n):
        x = args[0]
        if is_int(x):
            return x
        r = self.Int(f"ceil@{n.lineno}")
        self.assume(And(R(r) >= R(x), R(r) - 1 < R(x)))
        return r

    bi_math_ceil = bi_np_ceil

    def bi_np_floor(self, args, kw, n):
        x = args[0]
        if is_int(x):
            return x
        r = self.Int(f"floor@{n.lineno}")
        self.assume(And(R(r) <= R(x), R(r) + 1 > R(x)))
        return r

    bi_math_floor = bi_np_floor

    def bi_int(self, args, kw, n):
        x = args[0]
        if is_int(x):
            return x
        if isinstance(x, bool):
            return int(x)
        if is_z3(x) and z3.is_bool(x):
            return I(x)
        if is_z3(x) and z3.is_real(x):
            # truncation toward zero
            r = self.Int(f"int@{n.lineno}")
            self.assume(If(x >= 0, And(R(r) <= x, R(r) + 1 > x), And(R(r) >= x, R(r) - 1 < x)))
            return r
        if isinstance(x, (float, fractions.Fraction)):
            return int(x)
        raise Unsupported(f"int() of {x!r}")

    def bi_float(self, args, kw, n):
        return args[0]

    def bi_bool(self, args, kw, n):
        return self.truth(args[0])

    def bi_tuple(self, args, kw, n):
        if not args:
            return ()
        return tuple(self.iter_concrete(args[0], n))

    def bi_list(self, args, kw, n):
        if not args:
            return []
        return list(self.iter_concrete(args[0], n))

    def bi_dict(self, args, kw, n):
        d = dict(args[0]) if args else {}
        d.update(kw)
        return d

    def bi_range(self, args, kw, n):
        if all(isinstance(a, int) for a in args):
            return range(*args)
        return ("range",) + tuple(args)

    def bi_enumerate(self, args, kw, n):
        if isinstance(args[0], Arr):
            return SymIter(args[0].shape[0], lambda t, a=args[0]: (t, a.get([t])))
        return tuple(enumerate(self.iter_concrete(args[0], n)))

    def bi_zip(self, args, kw, n):
        return tuple(zip(*[self.iter_concrete(a, n) for a in args]))

    def bi_reversed(self, args, kw, n):
        return tuple(reversed(self.iter_concrete(args[0], n)))

    def bi_sorted(self, args, kw, n):
        xs = self.iter_concrete(args[0], n)
        if all(not is_z3(x) for x in xs):
            return sorted(xs)
        if len(xs) == 2 and not kw:
            a, b = xs
            return [Min(a, b), Max(a, b)]
        raise Unsupported("sorted on symbolic values")

    def bi_sum(self, args, kw, n):
        xs = self.iter_concrete(args[0], n)
        r = args[1] if len(args) > 1 else 0
        for x in xs:
            r = self.binop(ast.Add(), r, x, n)
        return r

    def bi_all(self, args, kw, n):
        return And(*[self.truth(x) for x in self.iter_concrete(args[0], n)])

    def bi_any(self, args, kw, n):
        return Or(*[self.truth(x) for x in self.iter_concrete(args[0], n)])

    def bi_isinstance(self, args, kw, n):
        r = self.contract.call(self, "__isinstance__", args, kw, n)
        if r is not NotImplemented:
            return r
        raise Unsupported(f"isinstance at line {n.lineno}")

    def bi_print(self, args, kw, n):
        return None

    def bi_complex(self, args, kw, n):
        return self.uf("complex", args)

    def uf(self, name, args, sort=None):
        """application of an uninterpreted function symbol (same name+arity -> same symbol)"""
        zs = [Z(a) for a in args]
        f = z3.Function(name, *[z.sort() for z in zs], V if sort is None else sort)
        return f(*zs)

    # ---- statements -----------------------------------------------------------------
    def assign(self, target, val):
        if isinstance(target, ast.Name):
            self.env[target.id] = val
        elif isinstance(target, (ast.Tuple, ast.List)):
            if isinstance(val, Arr) and val.ndim == 1:
                raise Unsupported("unpacking array")
            if not isinstance(val, (tuple, list)):
                r = self.contract.call(self, "__unpack__", [val, len(target.elts)], {}, target)
                if r is NotImplemented:
                    raise Unsupported(f"unpacking {val!r} at line {target.lineno}")
                val = r
            stars = [k for k, t in enumerate(target.elts) if isinstance(t, ast.Starred)]
            if len(stars) == 1:
                # ``*head, x = seq`` : the starred name takes the list of the remaining items
                k, nt = stars[0], len(target.elts)
                if len(val) < nt - 1:
                    raise PyRaise("ValueError", target.lineno)
                nstar = len(val) - (nt - 1)
                val = list(val)
                for t, v in zip(target.elts[:k], val[:k]):
                    self.assign(t, v)
                self.assign(target.elts[k].value, list(val[k:k + nstar]))
                for t, v in zip(target.elts[k + 1:], val[k + nstar:]):
                    self.assign(t, v)
                return
            if len(val) != len(target.elts):
                raise PyRaise("ValueError", target.lineno)
            for t, v in zip(target.elts, val):
                self.assign(t, v)
        elif isinstance(target, ast.Subscript):
            base = self.ev(target.value)
            idx = self.ev(target.slice) if not isinstance(target.slice, ast.Slice) else None
            if isinstance(base, Arr) and idx is not None:
                if not isinstance(idx, tuple):
                    idx = (idx,)
                line = target.lineno
                if self.contract.safety:
                    for k, (i, s) in enumerate(zip(idx, base.shape)):
                        self.oblige(f"index@{line}:store:ax{k}", "safety",
                                    And(num_cmp(">=", i, 0), num_cmp("<", i, s)), line)
                hook = getattr(self.contract, "on_store", None)
                if hook is not None:
                    hook(self, target, base, idx, val)
                # (a bool stored into an integer array is 0 / 1, as in numpy)
                new = base.set([I(i) for i in idx], as_val(val) if base.elem_sort() == V else
                               (I(val) if base.elem_sort() == z3.IntSort() else Z(val)))
                if isinstance(target.value, ast.Name):
                    self.env[target.value.id] = new
                else:
                    raise Unsupported("store into non-name array")
            elif isinstance(base, dict) and idx is not None and not is_z3(idx):
                base[idx] = val
            elif isinstance(base, list) and isinstance(idx, int):
                base[idx] = val
            else:
                r = self.contract.call(self, "__setitem__", [base, idx, val], {}, target)
                if r is NotImplemented:
                    raise Unsupported(f"subscript store at line {target.lineno}")
        elif isinstance(target, ast.Attribute):
            base = self.ev(target.value)
            r = self.contract.call(self, "__setattr__", [base, target.attr, val], {}, target)
            if r is NotImplemented:
                if isinstance(base, Ref):
                    self.heap[base.oid][target.attr] = val
                else:
                    raise Unsupported(f"attribute store at line {target.lineno}")
        else:
            raise Unsupported(f"assignment target {type(target).__name__}")

    def block(self, stmts):
        for s in stmts:
            self.stmt(s)

    def stmt(self, s):
        m = getattr(self, "st_" + type(s).__name__, None)
        if m is None:
            raise Unsupported(f"statement {type(s).__name__} at line {s.lineno}")
        return m(s)

    def st_Pass(self, s):
        pass

    def st_ImportFrom(self, s):
        # function-level ``from x import f``: binds nothing in the symbolic environment -- a call to ``f`` is resolved
        # by its name like any module-level function (contract hook / registered contract), an unmodelled use of the
        # name still ends in Unsupported("unknown name")  (was: unsupported statement)
        pass

    st_Import = st_ImportFrom

    def st_Expr(self, s):
        if isinstance(s.value, ast.Constant):
            return
        self.ev(s.value)

    def st_Assign(self, s):
        v = self.ev(s.value)
        for t in s.targets:
            self.assign(t, v)

    def st_AnnAssign(self, s):
        if s.value is not None:
            self.assign(s.target, self.ev(s.value))

    def st_AugAssign(self, s):
        if isinstance(s.target, ast.Name):
            cur = self.ev(ast.Name(id=s.target.id, ctx=ast.Load(), lineno=s.lineno))
        else:
            load = type(s.target)(**{k: getattr(s.target, k) for k in s.target._fields})
            load.ctx = ast.Load()
            ast.copy_location(load, s.target)
            cur = self.ev(load)
        v = self.binop(s.op, cur, self.ev(s.value), s)
        self.assign(s.target, v)

    def st_If(self, s):
        c = self.truth(self.ev(s.test))
        if self.decide(c, s.lineno):
            self.block(s.body)
        else:
            self.block(s.orelse)

    def st_Return(self, s):
        raise _Return(self.ev(s.value) if s.value is not None else None, s.lineno)

    def st_Raise(self, s):
        name = "Exception"
        if s.exc is not None:
            e = s.exc
            if isinstance(e, ast.Call):
                e = e.func
            name = ast.unparse(e)
        raise PyRaise(name, s.lineno)

    def st_Assert(self, s):
        c = self.truth(self.ev(s.test))
        if not self.decide(c, s.lineno):
            raise PyRaise("AssertionError", s.lineno)

    def st_Break(self, s):
        raise _Break()

    def st_Continue(self, s):
        raise _Continue()

    def st_Try(self, s):
        try:
            self.block(s.body)
        except PyRaise as e:
            for h in s.handlers:
                names = []
                if h.type is None:
                    names = None
                elif isinstance(h.type, ast.Tuple):
                    names = [ast.unparse(x) for x in h.type.elts]
                else:
                    names = [ast.unparse(h.type)]
                if names is None or e.name in names or "Exception" in names:
                    self.block(h.body)
                    break
            else:
                raise
        else:
            self.block(s.orelse)
        if s.finalbody:
            self.block(s.finalbody)

    def st_Delete(self, s):
        for t in s.targets:
            if isinstance(t, ast.Name):
                self.env.pop(t.id, None)
            elif isinstance(t, ast.Subscript) and not isinstance(t.slice, ast.Slice):
                # ``del base[key]``: python dict with a concrete key, else the contract hook "__delitem__" [base, key]
                # (the hook raises PyRaise("KeyError") itself when the key is absent)
                base = self.ev(t.value)
                idx = self.ev(t.slice)
                if isinstance(base, dict) and not is_z3(idx):
                    if idx not in base:
                        raise PyRaise("KeyError", s.lineno)
                    del base[idx]
                    continue
                r = self.contract.call(self, "__delitem__", [base, idx], {}, s)
                if r is NotImplemented:
                    raise Unsupported(f"del of subscript at line {s.lineno}")
            else:
                raise Unsupported("del of non-name")

    def st_FunctionDef(self, s):
        # nested def: binds the name to a closure value ("def", node, env-at-definition); decorators are dropped
        # unless the contract interprets the definition itself (hook "__def__": args [name, node]).  Closures are
        # only ever *called* through a contract's call hook (see call_closure).
        r = self.contract.call(self, "__def__", [s.name, s], {}, s)
        if r is NotImplemented:
            r = ("def", s, dict(self.env))
        self.env[s.name] = r

    def call_closure(self, clo, args, kwargs=None):
        """execute the body of a nested def value inline (environment = the one captured at definition, updated
        with the bound arguments).  Loops inside the body must be unrollable (no invariants for nested defs)."""
        _, node, cenv = clo
        a = bind_args(node, list(args), dict(kwargs or {}), self)
        saved, saved_loops = self.env, self.loops
        self.env = dict(cenv)
        self.env.update(a.__dict__)
        self.loops = loops_of(node)
        self._closure_depth = getattr(self, "_closure_depth", 0) + 1
        try:
            self.block(node.body)
            return None
        except _Return as r:
            return r.value
        finally:
            self.env, self.loops = saved, saved_loops
            self._closure_depth -= 1

    def st_With(self, s):
        # context managers are treated as plain bindings (enter value = the context expression's value, no
        # exception handling on exit): progress bars and the like.  Contracts decide what the expression returns.
        for item in s.items:
            v = self.ev(item.context_expr)
            if item.optional_vars is not None:
                self.assign(item.optional_vars, v)
        self.block(s.body)

    # ---- loops
    def loop_spec(self, s):
        try:
            k = next(i for i, l in enumerate(self.loops) if l is s)
        except StopIteration:
            raise Unsupported("loop not found in syntactic list")
        if getattr(self, "_closure_depth", 0):
            return k, None  # loops inside nested defs carry no invariant: unrolled or unsupported
        spec = self.contract.loops.get(k)
        if callable(spec) and not isinstance(spec, Loop):
            spec = spec(self.case)
        return k, spec

    def ns(self, **extra):
        d = dict(self.env)
        d.update(extra)
        d["old"] = self.old
        d["cx"] = self
        d["case"] = self.case
        return NS(d)

    def check_inv(self, spec, k, stage, line, **extra):
        self.inv_mode = "check"  # lets an invariant skolemise its universal quantifiers when it is used as a goal
        try:
            inv = spec.inv(self.ns(**extra))
        except (KeyError, AttributeError) as e:
            raise ContractMismatch(f"{self.fname}: loop {k} invariant refers to unknown variable {e}")
        if spec.facts:
            for c in spec.facts(self.ns(**extra)):
                self.assume(c)
        for lab, c in inv.items():
            self.oblige(f"inv-{stage}@loop{k}:{lab}", "inv-" + stage, c, line)

    def assume_inv(self, spec, k, **extra):
        self.inv_mode = "assume"
        try:
            inv = spec.inv(self.ns(**extra))
            facts = spec.facts(self.ns(**extra)) if spec.facts else []
        except (KeyError, AttributeError) as e:
            raise ContractMismatch(f"{self.fname}: loop {k} invariant refers to unknown variable {e}")
        for lab, c in inv.items():
            self.assume(c)
        for c in facts:
            self.assume(c)

    def havoc(self, names, retype=None):
        for nm in sorted(names):
            if retype and nm in retype:
                self.env[nm] = retype[nm](self)
                continue
            if nm not in self.env:
                continue
            self.env[nm] = self.havoc_value(self.env[nm], nm)

    def havoc_value(self, v, nm):
        if isinstance(v, Arr):
            return Arr(z3.Const(self._name(nm), v.a.sort()), v.shape)
        if is_z3(v):
            return z3.Const(self._name(nm), v.sort())
        if isinstance(v, bool):
            return self.Bool(nm)
        if isinstance(v, int):
            return self.Int(nm)
        if isinstance(v, (float, fractions.Fraction)):
            return self.Real(nm)
        if isinstance(v, tuple):
            return tuple(self.havoc_value(x, f"{nm}.{i}") for i, x in enumerate(v))
        if isinstance(v, Opaque):
            return self.Opaque(nm)
        if isinstance(v, dict):
            # in place: the object identity (shared with the caller) is kept, the contents are arbitrary
            for k in list(v):
                v[k] = self.havoc_value(v[k], f"{nm}[{k}]")
            return v
        if v is None or isinstance(v, (str, Ref)):
            return v  # keeps its kind; contracts that change kinds in loops must say so
        raise Unsupported(f"cannot havoc {nm}={v!r}")

    def havoc_heap(self):
        hook = getattr(self.contract, "havoc_heap", None)
        if hook is not None:
            hook(self)
            return
        gf = getattr(self.contract, "ghost_fields", ())
        for oid, f in self.heap.items():
            for name in gf:
                if name in f:
                    f[name] = self.havoc_value(f[name], f"{name}#{oid}")

    def concrete_iter(self, it):
        if isinstance(it, (list, range)) or (isinstance(it, tuple) and not (it and isinstance(it[0], str) and it[0] == "range"
                                                                            and len(it) > 1 and any(is_z3(x) for x in it[1:]))):
            if isinstance(it, tuple) and it and isinstance(it[0], str) and it[0] == "range":
                return list(range(*it[1:]))
            return list(it)
        if isinstance(it, dict):
            return list(it)
        return None

    def st_For(self, s):
        if s.orelse:
            raise Unsupported("for-else")
        it = self.ev(s.iter)
        conc = self.concrete_iter(it)
        k, spec = self.loop_spec(s)
        if conc is not None and spec is None:
            # concrete iteration space: unroll
            for item in conc:
                self.assign(s.target, item)
                try:
                    self.block(s.body)
                except _Continue:
                    continue
                except _Break:
                    break
            return
        if spec is None:
            raise ContractMismatch(f"{self.fname}: loop {k} ({loop_header(s)}) has no invariant in the contract")
        if spec.header is not None and spec.header != loop_header(s):
            # a different iterable expression is not fatal: the invariant is keyed by ordinal and still has to hold
            # for the loop that is there.  A different loop KIND or loop variable means the code was restructured:
            # the invariant was written for another loop -> the contract cannot be applied (never a violation)
            hdr = spec.header.strip()
            try:  # the contract's spelling of the loop variable, normalised like the code's (``x, p`` == ``(x, p)``)
                want_target = ast.unparse(ast.parse(hdr.rstrip(":") + ":\n pass").body[0].target)
            except Exception:  # noqa
                want_target = hdr[4:].split(" in ")[0].strip() if hdr.startswith("for ") else None
            if not hdr.startswith("for ") or want_target != ast.unparse(s.target):
                raise ContractMismatch(f"{self.fname}: loop {k} was restructured: contract was written for "
                                       f"{spec.header!r}, code has {loop_header(s)!r}")
            self.notes.append(f"loop {k} header differs from the contract's note: {loop_header(s)!r}")
        if isinstance(it, tuple) and it and isinstance(it[0], str) and it[0] == "range":
            ra = it[1:]
            if len(ra) == 1:
                start, stop, step = 0, ra[0], 1
            elif len(ra) == 2:
                start, stop, step = ra[0], ra[1], 1
            else:
                start, stop, step = ra
            if not (is_int(start) and is_int(stop) and is_int(step)):
                raise Unsupported(f"range over non-integers at line {s.lineno}")
            if not isinstance(step, int):
                # need the sign of the step
                if self.decide(num_cmp(">", step, 0), s.lineno):
                    sign = 1
                else:
                    self.oblige(f"range-step-nonzero@{s.lineno}", "safety", num_cmp("!=", step, 0), s.lineno)
                    sign = -1
            else:
                if step == 0:
                    raise PyRaise("ValueError", s.lineno)
                sign = 1 if step > 0 else -1
            mk_item = lambda t: I(start) + t * I(step)
            cond = (lambda x: num_cmp("<", x, stop)) if sign > 0 else (lambda x: num_cmp(">", x, stop))
            seq_mode = False
        else:
            if isinstance(it, Arr) and it.ndim == 1:
                r = (it.shape[0], lambda t, a=it: a.get([t]))
            elif isinstance(it, SymIter):
                r = (it.length, it.getter)
            else:
                r = self.contract.call(self, "__iter__", [it], {}, s)
            if r is NotImplemented:
                raise Unsupported(f"for over {it!r} at line {s.lineno}")
            length, getter = r  # symbolic length and item getter
            mk_item = None
            seq_mode = True
        mod = assigned_names(s.body) | assigned_names([s.target]) | set(spec.extra_modifies)
        # dicts mentioned in the body may be mutated through calls: their contents are havoc'd (in place)
        mod |= {nm for nm in loaded_names(s.body) if isinstance(self.env.get(nm), dict)}
        # ---- init
        self.env[f"_it{k}"] = 0
        # (opt-in ``spec.exact_last``: remember the binding the loop variable had before the loop, see the exit branch)
        _unbound = object()
        prev_binding = self.env.get(s.target.id, _unbound) if isinstance(s.target, ast.Name) else _unbound
        if seq_mode:
            self.check_inv(spec, k, "init", s.lineno, _it=0)
        else:
            self.assign(s.target, mk_item(0) if is_z3(mk_item(0)) else mk_item(0))
            self.check_inv(spec, k, "init", s.lineno, _it=0)
        # ---- arbitrary iteration
        self.havoc(mod - assigned_names([s.target]), spec.retype)
        if spec.havoc_heap:
            self.havoc_heap()
        t = self.Int(f"_it{k}")
        self.env[f"_it{k}"] = t
        self.assume(t >= 0)
        if seq_mode:
            self.assume(And(num_cmp("<=", t, length), num_cmp(">=", length, 0)))  # at most len(seq) iterations
            self.assume_inv(spec, k, _it=t)
            enter = num_cmp("<", t, length)
        else:
            x = z3.simplify(Z(mk_item(t)))
            self.assign(s.target, x)
            self.assume_inv(spec, k, _it=t)
            enter = cond(x)
        if self.decide(enter, s.lineno):
            if seq_mode:
                self.assign(s.target, getter(t))
            try:
                self.block(s.body)
            except _Continue:
                pass
            except _Break:
                return
            # step
            self.env[f"_it{k}"] = t + 1
            if seq_mode:
                self.check_inv(spec, k, "step", s.lineno, _it=t + 1)
            else:
                self.assign(s.target, z3.simplify(Z(mk_item(t + 1))))
                self.check_inv(spec, k, "step", s.lineno, _it=t + 1)
            raise PathEnd("loop body end")
        else:
            # loop finished; python leaves the loop variable at its last value -- havoc'd unless never entered
            if not seq_mode and getattr(spec, "exact_last", False) and isinstance(s.target, ast.Name):
                # opt-in exact python semantics (set ``loop.exact_last = True`` on the Loop object): after >= 1
                # iterations the variable holds the LAST item start + (t-1)*step; after 0 iterations it keeps the binding it
                # had before the loop, or stays unbound (a later read then goes to the contract's ``attr(cx, None, name)``
                # hook, which may raise PyRaise("UnboundLocalError"))
                if self.decide(t >= 1, s.lineno):
                    self.env[s.target.id] = z3.simplify(Z(mk_item(t - 1)))
                elif prev_binding is _unbound:
                    self.env.pop(s.target.id, None)
                else:
                    self.env[s.target.id] = prev_binding
                return
            if not seq_mode:
                last = self.havoc_value(self.env[s.target.id], s.target.id) if isinstance(s.target, ast.Name) else None
                if last is not None:
                    self.env[s.target.id] = last
            return

    def st_While(self, s):
        if s.orelse:
            raise Unsupported("while-else")
        k, spec = self.loop_spec(s)
        if spec is None:
            # no invariant given: unroll while the test evaluates to a *concrete* python bool (structure-bounded
            # contracts); a symbolic test without invariant stays a contract mismatch
            for _ in range(257):
                c = self.truth(self.ev(s.test))
                if not isinstance(c, bool):
                    raise ContractMismatch(f"{self.fname}: loop {k} ({loop_header(s)}) has no invariant in the contract")
                if not c:
                    return
                try:
                    self.block(s.body)
                except _Continue:
                    continue
                except _Break:
                    return
            raise Unsupported(f"while loop at line {s.lineno}: more than 256 concrete iterations")
        if spec.header is not None and spec.header != loop_header(s):
            if not spec.header.strip().startswith("while "):
                raise ContractMismatch(f"{self.fname}: loop {k} was restructured: contract was written for "
                                       f"{spec.header!r}, code has {loop_header(s)!r}")
            self.notes.append(f"loop {k} header differs from the contract's note: {loop_header(s)!r}")
        mod = assigned_names(s.body) | set(spec.extra_modifies)
        mod |= {nm for nm in loaded_names(s.body) if isinstance(self.env.get(nm), dict)}
        self.check_inv(spec, k, "init", s.lineno)
        self.havoc(mod, spec.retype)
        if spec.havoc_heap:
            self.havoc_heap()
        self.assume_inv(spec, k)
        dec0 = spec.decreases(self.ns()) if spec.decreases else None
        c = self.truth(self.ev(s.test))
        if self.decide(c, s.lineno):
            try:
                self.block(s.body)
            except _Continue:
                pass
            except _Break:
                return
            self.check_inv(spec, k, "step", s.lineno)
            if dec0 is not None:
                dec1 = spec.decreases(self.ns())
                self.oblige(f"decreases@loop{k}", "termination", And(num_cmp("<", dec1, dec0), num_cmp(">=", dec0, 0)),
                            s.lineno)
            raise PathEnd("loop body end")
        return


class _Return(Exception):
    def __init__(self, value, line):
        self.value = value
        self.line = line


class _Break(Exception):
    pass


class _Continue(Exception):
    pass


def bind_args(fn, args, kwargs, cx=None, skip_self=False):
    """bind actual arguments to the parameter names of the real signature (defaults evaluated when constant)"""
    A = fn.args
    params = [a.arg for a in A.posonlyargs + A.args]
    if skip_self and params and params[0] in ("self", "cls"):
        params = params[1:]
    defaults = A.defaults
    ndef = len(defaults)
    allp = [a.arg for a in A.posonlyargs + A.args]
    defmap = {}
    for name, d in zip(allp[len(allp) - ndef:], defaults):
        defmap[name] = d
    for a, d in zip(A.kwonlyargs, A.kw_defaults):
        if d is not None:
            defmap[a.arg] = d
    out = {}
    args = list(args)
    for p in params:
        if args:
            out[p] = args.pop(0)
    if args:
        if A.vararg:
            out[A.vararg.arg] = tuple(args)
        else:
            raise PyRaise("TypeError")
    elif A.vararg:
        out[A.vararg.arg] = ()
    kwonly = [a.arg for a in A.kwonlyargs]
    extra = {}
    for k, v in kwargs.items():
        if k in params or k in kwonly:
            if k in out:
                raise PyRaise("TypeError")
            out[k] = v
        elif A.kwarg:
            extra[k] = v
        else:
            raise PyRaise("TypeError")
    if A.kwarg:
        out[A.kwarg.arg] = extra
    for p in params + kwonly:
        if p not in out:
            if p in defmap:
                try:
                    out[p] = ast.literal_eval(defmap[p])
                except Exception:
                    try:
                        out[p] = eval(compile(ast.Expression(defmap[p]), "<default>", "eval"), {})
                    except Exception:
                        out[p] = ("default-expr", ast.unparse(defmap[p]))
            else:
                raise PyRaise("TypeError")
    return NS(out)


# --------------------------------------------------------------------------------------
# driver: verify one contract
# --------------------------------------------------------------------------------------


class Collector:
    def __init__(self):
        self.obs = {}

    def add(self, ob):
        if ob.key not in self.obs:
            self.obs[ob.key] = ob

    def all(self):
        return list(self.obs.values())


class FunctionReport:
    def __init__(self, target):
        self.target = target
        self.obligations = []
        self.paths = 0
        self.terminal_paths = 0
        self.status = "ok"  # ok | mismatch | unsupported | vacuous
        self.detail = ""
        self.src_hash = None
        self.unreachable = []
        self.wall = 0.0
        self.cases = []

    @property
    def failed(self):
        return [o for o in self.obligations if o.status == "failed"]

    @property
    def unknown(self):
        return [o for o in self.obligations if o.status == "unknown"]

    @property
    def discharged(self):
        return [o for o in self.obligations if o.status == "discharged"]

    def to_json(self):
        return dict(function=self.target, status=self.status, detail=self.detail, src_sha=self.src_hash,
                    cases=self.cases, paths=self.paths, terminal_paths=self.terminal_paths,
                    obligations=len(self.obligations), discharged=len(self.discharged),
                    failed=[o.to_json() for o in self.failed], unknown=[o.to_json() for o in self.unknown],
                    solver_s=round(sum(o.time for o in self.obligations), 3), wall_s=round(self.wall, 3),
                    backends=sorted({o.backend for o in self.obligations if o.backend}),
                    unreachable_branches=sorted({f"line {l}: {w}" for l, w in self.unreachable if l}),
                    drops=getattr(REGISTRY.get(self.target), "drops", ""))


MAX_PATHS = int(os.environ.get("VERIF_MAX_PATHS", "4000"))


def verify(contract, discharge_now=True):
    """generate and discharge all obligations for one contract over the current /repo source"""
    rep = FunctionReport(contract.target)
    t0 = time.time()
    no_terminal = []
    try:
        fn, seg, h = load_function(contract.target)
        rep.src_hash = h
        col = Collector()
        no_terminal = []
        for case in contract.cases():
            rep.cases.append(case.name)
            work = [()]
            terminal = 0
            while work:
                prefix = work.pop()
                rep.paths += 1
                if rep.paths > MAX_PATHS:
                    raise Unsupported("path budget exceeded")
                cx = Ctx(contract, case, prefix, fn, col)
                try:
                    inputs = contract.inputs(cx, case)
                    a = inputs if isinstance(inputs, NS) else NS(inputs)
                    cx.env = dict(a.__dict__)
                    cx.old = NS(dict(a.__dict__))
                    cx.old_heap = {k: dict(v) for k, v in cx.heap.items()}
                    cx.pre_heap = cx.old_heap
                    req = contract.requires(a, case)
                    for c in req.values():
                        cx.assume(c)
                    if prefix == ():
                        r = feasible(cx.pc, 10000)
                        if r != z3.sat:
                            rep.status = "vacuous"
                            rep.detail = f"requires not shown satisfiable for case {case.name!r}: {r}"
                            raise PathEnd("vacuous")
                    try:
                        cx.block(fn.body)
                        result, line = None, fn.end_lineno
                        ens = contract.ensures(cx.old, result, cx, case)
                        tag = f"post@end"
                    except _Return as r:
                        result, line = r.value, r.line
                        ens = contract.ensures(cx.old, result, cx, case)
                        tag = f"post@{line}"
                    except PyRaise as e:
                        line = e.line or 0
                        ens = contract.ensures_raise(cx.old, e.name, cx, case)
                        tag = f"raise@{line}"
                    terminal += 1
                    for lab, c in ens.items():
                        cx.oblige(f"{tag}:{lab}", "post", c, line)
                except PathEnd:
                    pass
                finally:
                    work.extend(cx.new_prefixes)
                    rep.unreachable.extend(cx.unreachable)
            rep.terminal_paths += terminal
            if terminal == 0 and rep.status == "ok":
                no_terminal.append(case.name)
        rep.obligations = col.all()
        if rep.status == "ok" and len(rep.obligations) < contract.floor:
            rep.status = "vacuous"
            rep.detail = f"only {len(rep.obligations)} obligations (< floor {contract.floor})"
    except ContractMismatch as e:
        rep.status = "mismatch"
        rep.detail = str(e)
    except Unsupported as e:
        rep.status = "unsupported"
        rep.detail = str(e)
    except (KeyError, AttributeError) as e:
        rep.status = "mismatch"
        rep.detail = f"contract refers to missing name {e}"
    except z3.Z3Exception as e:
        rep.status = "mismatch"
        rep.detail = f"contract could not be evaluated on this code: z3: {e}"
    except (PathEnd, _Return, _Break, _Continue, PyRaise):
        raise
    except Exception as e:  # noqa: any other failure inside contract code: the contract cannot be evaluated here
        import traceback
        rep.status = "mismatch"
        rep.detail = f"contract could not be evaluated on this code: {type(e).__name__}: {e} :: " + \
            traceback.format_exc()[-400:]
    if discharge_now and rep.status == "ok":
        for ob in rep.obligations:
            discharge(ob)
        if no_terminal and not rep.failed:
            # no return / raise reached although nothing failed: the contract (or an invariant) is contradictory
            rep.status = "vacuous"
            rep.detail = f"no terminal path reached for case(s) {no_terminal[:3]}"
    rep.wall = time.time() - t0
    return rep
