"""selftest -- engine soundness guard: deliberate property-breaking edits of the real source must turn a named
obligation from discharged to failed (and benign edits must not).  Mutant lists live in selftest/mutants_*.py:
    MUTANTS = [(relpath, function_suffix, old_text, new_text, "expect-fail" | "benign"), ...]
Each mutant is applied to a scratch copy of the single source file (tempdir, removed afterwards)."""
import glob
import importlib.util
import os
import shutil
import sys
import tempfile

ROOT = os.path.dirname(os.path.dirname(os.path.abspath(__file__)))
sys.path.insert(0, ROOT)

from vf import pyvc  # noqa: E402


def load_lists(only=None):
    out = []
    for path in sorted(glob.glob(os.path.join(ROOT, "selftest", "mutants_*.py"))):
        name = os.path.basename(path)[:-3]
        if only and only.lower() not in name.lower():
            continue
        spec = importlib.util.spec_from_file_location(name, path)
        mod = importlib.util.module_from_spec(spec)
        spec.loader.exec_module(mod)
        for m in getattr(mod, "MODULES", []):
            importlib.import_module(m)
        runner = getattr(mod, "run_mutant", None)
        for mu in mod.MUTANTS:
            out.append((name, mu, runner))
    return out


def run_e1_mutant(tmp, relpath, suffix, old, new):
    src = open(os.path.join("/repo", relpath)).read()
    if src.count(old) < 1:
        return "stale", "old text not found in the current source"
    dst = os.path.join(tmp, relpath)
    os.makedirs(os.path.dirname(dst), exist_ok=True)
    open(dst, "w").write(src.replace(old, new, 1))
    pyvc.REPO = tmp
    pyvc._SRC_CACHE.clear()
    try:
        cons = [v for k, v in pyvc.REGISTRY.items() if k.endswith(suffix)]
        if not cons:
            return "stale", f"no contract registered for {suffix}"
        rep = pyvc.verify(cons[0])
    finally:
        pyvc.REPO = "/repo"
        pyvc._SRC_CACHE.clear()
        os.remove(dst)
    if rep.failed:
        return "failed", ", ".join(sorted({o.label.split("#")[0] for o in rep.failed})[:3])
    if rep.status != "ok":
        return rep.status, rep.detail[:120]
    if rep.unknown:
        return "unknown", f"{len(rep.unknown)} undecided"
    return "discharged", ""


def main(argv=None):
    argv = argv or sys.argv[1:]
    only = argv[0] if argv else None
    tmp = tempfile.mkdtemp(prefix="verif-selftest-")
    bad = 0
    n = 0
    try:
        for name, mu, runner in load_lists(only):
            relpath, suffix, old, new, expect = mu
            status, detail = (runner or run_e1_mutant)(tmp, relpath, suffix, old, new)
            n += 1
            ok = (expect == "expect-fail" and status == "failed") or (expect == "benign" and status == "discharged")
            if not ok:
                bad += 1
            print(f"{'ok ' if ok else 'BAD'} {name} {suffix} [{expect}] -> {status} {detail} :: {new.strip()[:60]!r}")
    finally:
        shutil.rmtree(tmp, ignore_errors=True)
    print(f"SELFTEST mutants={n} unexpected={bad}")
    return 1 if bad else 0


if __name__ == "__main__":
    sys.exit(main())
