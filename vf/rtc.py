"""rtc -- run-time contracts on the real functions over a stated bounded domain (E3 of DESIGN.md).

The *bounded stand-in*: never counted as proved.  A driver is a python function that enumerates cases
(deterministic grids + numpy Generator seeded from VERIF_SEED) and evaluates a contract (postcondition
against an independent reference) on the real quimb function for each.  Drivers are split in chunks that
run in forked worker processes with a wall-clock limit; a worker that dies or times out is recorded as
inconclusive (never a violation) unless the contract says that death is the violation (index safety).
"""

from __future__ import annotations

import hashlib
import json
import multiprocessing as mp
import os
import signal
import time
import traceback

DRIVERS = {}  # (property, name) -> Driver


class Driver:
    def __init__(self, prop, name, fn, chunks, bound, quick_chunks=None, timeout=300):
        self.prop = prop
        self.name = name
        self.fn = fn
        self.chunks = chunks
        self.bound = bound
        self.timeout = timeout


def driver(prop, name, chunks=1, bound="", timeout=300):
    def deco(fn):
        DRIVERS[(prop, name)] = Driver(prop, name, fn, chunks, bound, timeout=timeout)
        return fn

    return deco


REPO_DIR = os.path.realpath(os.environ.get("VERIF_REPO", "/repo"))


def classify_exception(e):
    """rejection: the innermost /repo frame is a `raise` statement of quimb's own; else crash"""
    tb = traceback.extract_tb(e.__traceback__)
    inner = None
    for fr in tb:
        fn = os.path.realpath(fr.filename)
        if fn.startswith(REPO_DIR + os.sep) and "/tests/" not in fn:
            inner = fr
    last = tb[-1] if tb else None
    if inner is not None and last is not None and os.path.realpath(last.filename) == os.path.realpath(inner.filename) \
            and last.lineno == inner.lineno and (inner.line or "").lstrip().startswith("raise"):
        return "rejection"
    return "crash"


class Ctx:
    """handed to a driver; counts evaluations and collects violations for one chunk"""

    def __init__(self, prop, name, chunk, nchunks, seed, tier, only_key=None):
        import numpy as np

        self.prop, self.name, self.chunk, self.nchunks, self.seed, self.tier = prop, name, chunk, nchunks, seed, tier
        self.rng = np.random.default_rng([seed, chunk, int(hashlib.sha256(name.encode()).hexdigest()[:8], 16)])
        self.counter = 0
        self.evaluations = 0
        self.nontrivial = set()
        self.violations = []
        self.samples = []
        self.rejections = {}
        self.crashes = []
        self.contracts = {}
        self.only_key = only_key
        self.inconclusive = []
        self.transient = []  # infrastructure errors that did not reproduce on retry (see check)
        self.deadline = None
        self.shared = None  # shared buffer: key of the case being evaluated (so a dying worker names its case)
        self.resume_after = None  # skip cases up to and including this key (restart after a worker death)

    @property
    def quick(self):
        return self.tier == "quick"

    def mine(self):
        """round-robin assignment of enumerated cases to chunks"""
        k = self.counter
        self.counter += 1
        return k % self.nchunks == self.chunk

    def out_of_time(self):
        return self.deadline is not None and time.time() > self.deadline

    def check(self, contract, params, thunk, nontrivial=True, allow_reject=False, crash_is_violation=True):
        """evaluate one run-time contract.  thunk() returns None/True when the contract holds, a string
        (or dict) describing the failure otherwise; exceptions are classified rejection / crash."""
        key = contract + "|" + json.dumps(params, sort_keys=True, default=str)
        if self.only_key is not None and key != self.only_key:
            return None
        if self.resume_after is not None:
            if key == self.resume_after:
                self.resume_after = None
            return None
        if self.shared is not None:
            kb = key.encode()[: len(self.shared) - 1]
            self.shared[: len(kb)] = kb
            self.shared[len(kb)] = b"\0"
        self.evaluations += 1
        self.contracts[contract] = self.contracts.get(contract, 0) + 1
        if len(self.samples) < 3:
            self.samples.append({"contract": contract, "params": params})
        try:
            try:
                r = thunk()
            except Exception as e0:  # noqa
                # numba's on-disk cache is not safe against a source file that changes (or many workers compiling the
                # same kernel) while it is being read: the symptom is a one-off TypingError / "can't unbox array" on an
                # input that works a moment later.  Such an infrastructure error is retried; a deterministic failure
                # (also a genuine numba typing defect of the library) fails again and is reported as before.
                if not _looks_like_numba_infrastructure(e0):
                    raise
                r = _RETRY
                for _ in range(2):
                    time.sleep(0.5)
                    try:
                        r = thunk()
                        self.transient.append({"contract": contract, "params": params,
                                               "first_error": f"{type(e0).__name__}: {str(e0)[:200]}"})
                        break
                    except Exception:  # noqa
                        r = _RETRY
                if r is _RETRY:
                    raise e0
        except Exception as e:  # noqa
            kind = classify_exception(e)
            msg = f"{type(e).__name__}: {str(e)[:300]}"
            if kind == "rejection" and allow_reject:
                self.rejections[contract] = self.rejections.get(contract, 0) + 1
                return "rejected"
            if kind == "rejection" and not allow_reject:
                r = f"rejected an in-domain input: {msg}"
            elif allow_reject and not crash_is_violation:
                self.rejections[contract + " (incidental)"] = self.rejections.get(contract + " (incidental)", 0) + 1
                return "rejected"
            else:
                tbs = traceback.format_exception(e)
                r = f"crash: {msg} :: {''.join(tbs[-3:])[-600:]}"
        if r is None or r is True:
            if nontrivial:
                self.nontrivial.add(hashlib.sha256(key.encode()).hexdigest()[:16])
            return "ok"
        self.violations.append({"contract": contract, "params": params, "key": key, "detail": r if isinstance(r, (str, dict)) else repr(r),
                                "driver": self.name, "chunk": self.chunk, "nchunks": self.nchunks, "seed": self.seed,
                                "tier": self.tier})
        return "violation"

    def result(self):
        return dict(driver=self.name, chunk=self.chunk, evaluations=self.evaluations, nontrivial=sorted(self.nontrivial),
                    violations=self.violations, samples=self.samples, rejections=self.rejections,
                    contracts=self.contracts, inconclusive=self.inconclusive, transient=self.transient)


_RETRY = object()


def _looks_like_numba_infrastructure(e):
    n = type(e).__name__
    m = str(e)
    return n in ("TypingError", "LoweringError", "NumbaError", "InternalError") or "can't unbox" in m or \
        "nopython mode pipeline" in m


def _run_chunk(args, shared=None, resume_after=None):
    prop, name, chunk, nchunks, seed, tier, only_key, timeout = args
    d = DRIVERS[(prop, name)]
    cx = Ctx(prop, name, chunk, nchunks, seed, tier, only_key)
    cx.shared = shared
    cx.resume_after = resume_after
    cx.deadline = time.time() + timeout * 0.9
    t0 = time.time()
    try:
        d.fn(cx)
        res = cx.result()
    except Exception as e:  # driver bug: inconclusive, never a violation
        res = cx.result()
        res["driver_error"] = f"{type(e).__name__}: {e} :: {traceback.format_exc()[-1500:]}"
    res["wall"] = time.time() - t0
    return res


def _worker(conn, args, shared=None, resume_after=None):
    try:
        os.environ.setdefault("OMP_NUM_THREADS", "1")
        res = _run_chunk(args, shared, resume_after)
        conn.send(res)
    except BaseException as e:  # noqa
        try:
            conn.send({"driver": args[1], "chunk": args[2], "driver_error": repr(e), "evaluations": 0, "nontrivial": [],
                       "violations": [], "samples": [], "rejections": {}, "contracts": {}, "inconclusive": []})
        except Exception:
            pass
    finally:
        conn.close()


def run_drivers(prop, tier, seed, names=None, only=None, max_procs=None):
    """run all drivers of a property in forked workers (chunk level parallelism)"""
    jobs = []
    for (p, name), d in sorted(DRIVERS.items()):
        if p != prop or (names and name not in names):
            continue
        if only and only.get("driver") != name:
            continue
        for c in range(d.chunks):
            if only and only.get("chunk") is not None and only["chunk"] != c:
                continue
            tmo = d.timeout * (3 if tier == "quick" else 8)  # generous: only reached on an overloaded machine
            jobs.append((p, name, c, d.chunks, seed, tier, only.get("key") if only else None, tmo))
    max_procs = max_procs or int(os.environ.get("VERIF_PROCS", "14"))
    ctx = mp.get_context("fork")
    running = []
    results = []
    pending = list(jobs)
    deaths = {}
    while pending or running:
        while pending and len(running) < max_procs:
            a = pending.pop(0)
            resume = None
            if isinstance(a, tuple) and len(a) == 2 and isinstance(a[0], tuple):
                a, resume = a
            pc, cc = ctx.Pipe(duplex=False)
            shared = ctx.RawArray("c", 4096)
            pr = ctx.Process(target=_worker, args=(cc, a, shared, resume), daemon=True)
            pr.start()
            cc.close()
            running.append((pr, pc, a, time.time(), shared))
        still = []
        for pr, pc, a, t0, shared in running:
            done = False
            if pc.poll(0):
                try:
                    results.append(pc.recv())
                except EOFError:
                    results.append(_dead(a, pr, shared, pending, deaths))
                done = True
            elif not pr.is_alive():
                if pc.poll(0.05):
                    try:
                        results.append(pc.recv())
                    except EOFError:
                        results.append(_dead(a, pr, shared, pending, deaths))
                else:
                    results.append(_dead(a, pr, shared, pending, deaths))
                done = True
            elif time.time() - t0 > a[7]:
                try:
                    os.kill(pr.pid, signal.SIGKILL)
                except OSError:
                    pass
                results.append({"driver": a[1], "chunk": a[2], "timeout": True, "evaluations": 0, "nontrivial": [],
                                "violations": [], "samples": [], "rejections": {}, "contracts": {},
                                "inconclusive": [f"chunk {a[2]} of {a[1]} exceeded {a[7]} s"]})
                done = True
            if done:
                pr.join(1)
                pc.close()
            else:
                still.append((pr, pc, a, t0, shared))
        running = still
        if running:
            time.sleep(0.02)
    return results


def _dead(a, pr, shared=None, pending=None, deaths=None):
    """a worker died (signal / os._exit).  The case it was evaluating is named by the shared buffer: an
    interpreter killed by the code under contract is a violation of that case (index safety); the chunk is
    restarted after that case (at most 3 times)."""
    pr.join(1)
    key = shared.value.decode(errors="replace") if shared is not None else ""
    res = {"driver": a[1], "chunk": a[2], "died": pr.exitcode, "evaluations": 0, "nontrivial": [], "violations": [],
           "samples": [], "rejections": {}, "contracts": {}, "inconclusive": []}
    if key and pr.exitcode is not None and pr.exitcode < 0:
        contract, _, pj = key.partition("|")
        try:
            params = json.loads(pj)
        except Exception:
            params = {"raw": pj}
        res["violations"].append({"contract": contract, "params": params, "key": key,
                                  "detail": f"interpreter died with signal {-pr.exitcode} while evaluating this case",
                                  "driver": a[1], "chunk": a[2], "nchunks": a[3], "seed": a[4], "tier": a[5]})
        res["evaluations"] = 1
        n = deaths.get((a[1], a[2]), 0) if deaths is not None else 99
        if pending is not None and n < 3 and a[6] is None:
            deaths[(a[1], a[2])] = n + 1
            pending.append((a, key))
        else:
            res["inconclusive"].append(f"chunk {a[2]} of {a[1]} not finished after repeated worker deaths")
    else:
        res["inconclusive"].append(f"worker for chunk {a[2]} of {a[1]} died with exit code {pr.exitcode}")
    return res


# ----------------------------------------------------------------------------------------------
# isolated execution of one thunk (for cases that may kill the interpreter)
# ----------------------------------------------------------------------------------------------


def run_isolated(fn, timeout=60):
    """run fn() in a forked child; returns ("ok", value) | ("died", exitcode) | ("timeout", None) | ("exc", repr)"""
    ctx = mp.get_context("fork")
    pc, cc = ctx.Pipe(duplex=False)

    def w():
        try:
            cc.send(("ok", fn()))
        except BaseException as e:  # noqa
            cc.send(("exc", f"{type(e).__name__}: {e}"))
        finally:
            cc.close()

    pr = ctx.Process(target=w, daemon=True)
    pr.start()
    cc.close()
    t0 = time.time()
    while time.time() - t0 < timeout:
        if pc.poll(0.05):
            try:
                r = pc.recv()
            except EOFError:
                pr.join(1)
                return ("died", pr.exitcode)
            pr.join(1)
            return r
        if not pr.is_alive():
            if pc.poll(0.05):
                continue
            pr.join(1)
            return ("died", pr.exitcode)
    os.kill(pr.pid, signal.SIGKILL)
    pr.join(1)
    return ("timeout", None)
