#!/bin/sh
# usage: tools_seed_eval.sh <seeded-id> <PROP> [tier]   -- evaluate /verif/seeded/<id>/patch.diff in a scratch worktree of /repo HEAD
# (the official way -- git -C /repo apply; run; git -C /repo checkout -- . -- is equivalent; this one does not disturb /repo)
ID=$1; PROP=$2; TIER=${3:-quick}
D=/verif/seeded/$ID
WT=/tmp/wt-eval-$ID
git -C /repo worktree remove --force $WT 2>/dev/null
git -C /repo worktree add -q $WT HEAD || exit 3
cd $WT
if ! git apply --check $D/patch.diff 2>/dev/null; then echo "PATCH-DOES-NOT-APPLY $ID"; git -C /repo worktree remove --force $WT; exit 3; fi
echo "== demo on unchanged tree (expect exit 0)"
(cd $WT && PYTHONPATH=$WT NUMBA_CACHE_DIR=/tmp/numba-cache-eval-$ID /venv/bin/python $D/demo.py > /tmp/seed-eval-$ID.demo0.txt 2>&1; echo "demo exit=$?")
git apply $D/patch.diff
echo "== demo on changed tree (expect exit 1)"
(cd $WT && PYTHONPATH=$WT NUMBA_CACHE_DIR=/tmp/numba-cache-eval-$ID /venv/bin/python $D/demo.py > /tmp/seed-eval-$ID.demo1.txt 2>&1; echo "demo exit=$?"; tail -3 /tmp/seed-eval-$ID.demo1.txt | cut -c1-200)
echo "== check $PROP --tier $TIER on changed tree"
cd /verif && VERIF_REPO=$WT ./check $PROP --tier $TIER > /tmp/seed-eval-$ID.check.txt 2>&1; echo "check exit=$?"
grep -c "^VIOLATION" /tmp/seed-eval-$ID.check.txt | sed 's/^/violation lines: /'
grep "^VIOLATION\|^SUMMARY\|^NOTE\|^UNDECIDED\|^INCONCLUSIVE" /tmp/seed-eval-$ID.check.txt | head -8 | cut -c1-220
git -C /repo worktree remove --force $WT
rm -rf /tmp/numba-cache-*wt-eval-$ID* /tmp/numba-cache-eval-$ID
