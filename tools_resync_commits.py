#!/usr/bin/env python3
"""after a history rewrite of /repo's fix commits: map old short SHAs to new ones by commit subject
usage: tools_resync_commits.py <file with 'oldsha subject' lines from before the rewrite> [old-subject=new-subject ...]"""
import glob, json, re, subprocess, sys
before = [l.rstrip("\n").split(" ", 1) for l in open(sys.argv[1]) if l.strip()]
ren = dict(a.split("=", 1) for a in sys.argv[2:])
now = {}
for l in subprocess.run(["git", "-C", "/repo", "log", "--format=%h %s", "ec8662d9..HEAD"], capture_output=True, text=True).stdout.splitlines():
    h, s = l.split(" ", 1)
    now[s] = h
m = {}
for h, s in before:
    s2 = ren.get(s, s)
    if s2 in now:
        if now[s2] != h:
            m[h] = now[s2]
    else:
        print("NO NEW COMMIT FOR", h, s)
files = glob.glob("/verif/known_findings.d/*.json") + ["/verif/known_findings.json", "/verif/fix_commits.txt"]
for f in files:
    t = open(f).read(); t0 = t
    for a, b in m.items():
        t = t.replace(a, b)
    if t != t0:
        open(f, "w").write(t); print("updated", f)
# consistency: every commit named in a fixed entry exists, every fix commit is listed
listed = [l.strip() for l in open("/verif/fix_commits.txt") if l.strip() and not l.startswith("#")]
hist = subprocess.run(["git", "-C", "/repo", "log", "--reverse", "--format=%h", "ec8662d9..HEAD"], capture_output=True, text=True).stdout.split()
print("fix_commits.txt == history:", listed == hist, len(listed), len(hist))
used = set()
for f in glob.glob("/verif/known_findings.d/*.json") + ["/verif/known_findings.json"]:
    for e in json.load(open(f))["findings"]:
        if e.get("status") == "fixed":
            c = e.get("commit")
            used.add(c)
            if c not in hist:
                print("entry", e["id"], "names unknown commit", c)
print("commits without a findings entry:", [h for h in hist if h not in used])
