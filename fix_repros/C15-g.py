import sys
import numpy as np
import quimb as qu

dims, perm = [2, 3, 4], [2, 0, 1]
k = qu.rand_ket(24, seed=0)
ex = qu.permute(k, dims, perm).H
bad = False
b = qu.permute(k.H, dims, perm)
bad |= b.shape != (1, 24) or not np.allclose(b, ex)
try:
    bs = qu.permute(qu.sparse(k.H), dims, perm)
    bad |= bs.shape != (1, 24) or not np.allclose(bs.toarray(), ex)
except ValueError as e:
    print(e)
    bad = True
sys.exit(1 if bad else 0)
