import sys
import numpy as np
import quimb.tensor as qtn
A = qtn.rand_tensor((2, 3), "ab", seed=0); B = qtn.rand_tensor((2, 3), "ab", seed=1)
tn = A | B
ref = tn.contract(all)
bad = False
for args in [(), ([],)]:
    try:
        x = tn.to_dense(*args)
        ok = np.shape(x) == () and np.allclose(x, ref)
        print(args, ok, np.shape(x)); bad |= not ok
    except (ValueError, TypeError) as e:
        print(args, type(e).__name__, e); bad = True
sys.exit(1 if bad else 0)
