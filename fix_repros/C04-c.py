import sys
import numpy as np
import quimb.tensor as qtn
A = qtn.rand_tensor((2, 3, 2), "abx"); B = qtn.rand_tensor((2, 3, 4), "abc")
tn = A & B
try:
    b = tn.balance_bonds()
except ValueError as e:
    print("ValueError", e); sys.exit(1)
ok = np.allclose(tn.contract(output_inds="xc").data, b.contract(output_inds="xc").data)
for ix in "ab":
    x = (b.tensors[0].H & b.tensors[0]).contract(output_inds=[ix]).data
    y = (b.tensors[1].H & b.tensors[1]).contract(output_inds=[ix]).data
    print(x / y)
sys.exit(0 if ok else 1)
