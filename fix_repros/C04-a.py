import sys
import quimb.tensor as qtn
A = qtn.rand_tensor((1, 2), "ab"); B = qtn.rand_tensor((2, 3), "bc")
tn = A & B
stn = tn.squeeze()
print(tn.outer_inds(), stn.outer_inds())
sys.exit(0 if set(stn.outer_inds()) == set(tn.outer_inds()) else 1)
