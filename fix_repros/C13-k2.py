import sys
import numpy as np
import quimb as qu
import quimb.tensor as qtn
bad = 0
p = qtn.MPS_product_state([np.array([1.0, 0.0])] * 4) * 1.1
v = p.logneg_subsys([0, 1], [2, 3])
print("product, norm^2 1.21:", v)
bad |= abs(v) > 1e-9
m = qtn.MPS_rand_state(6, 4, seed=1)
ref = m.logneg_subsys([0, 1, 2], [3, 4, 5])
v2 = (m * 1.7).logneg_subsys([0, 1, 2], [3, 4, 5])
v3 = (m * 1.7).logneg_subsys([0, 1], [3, 4, 5])
r3 = m.logneg_subsys([0, 1], [3, 4, 5])
print(ref, v2, "| other blocks:", r3, v3)
bad |= abs(ref - v2) > 1e-9
# C13-d3
me = m.copy(); me.equalize_norms_(1.0); me.exponent = me.exponent + 0.5
r1 = (m * 10**0.5 if False else m).partial_trace_compress([0, 1, 2], [3, 4, 5], renorm=False)
r2 = me.partial_trace_compress([0, 1, 2], [3, 4, 5], renorm=False)
t1 = r1.trace(["kA", "kB"], ["bA", "bB"]); t2 = r2.trace(["kA", "kB"], ["bA", "bB"])
print("d3: traces", t1, t2, (me.H @ me))
sys.exit(int(bad))
