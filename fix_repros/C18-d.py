import sys
import numpy as np
import quimb as qu

H = qu.ham_heis(3)
p0 = qu.rand_ket(8, seed=0)
ex = qu.Evolution(p0, H, method="solve")
ex.update_to(0.7)
try:
    evo = qu.Evolution(p0, np.asarray(H), method="solve")
    evo.update_to(0.7)
except AttributeError as e:
    print(e)
    sys.exit(1)
sys.exit(0 if np.allclose(evo.pt, ex.pt) else 1)
