import sys
import numpy as np
import quimb as qu
import quimb.tensor as qtn
psi = qtn.MPS_rand_state(5, 4, seed=0, dtype='complex128')
G = qu.rand_uni(4, seed=1)
G3 = qu.rand_uni(8, seed=2)
ok = True
ref = psi.gate(G, (1, 3), contract=False, dagger=True).to_dense()
refG = psi.gate(G, (1, 3), contract=False).to_dense()
refT = psi.gate(G, (1, 3), contract=False, transpose=True).to_dense()
x = psi.gate(G, (1, 3), contract='nonlocal', dagger=True, cutoff=0.0).to_dense()
ok &= np.allclose(x, ref)
ok &= np.allclose(psi.gate(G, (1, 3), contract='nonlocal', cutoff=0.0).to_dense(), refG)
ok &= np.allclose(psi.gate(G, (1, 3), contract='nonlocal', transpose=True, cutoff=0.0).to_dense(), refT)
ref3 = psi.gate(G3, (0, 2, 4), contract=False, dagger=True).to_dense()
ok &= np.allclose(psi.gate(G3, (0, 2, 4), contract='auto-mps', dagger=True, cutoff=0.0).to_dense(), ref3)
ok &= np.allclose(psi.gate_nonlocal(G, (1, 3), dagger=True, cutoff=0.0).to_dense(), ref)
sys.exit(0 if ok else 1)
