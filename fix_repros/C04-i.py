import sys
import numpy as np
import quimb.tensor as qtn
bad = False
rng = np.random.default_rng(0)
def make():
    tn = qtn.TN2D_rand(3, 4, 2, seed=1)
    for t in tn:  # rank-1 tensors: everything factorises
        vs = [rng.normal(size=d) for d in t.shape]
        x = vs[0]
        for v in vs[1:]:
            x = np.multiply.outer(x, v)
        t.modify(data=x)
    return tn
def val(x, ref):
    v = x.contract(all, output_inds=ref.outer_inds())
    return getattr(v, "data", v)
def r1(inds):
    x = rng.normal(size=2)
    for _ in inds[1:]:
        x = np.multiply.outer(x, rng.normal(size=2))
    return qtn.Tensor(x, inds)
rings = qtn.TensorNetwork([r1(i) for i in ("abx", "bc", "cdy", "da", "efx", "fg", "ghz", "he")])
for name in ("pair_simplify", "loop_simplify"):
    tn = make() if name == "pair_simplify" else rings
    try:
        a = getattr(tn, name)()
        b = getattr(tn.copy(), name + "_")()
        ok = np.allclose(val(a, tn), val(tn, tn)) and a.num_tensors == b.num_tensors
        print(name, ok, tn.num_tensors, a.num_tensors, b.num_tensors, a.num_indices, tn.num_indices)
        bad |= not ok
    except KeyError as e:
        print(name, "KeyError", e); bad = True
sys.exit(1 if bad else 0)
