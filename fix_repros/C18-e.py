import sys
import numpy as np
import quimb as qu

H = qu.ham_heis(2)
p0 = qu.rand_ket(4, seed=0)
evo = qu.Evolution(p0, H, method="integrate", progbar=True)
evo.update_to(0.3)
p1 = evo.pt.copy()
try:
    evo.update_to(0.3)
except ZeroDivisionError as e:
    print("ZeroDivisionError", e)
    sys.exit(1)
sys.exit(0 if np.allclose(evo.pt, p1) else 1)
