import sys
import numpy as np
import quimb.operator as qop

H = qop.SparseOperatorBuilder(hilbert_space=qop.HilbertSpace(2))
H += 1.0, ("x", 0), ("x", 1)
H += 1.0, ("y", 0), ("y", 1)
A = H.build_dense()
x = np.random.default_rng(0).random(4)
try:
    y = H.matvec(x)
    yp = H.matvec(x, parallel=2)
except TypeError as e:
    print("TypeError", e)
    sys.exit(1)
sys.exit(0 if np.allclose(y, A @ x) and np.allclose(yp, A @ x) else 1)
