import sys
import numpy as np
import quimb as qu
import quimb.tensor as qtn
G = qu.rand_herm(4, seed=1)
circ = qtn.CircuitDense(3)
circ.apply_gate("X", 2)
ref = circ.local_expectation(G, (2, 1))
v = circ.local_expectation(G, (2, 1), simplify_sequence="AD")
psi = circ.to_dense()
ex = qu.expec(qu.pkron(G, [2] * 3, (2, 1)), psi)
print(ref, v, ex)
sys.exit(int(abs(v - ex) > 1e-9))
