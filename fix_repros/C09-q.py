import sys
import numpy as np
import quimb.tensor as qtn
rng = np.random.default_rng(0)
# 2-site MPS of Schmidt rank 2 stored with bond 3
L = rng.normal(size=(4, 2)) @ rng.normal(size=(2, 3))  # (phys 4, bond 3), rank 2
R = rng.normal(size=(3, 4))  # (bond 3, phys 4)
mps = qtn.MatrixProductState([L.T.copy(), R], shape="lrp")
ref = mps.to_dense()
bad = 0
for i in (0, 1):
    p = mps.copy()
    p.compress_site(i, max_bond=2, cutoff=0.0)
    err = np.linalg.norm(p.to_dense() - ref) / np.linalg.norm(ref)
    print(i, p.bond_sizes(), err)
    bad |= err > 1e-10
sys.exit(int(bad))
