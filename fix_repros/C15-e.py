import sys
import numpy as np
import quimb as qu

rho = qu.rand_rho(6, seed=0)
ex = qu.partial_transpose(rho, [2, 3], 0)
try:
    r = qu.partial_transpose(qu.sparse(rho), [2, 3], 0)
except ValueError as e:
    print(e)
    sys.exit(1)
r = r.toarray() if qu.issparse(r) else r
sys.exit(0 if np.allclose(r, ex) else 1)
