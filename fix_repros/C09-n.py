import sys
import numpy as np
import quimb.tensor as qtn
psi = qtn.MPS_rand_state(4, 3, seed=0)
ok = True
try:
    z = psi.multiply(0.0)
    ok &= np.allclose(z.to_dense(), 0.0) and not np.isnan(z.to_dense()).any()
    ok &= np.allclose((psi * 0).to_dense(), 0.0) and np.allclose((0 * psi).to_dense(), 0.0)
    p2 = psi.copy(); p2 *= 0
    ok &= np.allclose(p2.to_dense(), 0.0)
except ZeroDivisionError as e:
    print('ZeroDivisionError', e); ok = False
for x in (-2.5, 3.0, -1, 2, 1j, np.float64(-0.3)):
    ok &= np.allclose(psi.multiply(x).to_dense(), x * psi.to_dense())
    ok &= psi.multiply(x).dtype == (psi.dtype if not isinstance(x, complex) else 'complex128')
sys.exit(0 if ok else 1)
