import sys
import numpy as np
import quimb as qu
import quimb.tensor as qtn
bad = 0
for (i, j) in [(0, 1), (0, 3), (3, 1)]:
    ref = qtn.Circuit(4)
    c = qtn.CircuitPermMPS(4)
    for cc in (ref, c):
        cc.apply_gate("H", 0); cc.apply_gate("RY", 0.3, 1); cc.apply_gate("RX", 0.7, 2)
        cc.apply_gate("CX", 0, 2); cc.apply_gate("RY", 1.1, 3)
        cc.apply_gate("SWAP", i, j)
        cc.apply_gate("CX", 1, 3)
    try:
        err = abs(ref.to_dense() - c.to_dense()).max()
    except Exception as e:
        print(type(e).__name__, e); err = 1
    print((i, j), c.qubits, err)
    bad |= err > 1e-9
sys.exit(int(bad))
