import sys
import numpy as np
import quimb.tensor as qtn
from quimb.tensor.belief_propagation import D1BP
bad = 0
for seed in range(6):
    rng = np.random.default_rng(seed)
    # 3-edge star with signed data
    ts = [qtn.Tensor(rng.normal(size=(3, 3, 3)), inds=("a", "b", "c"))]
    ts += [qtn.Tensor(rng.normal(size=(3,)), inds=(ix,)) for ix in "abc"]
    tn = qtn.TensorNetwork(ts)
    exact = tn.contract()
    vals = []
    for meth in ("contract", "contract_gloop_expand", "contract_loop_series_expansion"):
        bp = D1BP(tn.copy())
        bp.run(tol=1e-13)
        vals.append(getattr(bp, meth)())
    print(seed, exact, vals)
    if not np.allclose(vals, exact):
        bad = 1
sys.exit(bad)
