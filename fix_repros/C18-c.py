import sys
import numpy as np
import quimb as qu

H = qu.ham_heis(3, sparse=True)
p0 = qu.rand_ket(8, seed=0)
ex = qu.Evolution(p0, H.tocsr(), method="solve")
ex.update_to(0.7)
bad = False
for fmt in ("coo", "bsr", "csr", "csc"):
    try:
        evo = qu.Evolution(p0, H.asformat(fmt), method="solve")
        evo.update_to(0.7)
        bad |= not np.allclose(evo.pt, ex.pt)
    except (TypeError, NotImplementedError) as e:
        print(fmt, type(e).__name__, e)
        bad = True
sys.exit(1 if bad else 0)
