import sys, warnings
import numpy as np
import quimb.tensor as qtn
warnings.simplefilter('ignore')
ok = True
t = qtn.rand_tensor((4, 2), 'ab', seed=0)
try:
    t2 = t.copy(); r = t2.unitize_('a')
    ok &= r is t2 and np.allclose(t2.data, t.unitize('a').data) and np.allclose(t2.data, t.isometrize('a').data)
    tn = qtn.MPS_rand_state(3, 2, seed=0)
    for i in range(3):
        tn[i].modify(left_inds=[tn.site_ind(i)])
    tn2 = tn.copy(); r = tn2.unitize_()
    ok &= r is tn2 and np.allclose(tn2.to_dense(), tn.unitize().to_dense())
except TypeError as e:
    print(e); ok = False
sys.exit(0 if ok else 1)
