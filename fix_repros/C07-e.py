import sys
import numpy as np
import quimb as qu
import quimb.tensor as qtn
c = qtn.CircuitPermMPS(4)
c.apply_gate("H", 0)
before = list(c.qubits)
try:
    c.apply_gate(np.eye(3), 0, 3)   # wrong shape: rejected
except Exception as e:
    print("rejected:", type(e).__name__, str(e)[:80])
print(before, c.qubits)
sys.exit(int(before != c.qubits))
