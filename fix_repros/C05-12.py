import sys
import numpy as np
from quimb.tensor.decomp import array_split
rng = np.random.default_rng(0)
bad = 0
for dt in ("float32", "complex64"):
    x = rng.normal(size=(6, 4)).astype(dt)
    try:
        l, s, r = array_split(x, method="svd:eig", absorb=None)
        err = np.abs((l * s) @ r - x).max()
        print(dt, "ok", err, l.dtype)
        if err > 1e-3:
            bad = 1
    except Exception as e:
        print(dt, type(e).__name__, str(e)[:300])
        bad = 1
sys.exit(bad)
