import sys, warnings
import numpy as np
import quimb.tensor as qtn
warnings.simplefilter('ignore')
psi = qtn.MPS_rand_state(5, 4, seed=0)
ref = psi.partial_trace_to_dense_canonical((1, 2), normalized=False)
ref_dense = psi.partial_trace_exact((1, 2), normalized=False, get='matrix') if hasattr(psi, 'partial_trace_exact') else ref
p2 = psi.copy()
p2.exponent = 1.5
dense = p2.to_dense()
ok = np.allclose(dense, psi.to_dense() * 10**1.5)
out = p2.partial_trace_to_dense_canonical((1, 2), normalized=False)
ok &= np.allclose(out, ref * 10**3.0)
ok &= np.allclose(ref, ref_dense)
ok &= np.allclose(p2.partial_trace_to_dense_canonical((1, 2), normalized=True), ref / np.trace(ref))
ok &= np.allclose(p2.to_dense(), dense) and p2.exponent == 1.5
sys.exit(0 if ok else 1)
