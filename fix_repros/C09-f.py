import sys
import numpy as np
import quimb.tensor as qtn
mpo = qtn.MPO_rand(4, 3, phys_dim=2, sites=[0, 2], seed=0) if False else None
rng = np.random.default_rng(0)
mpo = qtn.MatrixProductOperator([rng.normal(size=(3, 2, 2)), rng.normal(size=(3, 2, 2))], sites=[0, 2], L=4)
ref = mpo.fill_empty_sites()
try:
    out = mpo.fill_empty_sites(phys_dim=2)
except UnboundLocalError as e:
    print('UnboundLocalError', e); sys.exit(1)
ok = np.allclose(out.to_dense(), ref.to_dense()) and out.num_tensors == 4
sys.exit(0 if ok else 1)
