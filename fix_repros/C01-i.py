import sys
import numpy as np
import quimb.tensor as qtn
from quimb.tensor.array_ops import calc_fuse_perm_and_shape
t = qtn.Tensor(np.arange(2.0).reshape(1, 2), inds=("a", "b"))
d = t.to_dense((), ("b", "a"))
print(d.shape, calc_fuse_perm_and_shape((1, 2), ((), (1, 0))))
bad = d.shape != (1, 2)
tn = qtn.TensorNetwork([t])
A = tn.aslinearoperator(("a",), ("b",))
B = tn.aslinearoperator(("b",), ("a",))
print(A.to_dense().shape, B.to_dense().shape)
bad |= A.to_dense().shape != (1, 2) or B.to_dense().shape != (2, 1)
sys.exit(1 if bad else 0)
