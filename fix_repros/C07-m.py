import sys
import numpy as np
import quimb as qu, quimb.tensor as qtn
circ = qtn.Circuit(3)
circ.apply_gate("RY", 0.4, 0); circ.apply_gate("RY", 1.1, 1)
circ.apply_gate("IDEN", 1, controls=[0])
circ.apply_gate("CNOT", 1, 2)
circ.apply_gate("RX", 0.3, 2)
bad = False
psi = circ.to_dense()
for name, f, ref in [
    ("local_expectation", lambda: circ.local_expectation(qu.pauli("Z"), 2),
     qu.expec(qu.ikron(qu.pauli("Z"), [2] * 3, 2), psi)),
    ("partial_trace", lambda: circ.partial_trace((2,)), qu.ptr(psi, [2] * 3, 2)),
    ("compute_marginal", lambda: circ.compute_marginal((2,)), np.diag(qu.ptr(psi, [2] * 3, 2)).real),
]:
    try:
        x = f()
        ok = np.allclose(x, ref)
        print(name, ok); bad |= not ok
    except KeyError as e:
        print(name, "KeyError", e); bad = True
sys.exit(1 if bad else 0)
