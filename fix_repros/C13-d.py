import sys
import numpy as np
import quimb as qu
import quimb.tensor as qtn
peps = qtn.PEPS.rand(2, 2, 2, seed=0, dtype="complex128")
G = qu.rand_herm(4, seed=2)
terms = {((0, 0), (0, 1)): G}
ref = peps.compute_local_expectation(terms, normalized=False, max_bond=16)
pe = peps.copy(); pe.equalize_norms_(1.0)
print("exponent", pe.exponent)
v = pe.compute_local_expectation(terms, normalized=False, max_bond=16)
vex = pe.local_expectation_exact(G, ((0, 0), (0, 1)), normalized=False)
print(ref, v, vex)
sys.exit(int(abs(v - ref) > 1e-8 * abs(ref)))
