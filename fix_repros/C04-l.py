import sys
import numpy as np
import quimb.tensor as qtn
rng = np.random.default_rng(0)
a = qtn.Tensor(np.array([1.0, 0.0]), inds=("x",))
b = qtn.Tensor(np.array([0.0, 1.0]), inds=("x",))
c = qtn.Tensor(rng.normal(size=(2, 3)), inds=("p", "q"))
d = qtn.Tensor(rng.normal(size=(3, 2, 2)), inds=("q", "r", "s"))
tn = qtn.TensorNetwork([a, b, c, d])
bad = 0
try:
    out = tn.rank_simplify()
    v = out.contract(all, output_inds=("p", "r", "s")).data
    print(out.num_tensors, v.ravel()[:4])
    bad |= not np.allclose(v, 0.0)
    v2 = (tn * 0.0).contract(all, output_inds=("p", "r", "s")).data
    v3 = (tn * np.float64(0.0)).contract(all, output_inds=("p", "r", "s")).data
    bad |= not (np.allclose(v2, 0.0) and np.allclose(v3, 0))
except Exception as e:
    print(type(e).__name__, e)
    bad = 1
sys.exit(int(bad))
