import sys
import numpy as np
from quimb.tensor.decomp import array_split
rng = np.random.default_rng(0)
a = rng.normal(size=(5, 5))
x = a @ a.T + np.eye(5)
bad = 0
for absorb in ("left", "right", None, "lorthog"):
    try:
        l, s, r = array_split(x, method="cholesky", absorb=absorb, cutoff=0.0)
        print("cholesky", absorb, "returned", [None if t is None else t.shape for t in (l, s, r)])
        bad = 1
    except ValueError as e:
        print("cholesky", absorb, "ValueError", str(e)[:60])
sys.exit(bad)
