import sys
import numpy as np
import quimb as qu

# separable but discordant, asymmetric state
a0, a1 = qu.up(), qu.plus()
b0, b1 = qu.up(), qu.down()
rho = 0.5 * (qu.kron(a0 @ a0.H, b0 @ b0.H) + qu.kron(a1 @ a1.H, b1 @ b1.H))
swapped = qu.permute(rho, [2, 2], [1, 0])
d01 = qu.quantum_discord(rho, [2, 2], 0, 1)
d10 = qu.quantum_discord(rho, [2, 2], 1, 0)
ds01 = qu.quantum_discord(swapped, [2, 2], 0, 1)
print(d01, d10, ds01)
# three subsystems
rho3 = qu.kron(rho, qu.rand_rho(2, seed=0))
e10 = qu.quantum_discord(rho3, [2, 2, 2], 1, 0)
e01 = qu.quantum_discord(rho3, [2, 2, 2], 0, 1)
print(e01, e10)
ok = abs(d10 - ds01) < 1e-6 and abs(d01 - d10) > 1e-3 and abs(e10 - ds01) < 1e-6 and abs(e01 - d01) < 1e-6
sys.exit(0 if ok else 1)
