import sys
import numpy as np
import quimb as qu, quimb.tensor as qtn
bad = False
for kind in ("SWAP", "IDEN", "raw"):
    circ = qtn.Circuit(2)
    circ.apply_gate("RX", 0.3, 0, parametrize=True)
    if kind == "raw":
        circ.apply_gate_raw(qu.hadamard(), (1,))
    elif kind == "SWAP":
        circ.apply_gate("SWAP", 0, 1)
    else:
        circ.apply_gate("IDEN", 1)
    circ.apply_gate("RZ", 0.1, 1, parametrize=True)
    tn = circ.psi
    for t in tn:
        if isinstance(t, qtn.PTensor):
            t.params = t.params + 0.5
    try:
        circ.update_params_from(tn)
        ok = np.allclose(circ.psi.to_dense(), tn.to_dense()) and np.allclose(circ.gates[0].params, [0.8])
        print(kind, ok); bad |= not ok
    except (KeyError, ValueError) as e:
        print(kind, type(e).__name__, str(e)[:80]); bad = True
sys.exit(1 if bad else 0)
