import sys
import numpy as np
import quimb.tensor as qtn
rng = np.random.default_rng(0)
D = qtn.Tensor(np.diag(rng.normal(size=3)), inds=("i", "j"), tags="D")
T = qtn.Tensor(rng.normal(size=(2, 4, 3, 3)), inds=("a", "c", "i", "j"), tags="T")
E = qtn.Tensor(rng.normal(size=(4, 2)), inds=("c", "e"), tags="E")
tn = qtn.TensorNetwork([D, T, E])
out = ("a", "e")
ref = tn.contract(all, output_inds=out).data
bad = 0
td = tn.diagonal_reduce(output_inds=out)
for t in td:
    print(t.inds)
    if len(set(t.inds)) != len(t.inds):
        bad = 1
for seq in ["D", "DS", "DA", "DL", "DP"]:
    try:
        v = tn.full_simplify(seq, output_inds=out).contract(all, output_inds=out).data
        err = abs(v - ref).max() / abs(ref).max()
        print(seq, err)
        bad |= err > 1e-10
    except Exception as e:
        print(seq, type(e).__name__, str(e)[:100])
        bad = 1
sys.exit(int(bad))
