import sys
import numpy as np
import quimb.tensor as qtn
tn = qtn.HTN_random_ksat(3, 6, alpha=2.0, seed=3, mode="dense")
ref = tn.contract(all, output_inds=())
bad = 0
try:
    t2 = tn.hyperinds_resolve(sorter="centrality")
    v = t2.contract(all, output_inds=())
    print(ref, v)
    bad |= abs(v - ref) > 1e-9 * abs(ref)
    t3 = tn.compress_simplify(hyperind_resolve_sort="centrality")
    v = t3.contract(all, output_inds=())
    print(ref, v)
    bad |= abs(v - ref) > 1e-9 * abs(ref)
except ModuleNotFoundError as e:
    print(type(e).__name__, e)
    bad = 1
sys.exit(int(bad))
