import sys
import numpy as np
import quimb as qu, quimb.tensor as qtn
psi = qtn.MPS_rand_state(2, 2, seed=0)
psi.view_as_(qtn.TensorNetworkGenVector, site_tag_id="I{}", site_ind_id="k{}", sites=[0, 1])
G = qu.pauli("Z") & qu.pauli("Z")
try:
    x = psi.local_expectation(G, [0, 1], max_bond=8, optimize="greedy", reduce=True)
except ValueError as e:
    print("ValueError", e); sys.exit(1)
y = psi.local_expectation(G, [0, 1], max_bond=8, optimize="greedy", reduce=False)
print(x, y); sys.exit(0 if abs(x - y) < 1e-10 else 1)
