import sys
import numpy as np
import quimb.tensor as qtn
rng = np.random.default_rng(0)
a = rng.normal(size=(3, 4)) + 1j * rng.normal(size=(3, 4))
b = rng.normal(size=(4, 3)) + 1j * rng.normal(size=(4, 3))
tn = qtn.TensorNetwork([qtn.Tensor(a, ('l', 'x')), qtn.Tensor(b, ('x', 'r'))])
A = tn.aslinearoperator(['l'], ['r'])
w = rng.normal(size=3) + 1j * rng.normal(size=3)
M = a @ b
ok = np.allclose(A.H.astype('complex128') @ w, M.conj().T @ w)
ok &= np.allclose(A.conj().astype('complex128') @ w, M.conj() @ w)
ok &= np.allclose(A.astype('complex128') @ w, M @ w)
sys.exit(0 if ok else 1)
