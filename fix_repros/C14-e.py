import sys
import numpy as np
import quimb.tensor as qtn
from quimb.tensor.belief_propagation import HD1BP
from quimb.tensor.belief_propagation.bp_common import compute_tensor_marginal
rng = np.random.default_rng(0)
ts = [
    qtn.Tensor(rng.uniform(size=(2, 3)), inds=("a", "b")),
    qtn.Tensor(rng.uniform(size=(3, 2)), inds=("b", "c")),
    qtn.Tensor(rng.uniform(size=(2,)), inds=("c",)),
]
tn = qtn.TensorNetwork(ts)
bp = HD1BP(tn, output_inds=()) if False else HD1BP(tn)
bp.run(tol=1e-13)
tid = next(iter(tn.ind_map["a"]))
try:
    m = compute_tensor_marginal(tn, tid, bp.messages)
except TypeError as e:
    print("TypeError", e)
    sys.exit(1)
exact = tn.contract(output_inds=("a", "b")).data
exact = exact / exact.sum()
print(np.abs(m - exact).max())
sys.exit(0 if np.allclose(m, exact) else 1)
