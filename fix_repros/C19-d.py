import sys
import numpy as np
import quimb.operator as qop

hs = qop.HilbertSpace(2)
H = qop.SparseOperatorBuilder(hilbert_space=hs)
H += 1.0, ("x", 0), ("y", 1)
A = H.build_dense()
rng = np.random.default_rng(0)
psi = rng.normal(size=4) + 1j * rng.normal(size=4)
ex = (psi.conj() @ A @ psi) / (psi.conj() @ psi)
amps = {tuple(hs.rank_to_flatconfig(r)): psi[r] for r in range(4)}
ev = H.evaluate_exact_flatconfigs(lambda fc: amps[tuple(fc)])
camps = {tuple(sorted(hs.rank_to_config(r).items())): psi[r] for r in range(4)}
ev2 = H.evaluate_exact_configs(lambda c: camps[tuple(sorted(c.items()))])
print(ex, ev, ev2)
sys.exit(0 if (np.allclose(ev, ex) and np.allclose(ev2, ex)) else 1)
