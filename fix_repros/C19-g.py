import sys
import numpy as np
import quimb.operator as qop

H = qop.SparseOperatorBuilder(hilbert_space=qop.HilbertSpace(2))
H += 1.0, ("x", 0), ("x", 1)
H += -1.0, ("x", 0), ("x", 1)
A = H.build_matrix_ikron()
As = H.build_matrix_ikron(sparse=True)
if A is None or As is None:
    sys.exit(1)
ok = np.allclose(A, H.build_dense()) and np.allclose(As.toarray(), 0) and A.shape == (4, 4)
sys.exit(0 if ok else 1)
