import sys
import numpy as np
import quimb as qu, quimb.tensor as qtn
bad = False
for L in (4, 5):
    ham = qtn.ham_1d_heis(L, cyclic=True)
    psi0 = qtn.MPS_rand_state(L, 2, cyclic=True, seed=1)
    tebd = qtn.TEBD(psi0, ham, dt=0.05, progbar=False, imag=True, split_opts=dict(cutoff=1e-10, max_bond=8))
    tebd.update_to(0.5, order=2)
    n = abs(tebd.pt.H @ tebd.pt)
    print(L, n)
    bad |= abs(n - 1) > 1e-6
sys.exit(1 if bad else 0)
