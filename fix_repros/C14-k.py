import sys
import numpy as np
import quimb.tensor as qtn
from quimb.tensor.belief_propagation import D2BP
bad = 0
for expo in (0.0, 1.0):
    psi = qtn.MPS_rand_state(4, 3, seed=3, dtype="complex128") * 3.0
    psi.exponent = expo
    exact = (psi.H & psi).contract() 
    bp = D2BP(psi.copy())
    bp.run(tol=1e-12)
    before = bp.contract()
    bp.normalize_tensors()
    after = bp.contract()
    bp2 = D2BP(psi.copy())
    bp2.run(tol=1e-12)
    lse = bp2.contract_loop_series_expansion(gloops=4)
    rho = bp2.partial_trace_loop_series_expansion((0,), gloops=4, normalized=False); lse2 = np.trace(rho)
    rho = bp2.partial_trace_gloop_expand((0,), gloops=4, normalized=False); lse3 = np.trace(rho)
    print(expo, exact, before, after, lse, lse2, lse3)
    for v in (before, after, lse, lse2, lse3):
        if abs(v - exact) > 1e-8 * abs(exact):
            bad = 1
sys.exit(bad)
