import sys
import numpy as np
import quimb.tensor as qtn
mpo = qtn.MPO_identity(6, sites=[1, 3])
ok = mpo.L == 6
ok &= qtn.MPO_identity(4).L == 4
ok &= qtn.MPO_identity(6, sites=[1, 3, 5]).L == 6
ok &= tuple(mpo.gen_sites_present()) == (1, 3)
sys.exit(0 if ok else 1)
