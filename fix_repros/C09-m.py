import sys, warnings
import numpy as np
import quimb.tensor as qtn
warnings.simplefilter('ignore')
psi = qtn.MPS_rand_state(6, 4, seed=0)   # normalised
ref = psi.singular_values(3)
p2 = psi.copy()
p2.multiply_(10**-2.0, spread_over=1)
p2.exponent = 2.0       # same state, norm kept in the exponent
ok = np.allclose(p2.to_dense(), psi.to_dense())
ok &= np.allclose(p2.singular_values(3), ref)
ok &= np.allclose(p2.schmidt_values(3), ref**2)
ok &= np.allclose(p2.entropy(3), psi.entropy(3))
ok &= np.allclose(p2.bipartite_schmidt_state(3, get='rho-dense'), psi.bipartite_schmidt_state(3, get='rho-dense'))
ok &= p2.exponent == 2.0
sys.exit(0 if ok else 1)
