import sys
import quimb as qu, quimb.tensor as qtn
peps = qtn.PEPS3D.rand(2, 2, 2, 2, seed=0)
try:
    x = peps.local_expectation(qu.pauli("Z"), [(0, 0, 0)], max_bond=8, optimize="greedy")
except TypeError as e:
    print("TypeError", e); sys.exit(1)
print(x); sys.exit(0)
