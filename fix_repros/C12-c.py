import sys
import numpy as np
from quimb.tensor.decomp import similarity_compress
rng = np.random.default_rng(0)
bad = 0
for dt in ["float32", "complex64", "float64", "complex128"]:
    X = rng.normal(size=(6, 6))
    if "complex" in dt:
        X = X + 1j * rng.normal(size=(6, 6))
    X = (X @ X.conj().T).astype(dt)
    for method in ["eigh", "svd", "eig", "biorthog"]:
        try:
            Cl, Cr = similarity_compress(X, 3, method=method, renorm=True)
            ok = method == "eig" or (Cl.dtype == X.dtype and Cr.dtype == X.dtype)
            tr = np.trace(Cr @ X @ Cl) / np.trace(X)
            print(dt, method, Cl.dtype, Cr.dtype, abs(tr - 1))
            bad |= (not ok) or abs(tr - 1) > 1e-4
        except Exception as e:
            print(dt, method, type(e).__name__, str(e)[:150].replace("\n", " "))
            bad = 1
sys.exit(int(bad))
