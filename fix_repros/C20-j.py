import sys
import quimb as qu

try:
    fns = qu.pauli_correlations(None, precomp_func=True)
except AttributeError as e:
    print(e)
    sys.exit(1)
sys.exit(0)
