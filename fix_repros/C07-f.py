import sys
import numpy as np
import quimb as qu
import quimb.tensor as qtn
psi0 = qtn.MPS_rand_state(4, 2, seed=0)
bad = 0
ref = qtn.Circuit(psi0=psi0.view_as(qtn.TensorNetworkGenVector))
ref.apply_gate("H", 1); ref.apply_gate("X", 3, controls=(0, 1)); ref.apply_gate("RY", 0.4, 2)
ref = ref.to_dense()
for mk in (lambda: qtn.CircuitDense(psi0=psi0.copy()), lambda: qtn.Circuit(psi0=psi0.copy(), gate_contract=True)):
    c = mk()
    try:
        c.apply_gate("H", 1); c.apply_gate("X", 3, controls=(0, 1)); c.apply_gate("RY", 0.4, 2)
        err = abs(c.to_dense() - ref).max()
        print(type(c).__name__, err, c._psi.num_tensors)
        bad |= err > 1e-10
    except Exception as e:
        print(type(c).__name__, type(e).__name__, str(e)[:100], c._psi.num_tensors)
        bad = 1
sys.exit(int(bad))
