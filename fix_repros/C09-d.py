import sys, warnings
import numpy as np
import quimb.tensor as qtn
warnings.simplefilter('ignore')
ok = True
try:
    psi = qtn.MatrixProductState([np.array([1.0, 2.0])], sites=[2], L=4)
    ok &= psi.L == 4 and psi.num_tensors == 1 and psi.outer_inds() == ('k2',)
    ok &= tuple(psi.gen_sites_present()) == (2,)
except Exception as e:
    print('MPS', type(e).__name__, e); ok = False
try:
    A = np.arange(4.0).reshape(2, 2)
    mpo = qtn.MatrixProductOperator([A], sites=[2], L=4)
    ok &= mpo.L == 4 and mpo.num_tensors == 1 and set(mpo.outer_inds()) == {'k2', 'b2'}
    ok &= np.allclose(mpo[2].data, A)
except Exception as e:
    print('MPO', type(e).__name__, e); ok = False
# unchanged
ok &= qtn.MatrixProductState([np.array([1.0, 2.0])]).L == 1
ok &= qtn.MatrixProductOperator([np.eye(2)]).L == 1
sys.exit(0 if ok else 1)
