import sys
import quimb.tensor as qtn
H = qtn.MPO_ham_heis(2)
dmrg = qtn.DMRG2(H, bond_dims=[4], cutoffs=1e-10)
try:
    dmrg.solve(tol=1e-9, sweep_sequence='L', verbosity=0, max_sweeps=2)
except UnboundLocalError as e:
    print("UnboundLocalError", e); sys.exit(1)
print(dmrg.energy)
sys.exit(0 if abs(dmrg.energy - (-0.75)) < 1e-8 else 1)
