import sys
import numpy as np
import quimb.tensor as qtn
t = qtn.rand_tensor((3, 4, 5), 'abc', seed=0)
ok = True
tn = t.split(['a'], absorb='U,s,VH', cutoff=0.0)
ok &= tn.num_tensors == 3 and np.allclose(tn.contract(output_inds='abc').data, t.data)
tn0 = t.split(['a'], absorb=None, cutoff=0.0)
ok &= np.allclose(tn0.contract(output_inds='abc').data, t.data)
for get in ('arrays', 'tensors'):
    ok &= len(t.split(['a'], absorb='U,s,VH', get=get, cutoff=0.0)) == 3
    ok &= len(t.split(['a'], absorb='both', get=get, cutoff=0.0)) == 2
l, s, r = t.split(['a'], absorb='s', get='arrays', cutoff=0.0)
ok &= l is None and r is None and np.allclose(s, t.split(['a'], get='values', method='svd', cutoff=0.0))
sys.exit(0 if ok else 1)
