import sys
import numpy as np
import quimb as qu

dims = [2, 3, 2]
rho = qu.rand_rho(12, seed=0)
k = qu.rand_ket(12, seed=1)
ex = qu.ptr(rho, dims, [0, 2])
exk = qu.ptr(k, dims, 1)
bad = False
for fmt in ("coo", "bsr", "csr", "csc"):
    try:
        r = qu.ptr(qu.sparse(rho, stype=fmt), dims, [0, 2])
        bad |= not np.allclose(r, ex)
        r = qu.sparse(rho, stype=fmt).ptr(dims, [0, 2])
        bad |= not np.allclose(r, ex)
        r = qu.ptr(qu.sparse(k, stype=fmt), dims, 1)
        bad |= not np.allclose(r, exk)
    except (TypeError, NotImplementedError) as e:
        print(fmt, type(e).__name__, e)
        bad = True
sys.exit(1 if bad else 0)
