import sys, warnings
import numpy as np
import quimb.tensor as qtn
warnings.simplefilter('ignore')
psi = qtn.MPS_rand_state(5, 4, seed=0)
L = psi.L
info = {}
out, p2 = psi.measure(L - 1, remove=True, info=info, seed=1)
ok = p2.L == L - 1
ok &= info['cur_orthog'] == (L - 2, L - 2)
ok &= p2.calc_current_orthog_center() == (L - 2, L - 2) if hasattr(p2, 'calc_current_orthog_center') else ok
try:
    out2, p3 = p2.measure(0, remove=True, info=info, seed=2)
    ok &= p3.L == L - 2 and info['cur_orthog'] == (0, 0)
    ok &= np.allclose(p3.norm(), 1.0)
except Exception as e:
    print(type(e).__name__, e); ok = False
# interior site unaffected
info = {}
_, p4 = psi.measure(2, remove=True, info=info, seed=1)
ok &= info['cur_orthog'] == (2, 2) and np.allclose(p4[2].norm(), 1.0)
sys.exit(0 if ok else 1)
