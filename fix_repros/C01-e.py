import sys
import numpy as np
import quimb.tensor as qtn
A = qtn.rand_tensor((2, 3), "ax", tags="A", seed=0)
B = qtn.rand_tensor((3, 2), "xb", tags="B", seed=1)
C = qtn.rand_tensor((3, 2), "xc", tags="C", seed=2)
D = qtn.rand_tensor((2, 4), "cd", tags="D", seed=3)
tn = A | B | C | D
bad = False
for out in ("abd", "abx", "ab"):  # hyper index x; bond requested as output; dangling d summed
    ref = tn.contract(all, output_inds=out).data
    try:
        x = tn.contract_cumulative(["A", "B", "C", "D"], output_inds=out).data
        ok = x.shape == ref.shape and np.allclose(x, ref)
        print(out, ok); bad |= not ok
    except Exception as e:
        print(out, type(e).__name__, str(e)[:80]); bad = True
sys.exit(1 if bad else 0)
