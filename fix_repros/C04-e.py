import sys
import numpy as np
import quimb.tensor as qtn
rng = np.random.default_rng(0)
B = qtn.Tensor(rng.normal(size=(8, 8)), inds=("k1", "k2"))
C = qtn.Tensor(rng.normal(size=(8, 8)), inds=("k2", "k3"))
A = qtn.Tensor(rng.normal(size=(2, 8)), inds=("a", "k1"))
D = qtn.Tensor(rng.normal(size=(8, 2)), inds=("k3", "d"))
bad = 0
for ts in ([B, C, A, D], [C, B, D, A], [A, B, C, D], [C, D, B, A]):
    tn = qtn.TensorNetwork(ts)
    ref = tn.contract(all, output_inds=("a", "d")).data
    tg = tn.copy()
    try:
        tg.gauge_all_simple_(max_iterations=5, tol=0.0, damping=0.5)
        sizes = {ix: {t.ind_size(ix) for t in tg._inds_get(ix)} for ix in tg.ind_map}
        val = tg.contract(all, output_inds=("a", "d")).data
        err = abs(val - ref).max() / abs(ref).max()
        print(sizes, "err", err)
        if err > 1e-10 or any(len(s) > 1 for s in sizes.values()):
            bad = 1
    except Exception as e:
        print(type(e).__name__, e)
        bad = 1
sys.exit(bad)
