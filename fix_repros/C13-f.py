import sys
import numpy as np
import quimb as qu, quimb.tensor as qtn
peps = qtn.PEPS.rand(3, 3, 2, seed=0, dtype=complex)
rng = np.random.default_rng(0)
G = rng.normal(size=(4, 4))  # not symmetric under exchange of the two sites
a, b = (0, 1), (1, 1)
opts = dict(max_bond=16, normalized=True)
try:
    x = peps.compute_local_expectation({(b, a): G}, **opts)
except KeyError as e:
    print("KeyError", e); sys.exit(1)
Gf = G.reshape(2, 2, 2, 2).transpose(1, 0, 3, 2).reshape(4, 4)
y = peps.compute_local_expectation({(a, b): Gf}, **opts)
print(x, y)
sys.exit(0 if abs(x - y) < 1e-10 else 1)
