import sys
import numpy as np
import quimb as qu
import quimb.tensor as qtn
from quimb.tensor.belief_propagation import D2BP
psi = qtn.MPS_rand_state(5, 3, seed=3, dtype="complex128")
bp = D2BP(psi)
bp.run(tol=1e-12)
rng = np.random.default_rng(0)
G = rng.normal(size=(2, 2)) + 1j * rng.normal(size=(2, 2))
bp.gate_(G, (2,))
bp.run(tol=1e-12)
got = bp.contract()
exact = (bp.tn.H & bp.tn).contract()
print(got, exact)
sys.exit(0 if abs(got - exact) < 1e-8 * abs(exact) else 1)
