import sys, warnings
import numpy as np
import quimb.tensor as qtn
warnings.simplefilter('ignore')
ok = True
try:
    I1 = qtn.MPO_identity(1)
    ok &= I1.L == 1 and np.allclose(I1.to_dense(), np.eye(2))
    I1c = qtn.MPO_identity(1, cyclic=True, phys_dim=3)
    ok &= I1c.L == 1 and np.allclose(I1c.to_dense(), np.eye(3))
    Is = qtn.MPO_identity(4, sites=[2])
    ok &= Is.L == 4 and Is.num_tensors == 1 and np.allclose(Is[2].data, np.eye(2))
    ok &= set(Is.outer_inds()) == {'k2', 'b2'}
    one = qtn.MatrixProductOperator([np.arange(4.0).reshape(2, 2)])
    ok &= np.allclose(one.identity().to_dense(), np.eye(2))
    ok &= np.allclose(qtn.MPO_identity_like(one).to_dense(), np.eye(2))
except ValueError as e:
    print('ValueError', e); ok = False
ok &= np.allclose(qtn.MPO_identity(3).to_dense(), np.eye(8))
ok &= np.allclose(qtn.MPO_identity(3, cyclic=True).to_dense(), np.eye(8))
sys.exit(0 if ok else 1)
