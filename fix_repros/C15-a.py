import sys
import numpy as np
import quimb as qu

X, Z = qu.pauli("X"), qu.pauli("Z")
ex = np.kron(X, Z)
try:
    a = qu.kron(X, Z, stype="csr")
    b = qu.kron(X, Z, coo_build=True)
    c = qu.kronpow(X, 2, stype="coo")
    d = qu.ikron([X, Z], [2, 2], [0, 1], stype="csr")
    e = qu.pkron(qu.kron(X, Z), [2, 2], [0, 1], stype="csr")
except AttributeError as e:
    print(e)
    sys.exit(1)
ok = all(not qu.issparse(m) for m in (a, b, c, d, e))
ok &= np.allclose(a, ex) and np.allclose(b, ex) and np.allclose(d, ex) and np.allclose(e, ex) and np.allclose(c, np.kron(X, X))
sys.exit(0 if ok else 1)
