import sys
import numpy as np
import quimb as qu
import quimb.tensor as qtn

L = 3
H = qtn.SpinHam1D(cyclic=True)
H += 1.0, "Z", "Z"
H += 0.3, "X", "Y"
A = H.build_sparse(L).toarray()
sz, sx, sy = (qu.spin_operator(s) for s in "zxy")
dims = [2] * L
ex = sum(
    qu.ikron([sz, sz], dims, [i, (i + 1) % L]) + 0.3 * qu.ikron([sx, sy], dims, [i, (i + 1) % L])
    for i in range(L)
)
sys.exit(0 if np.allclose(A, ex) else 1)
