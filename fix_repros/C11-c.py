import sys
import numpy as np, scipy.linalg as sla
import quimb as qu, quimb.tensor as qtn
def run(L, dt):
    rng = np.random.default_rng(0)
    def rh():
        a = rng.normal(size=(4, 4)) + 1j * rng.normal(size=(4, 4))
        return (a + a.conj().T) / 4
    H2 = {(i, (i + 1) % L): rh() for i in range(L)}
    ham = qtn.LocalHam1D(L, H2=H2, cyclic=True)
    Hd = sum(qu.pkron(h, [2] * L, (i, j)) for (i, j), h in H2.items())
    psi0 = qtn.MPS_rand_state(L, 2, cyclic=True, seed=1, dtype=complex)
    psi0 /= (psi0.H @ psi0) ** 0.5
    T = 0.1
    tebd = qtn.TEBD(psi0, ham, dt=dt, progbar=False, split_opts=dict(cutoff=1e-12, max_bond=16))
    tebd.update_to(T, order=2)
    exact = sla.expm(-1j * T * np.asarray(Hd)) @ psi0.to_dense()
    return np.linalg.norm(tebd.pt.to_dense() - exact)
bad = False
for L in (4, 3):
    e1, e2 = run(L, 0.02), run(L, 0.01)
    print(L, e1, e2)
    bad |= not (e2 < 0.5 * e1)
sys.exit(1 if bad else 0)
