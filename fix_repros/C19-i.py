import sys
import quimb.operator as qop
try:
    H = qop.rand_operator(4, 3, 2, seed=0)
    H.build_dense()
except ValueError as e:
    print(e)
    sys.exit(1)
sys.exit(0)
