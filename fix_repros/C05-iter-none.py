import sys
import numpy as np
from quimb.tensor.decomp import array_split
rng = np.random.default_rng(0)
bad = 0
for shape in ((8, 8), (9, 6)):
    x = rng.normal(size=shape)
    for method in ("svds", "isvd", "eigsh"):
        xx = x
        if method == "eigsh":
            if shape[0] != shape[1]:
                continue
            xx = x + x.T
        try:
            l, s, r = array_split(xx, method=method, cutoff=0.0, max_bond=None, absorb=None)
            err = np.abs((l * s) @ r - xx).max()
            print(method, shape, s.size, err)
            if err > 1e-8:
                bad = 1
        except Exception as e:
            print(method, shape, type(e).__name__, str(e)[:80])
            bad = 1
sys.exit(bad)
