import warnings
import numpy as np
import quimb.tensor as qtn
from quimb.tensor import decomp
warnings.simplefilter('ignore')
rng = np.random.default_rng(0)
x = rng.normal(size=(4, 4)); x = x @ x.T + 4 * np.eye(4)
for method in decomp._SPLIT_FNS:
    for absorb in ['auto', None, 'U,s,VH', 's', 'both', 'left', 'right', 'U', 'VH', 'Us', 'sVH', 'lsqrt', 'rsqrt']:
        try:
            l, s, r = decomp.array_split(x, method=method, absorb=absorb, cutoff=0.0)
        except Exception as e:
            continue
        expect_s = absorb in (None, 'U,s,VH', 's')
        if (s is not None) != expect_s:
            print("MISMATCH", method, absorb, s is not None)
print("done")
