import sys, warnings
import numpy as np
import quimb as qu
import quimb.tensor as qtn
warnings.simplefilter('ignore')
psi = qtn.MPS_rand_state(4, 3, seed=0)
psi.normalize()
G = qu.pauli('Z')
ref = psi.local_expectation_exact(G, (1,))
x0 = psi.local_expectation_gloop_expand(G, (1,), gloops=[(0, 1, 2, 3)], gauges={}, autoreduce=False)
try:
    x = psi.local_expectation_gloop_expand(G, (1,), gloops=[(0, 1, 2, 3)], autoreduce=False)
except AttributeError as e:
    print('AttributeError', e); sys.exit(1)
ok = np.allclose(x, ref) and np.allclose(x0, ref)
sys.exit(0 if ok else 1)
