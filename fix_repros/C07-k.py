import sys
import quimb.tensor as qtn
circ = qtn.Circuit(2)  # no gates
try:
    print(list(circ.sample_gate_by_gate(3, seed=0)))
except ModuleNotFoundError as e:
    print("cannot run here:", e); sys.exit(2)
except TypeError as e:
    print("TypeError", e); sys.exit(1)
sys.exit(0)
