import sys
import numpy as np
import quimb as qu

A = qu.rand_herm(6, seed=0)
A[0, 1:] = 0
A[1:, 0] = 0
try:
    el = qu.eigvalsh(A, autoblock=True)
except Exception as e:
    print(type(e).__name__)
    sys.exit(1)
sys.exit(0 if np.allclose(el, np.linalg.eigvalsh(A)) else 1)
