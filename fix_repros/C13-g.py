import sys, warnings
import numpy as np
import quimb as qu
import quimb.tensor as qtn
warnings.simplefilter('ignore')
psi = qtn.MPS_rand_state(5, 4, seed=0)
Z = qu.pauli('Z'); ZZ = qu.pauli('Z') & qu.pauli('Z')
terms_i = {1: Z, 3: Z, (0, 1): ZZ}
terms_t = {(1,): Z, (3,): Z, (0, 1): ZZ}
ok = True
for method in ('canonical', 'envs'):
    ref = psi.compute_local_expectation(terms_t, method=method, return_all=True)
    try:
        out = psi.compute_local_expectation(terms_i, method=method, return_all=True)
        tot = psi.compute_local_expectation(terms_i, method=method)
    except TypeError as e:
        print(method, 'TypeError', e); ok = False; continue
    ok &= set(out) == set(terms_i)
    ok &= all(np.allclose(out[k], ref[k if isinstance(k, tuple) else (k,)]) for k in terms_i)
    ok &= np.allclose(tot, sum(ref.values()))
# with a known canonical centre
info = {}
p2 = psi.copy(); p2.canonicalize_(2, info=info)
try:
    out = p2.compute_local_expectation_canonical(terms_i, info=info, return_all=True)
    ok &= all(np.allclose(out[k], ref[k if isinstance(k, tuple) else (k,)]) for k in terms_i)
except TypeError as e:
    print('TypeError', e); ok = False
sys.exit(0 if ok else 1)
