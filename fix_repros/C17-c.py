import sys
import numpy as np
import scipy.sparse as sp
import quimb as qu

A = qu.rand_herm(8, seed=0)
B = sp.csr_matrix(np.diag(np.arange(1.0, 9.0)))
try:
    lk, vk = qu.eigh(A, k=2, B=B, backend="numpy")
    lk2 = qu.eigvalsh(A, k=2, B=B, backend="numpy")
    lk3 = qu.eigvalsh(qu.sparse(A), k=2, B=B, backend="numpy")
except Exception as e:
    print(type(e).__name__, e)
    sys.exit(1)
import scipy.linalg as sla
ex = sla.eigh(A, B.toarray(), eigvals_only=True)[:2]
sys.exit(0 if np.allclose(lk, ex) and np.allclose(lk2, ex) and np.allclose(lk3, ex) else 1)
