import sys
import numpy as np
import quimb as qu
import quimb.tensor as qtn
psi = qtn.MPS_rand_state(4, 3, seed=0)
X = qu.pauli('X')
ref = psi.gate_inds(X, ('k1',), contract=True).to_dense()
try:
    ok = np.allclose(psi.gate_inds(X, 'k1', contract=True).to_dense(), ref)
    ok &= np.allclose(psi.gate_inds(X, 'k1').to_dense(), ref)
    ok &= np.allclose(psi.gate_inds(X, 'k1', contract='split-gate').to_dense(), ref)
except KeyError as e:
    print('KeyError', e); ok = False
sys.exit(0 if ok else 1)
