import sys
import numpy as np
import quimb as qu

rho = qu.rand_rho(4, seed=0)
out = qu.dephase(rho, 0.5, rand_rank=1)
D = (out - 0.5 * rho) / 0.5
dg = np.diag(D).real
ok = np.allclose(D, np.diag(dg)) and np.isclose(dg.max(), 1.0) and np.count_nonzero(np.abs(dg) > 1e-12) == 1
# the float proportion 1.0 is still the identity
out1 = qu.dephase(rho, 0.5, rand_rank=1.0)
ok &= np.allclose(out1, 0.5 * rho + 0.5 * np.eye(4) / 4)
sys.exit(0 if ok else 1)
