import sys
import numpy as np
import quimb.operator as qop

H = qop.SparseOperatorBuilder(hilbert_space=qop.HilbertSpace(3))
H += 1.0, ("x", 0), ("x", 1)
H += 0.5, ("z", 2)
A = H.build_dense().real
x = np.random.default_rng(0).random(8)
out = np.ones(8)
H.matvec(x, out=out)
bad = not np.allclose(out, A @ x)
out2 = np.ones(8)
H.matvec(x, out=out2, parallel=2)
bad |= not np.allclose(out2, A @ x)
sys.exit(1 if bad else 0)
