import sys
import numpy as np
import quimb.tensor as qtn
tn = qtn.TN2D_rand(3, 3, 2, seed=0, dist="uniform")
ex0 = tn.contract(all)
tn.exponent = 3.4
ex = tn.contract(all)
x = tn.contract_full_bootstrap(3, max_bond=16)
print(x, ex, ex0)
sys.exit(0 if abs(x / ex - 1) < 1e-6 else 1)
