import sys
import numpy as np
import quimb.operator as qop

H = qop.SparseOperatorBuilder(hilbert_space=qop.HilbertSpace(2))
H += 1.0, ("x", 0), ("x", 1)
H += 0.5, ("z", 0)
A = H.build_dense()
rng = np.random.default_rng(0)
x = rng.random(4) + 1j * rng.random(4)
try:
    y = H.aslinearoperator() @ x
except Exception as e:
    print(type(e).__name__, str(e)[:200])
    sys.exit(1)
sys.exit(0 if np.allclose(y, A @ x) else 1)
