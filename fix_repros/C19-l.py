import sys
import numpy as np
import quimb as qu
import quimb.tensor as qtn

S = 1
ops = [qu.spin_operator(a, S=S) for a in "xyz"]
SS = sum(np.kron(A, A) for A in ops)
ok = True
for theta in (np.pi / 2, 0.4):
    ex = np.cos(theta) * SS + np.sin(theta) * SS @ SS
    Hm = qtn.tensor_builder.MPO_ham_bilinear_biquadratic(2, theta, S=S).to_dense()
    Hl = qtn.tensor_builder.ham_1d_bilinear_biquadratic(2, theta, S=S).get_gate((0, 1))
    ok &= np.allclose(Hm, ex) and np.allclose(Hl, ex)
sys.exit(0 if ok else 1)
