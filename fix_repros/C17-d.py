import sys
import numpy as np
import quimb as qu
from quimb.linalg.rand_linalg import rsvd

rng = np.random.default_rng(0)
A = rng.normal(size=(40, 5)) @ rng.normal(size=(5, 30))
s = rsvd(A, 1e-6, mode="adapt", compute_uv=False)
if isinstance(s, tuple):
    sys.exit(1)
ex = np.linalg.svd(A, compute_uv=False)[:5]
sys.exit(0 if np.allclose(s[:5], ex) else 1)
