import sys
import numpy as np
import quimb.tensor as qtn
H = qtn.MPO_ham_heis(6)
dmrg = qtn.DMRG2(H, bond_dims=1, cutoffs=0.0)
dmrg.solve(tol=1e-9, max_sweeps=6, verbosity=0)
psi = dmrg.state
n2 = (psi.H @ psi).real
e = (psi.H @ (H.apply(psi))).real / n2 if hasattr(H, "apply") else None
print("norm^2", n2, "dmrg.energy", dmrg.energy, "normalised energy", e)
sys.exit(int(abs(n2 - 1) > 1e-8 or abs(dmrg.energy - e) > 1e-8))
