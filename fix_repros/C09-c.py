import sys
import numpy as np
import quimb.tensor as qtn
rng = np.random.default_rng(0)
arrays = [rng.normal(size=(3, 2)), rng.normal(size=(3, 2))]
psi = qtn.MatrixProductState(arrays, sites=[0, 2], L=4)
ok = psi.L == 4
ok &= list(psi.gen_sites_present()) == [0, 2]
mpo = qtn.MatrixProductOperator([rng.normal(size=(3, 2, 2)), rng.normal(size=(3, 2, 2))], sites=[0, 2], L=4)
ok &= mpo.L == 4
ok &= psi.to_dense().shape == (4, 1)
sys.exit(0 if ok else 1)
