import sys
import quimb as qu

psi = qu.rand_ket(4, seed=0)
try:
    g = qu.schmidt_gap(psi, [1, 4], 0)
except IndexError as e:
    print(e)
    sys.exit(1)
sys.exit(0 if abs(g - 1.0) < 1e-12 and abs(qu.schmidt_gap(psi, [1, 4], 1) - 1.0) < 1e-12 else 1)
