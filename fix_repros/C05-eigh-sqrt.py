import sys
import numpy as np
from quimb.tensor.decomp import array_split
bad = 0
for seed in range(20):
    rng = np.random.default_rng(seed)
    a = rng.normal(size=(8, 3))
    x = a @ a.T  # rank 3 psd
    for xx in (x, np.stack([x, x])):
        for absorb in ("both", "lsqrt", "rsqrt"):
            l, s, r = array_split(xx, method="eigh", absorb=absorb, cutoff=0.0)
            for f in (l, r):
                if f is not None and not np.isfinite(f).all():
                    bad = 1
            if absorb == "both" and not np.allclose(l @ r, xx, atol=1e-10):
                bad = 1
print("defect" if bad else "ok")
sys.exit(bad)
