import sys
import quimb.tensor as qtn
bad = False
cases = {
    "MPS": qtn.MPS_rand_state(3, 2),
    "MPO": qtn.MPO_rand_herm(3, 2),
    "PEPS": qtn.PEPS.rand(2, 2, 2),
    "PEPO": qtn.PEPO.rand(2, 2, 2),
    "PEPS3D": qtn.PEPS3D.rand(2, 2, 2, 2),
    "Dense1D": qtn.Dense1D.rand(3),
    "MERA": qtn.MERA.rand(4),
    "generic": qtn.TensorNetwork(qtn.MPS_rand_state(3, 2)),
}
for name, tn in cases.items():
    v = tn.copy(virtual=True)
    c = tn.copy()
    shared = all(v.tensor_map[tid] is t for tid, t in tn.tensor_map.items())
    copied = all(c.tensor_map[tid] is not t for tid, t in tn.tensor_map.items())
    print(name, type(v).__name__, shared, copied)
    bad |= not (shared and copied and type(v) is type(tn))
sys.exit(1 if bad else 0)
