import sys
import numpy as np
import quimb.tensor as qtn
tn = qtn.TN3D_rand(3, 3, 3, D=2, seed=0)
x = tn.contract()
out = tn.contract_boundary_from((0, 2), (0, 2), (0, 1), 'zmin', max_bond=16, inplace=False)
if out is None:
    sys.exit(1)
ok = np.allclose(out.contract(), x) and np.allclose(tn.contract(), x) and out is not tn
ok &= out.num_tensors < tn.num_tensors
tn2 = tn.copy()
r = tn2.contract_boundary_from_((0, 2), (0, 2), (0, 1), 'zmin', max_bond=16)
ok &= r is tn2
sys.exit(0 if ok else 1)
