import sys
import quimb.tensor as qtn
A = qtn.rand_tensor((1, 2, 2), "abx"); B = qtn.rand_tensor((1, 2, 2, 3), "abxc")
tn = A & B
try:
    stn = tn.squeeze(fuse=True, include=["a"])
except KeyError as e:
    print("KeyError", e); sys.exit(1)
print(stn)
sys.exit(0)
