import sys
import quimb as qu

p = qu.basis_vec(8, 9)  # |22> of two qutrits
r = qu.simulate_counts(p, 10, phys_dim=3, seed=0)
p1 = qu.basis_vec(2, 3)
r1 = qu.simulate_counts(p1, 10, phys_dim=3, seed=0)
r2 = qu.simulate_counts(qu.ghz_state(3), 50, seed=0)
print(r, r1, r2)
ok = r == {"22": 10} and r1 == {"2": 10} and set(r2) == {"000", "111"}
sys.exit(0 if ok else 1)
