import sys
import numpy as np
import quimb.tensor as qtn
t = qtn.rand_tensor((3, 4, 5), 'abc', seed=0)
try:
    s = t.split(['a'], get='values')
except KeyError as e:
    print('KeyError', e); sys.exit(1)
ref = np.linalg.svd(t.to_dense(['a'], ['b', 'c']), compute_uv=False)
ok = np.allclose(s, ref) and np.allclose(t.split(['a'], get='values', method='svd'), ref)
ok &= np.allclose(t.singular_values(['a']), ref)
sys.exit(0 if ok else 1)
