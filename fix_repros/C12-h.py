import sys
import numpy as np
import quimb.tensor as qtn
tn = qtn.TN2D_rand(2, 2, 2, seed=0, dist="uniform")
ex = tn.contract(all)
bad = False
for n in (2, 3):
    try:
        x = tn.contract_full_bootstrap(n, max_bond=16)
        print(n, x, ex); bad |= abs(x / ex - 1) > 1e-6
    except KeyError as e:
        print(n, "KeyError", e); bad = True
sys.exit(1 if bad else 0)
