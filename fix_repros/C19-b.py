import sys
import numpy as np
import quimb.operator as qop

H = qop.SparseOperatorBuilder(hilbert_space=qop.HilbertSpace(2))
H += 1.0, ("x", 0), ("x", 1)
H += 0.7, ("I", 1)
H += 1.0, ("z", 0), ("z", 0)
try:
    Hk = H.build_local_terms()
    lh = H.build_local_ham()
except ValueError as e:
    print(e)
    sys.exit(1)
# the local terms must sum to the operator
import quimb as qu
A = sum(qu.ikron(h, [2, 2], [H.site_to_reg(s) for s in sites]) for sites, h in Hk.items())
ok = np.allclose(A, H.build_dense())
H2 = qop.fermi_hubbard_from_edges([(0, 1), (1, 2)], U=2.0, pauli_decompose=True) if False else None
sys.exit(0 if ok else 1)
