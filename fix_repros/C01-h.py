import sys
import numpy as np
import quimb.tensor as qtn
A = qtn.rand_tensor((2, 3), "ab", seed=0); B = qtn.rand_tensor((2, 3), "ab", seed=1)
tn = A | B
op = tn.aslinearoperator((), ())
print(op.shape, op.matvec(np.ones(1)))
try:
    x = op.to_dense()
except AttributeError as e:
    print("AttributeError", e); sys.exit(1)
print(x.shape)
sys.exit(0 if x.shape == (1, 1) and np.allclose(x, tn.contract(all)) else 1)
