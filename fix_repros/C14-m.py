import sys
import numpy as np
import quimb.tensor as qtn
from quimb.tensor.belief_propagation import HD1BP
bad = 0
rng = np.random.default_rng(0)
# tree
ts = [qtn.Tensor(rng.uniform(size=(3, 3, 3)), inds=("a", "b", "c"))]
ts += [qtn.Tensor(rng.uniform(size=(3,)), inds=(ix,)) for ix in "abc"]
tree = qtn.TensorNetwork(ts)
# loop with a dangling branch
ts = [
    qtn.Tensor(rng.uniform(size=(2, 2)), inds=("a", "b")),
    qtn.Tensor(rng.uniform(size=(2, 2)), inds=("b", "c")),
    qtn.Tensor(rng.uniform(size=(2, 2, 2)), inds=("c", "a", "d")),
    qtn.Tensor(rng.uniform(size=(2, 2)), inds=("d", "e")),
    qtn.Tensor(rng.uniform(size=(2,)), inds=("e",)),
]
loop = qtn.TensorNetwork(ts)
for tn in (tree, loop):
    exact = tn.contract(output_inds=())
    bp = HD1BP(tn.copy())
    bp.run(tol=1e-13)
    v = bp.contract_gloop_expand()
    print(exact, bp.contract(), v)
    if not np.allclose(v, exact):
        bad = 1
sys.exit(bad)
