import sys
import numpy as np
import quimb as qu

p = qu.rand_ket(35, seed=0)
A, B = qu.rand_herm(7, seed=1), qu.rand_herm(5, seed=2)
try:
    c = qu.correlation(p, A, B, 0, 1, dims=[7, 5], sparse=True)
except AttributeError as e:
    print(e)
    sys.exit(1)
ex = qu.correlation(p, A, B, 0, 1, dims=[7, 5], sparse=False)
sys.exit(0 if np.allclose(c, ex) else 1)
