import sys
import numpy as np
import quimb.tensor as qtn
mps = qtn.MPS_rand_state(6, 4, seed=0)
mps.equalize_norms_(1.0)
mps.exponent = mps.exponent + 1.5
ref = mps.to_dense()
bad = 0
for method in ["fit", "fit-zipup"]:
    a = qtn.tensor_network_1d_compress(mps.copy(), max_bond=4, cutoff=0.0, method=method, inplace=False)
    t = mps.copy()
    b = qtn.tensor_network_1d_compress(t, max_bond=4, cutoff=0.0, method=method, inplace=True)
    ea = abs(a.to_dense() - ref).max() / abs(ref).max()
    eb = abs(b.to_dense() - ref).max() / abs(ref).max()
    print(method, ea, eb, a.exponent, b.exponent)
    bad |= eb > 1e-6
sys.exit(int(bad))
