import sys
import numpy as np
import quimb.tensor as qtn
from quimb.tensor.belief_propagation import HD1BP
bad = 0
for seed in range(6):
    rng = np.random.default_rng(seed)
    ts = [qtn.Tensor(rng.normal(size=(3, 3, 3)), inds=("a", "b", "c"))]
    ts += [qtn.Tensor(rng.normal(size=(3,)), inds=(ix,)) for ix in "abc"]
    tn = qtn.TensorNetwork(ts)
    exact = tn.contract()
    bp = HD1BP(tn.copy())
    bp.run(tol=1e-13)
    v0 = bp.contract()
    bp.normalize_messages()
    v1 = bp.contract()
    ok = all(abs(qtn.array_contract([bp.messages[tid, ind] for tid in tids], [(0,)] * len(tids), []) - 1) < 1e-10 for ind, tids in bp.tn.ind_map.items())
    print(seed, exact, v0, v1, ok)
    if not (np.allclose([v0, v1], exact) and ok):
        bad = 1
sys.exit(bad)
