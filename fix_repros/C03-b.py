import sys
import numpy as np
import quimb.tensor as qtn
tn = (qtn.MPS_rand_state(6, 3, seed=1).H & qtn.MPS_rand_state(6, 3, seed=2))
tn.add_tag('ALL')
for i, t in enumerate(tn.tensors):
    t.add_tag(f'T{i}')
tn.exponent = 2.0
x = tn.contract()
a, b = tn.partition(['T0', 'T1'], inplace=False)
y = (a | b).contract()
c, d = tn.copy().partition(['T0', 'T1'], inplace=True)
z = (c | d).contract()
ok = np.allclose(x, z) and np.allclose(x, y) and a.exponent == c.exponent and b.exponent == d.exponent
sys.exit(0 if ok else 1)
