import sys
import numpy as np
import quimb as qu
import quimb.tensor as qtn
psi0 = qtn.MPS_rand_state(3, 2, seed=0)
bad = 0
for cls in (qtn.Circuit, qtn.CircuitDense):
    c = cls(psi0=psi0.copy())
    c.apply_gate("X", 0); c.apply_gate("CX", 0, 2); c.apply_gate("H", 1)
    ref = qu.expec(qu.ikron(qu.pauli("Z"), [2] * 3, 2), (qu.ikron(qu.hadamard(), [2]*3, 1) @ qu.pkron(qu.CNOT(), [2]*3, (0, 2)) @ qu.ikron(qu.pauli("X"), [2]*3, 0) @ psi0.to_dense()))
    try:
        c.amplitude("000")
        list(c.sample(2, seed=1))
        v = c.local_expectation(qu.pauli("Z"), 2)
        print(cls.__name__, v, ref)
        bad |= abs(v - ref) > 1e-9
    except TypeError as e:
        print(cls.__name__, type(e).__name__, e)
        bad = 1
sys.exit(int(bad))
