import sys
import numpy as np
import quimb.tensor as qtn
psi = qtn.MPS_rand_state(4, 3, seed=0) * 3.0
ref = psi.partial_trace_exact([1, 2], get='matrix')
try:
    t = psi.partial_trace_exact([1, 2], get='tensor')
except AttributeError as e:
    print('AttributeError', e); sys.exit(1)
k = [psi.site_ind(i) for i in (1, 2)]; b = [f'b{i}' for i in (1, 2)]
ok = isinstance(t, qtn.Tensor)
m = t.to_dense([i for i in t.inds[:2]], [i for i in t.inds[2:]])
ok &= np.allclose(m, ref) and np.allclose(np.trace(m), 1.0)
t2 = psi.partial_trace_exact([1, 2], get='tensor', normalized=False)
ok &= np.allclose(t2.data / np.trace(t2.to_dense(t2.inds[:2], t2.inds[2:])), t.data)
sys.exit(0 if ok else 1)
