import sys
import numpy as np
import quimb as qu
import quimb.tensor as qtn

Z = np.asarray(qu.spin_operator("z"))
X = np.asarray(qu.spin_operator("x"))
H = qtn.SpinHam1D()
H += 1.0, Z, Z
H += 0.5, X
try:
    lh = H.build_local_ham(3)
except TypeError as e:
    print(e)
    sys.exit(1)
ex = np.kron(Z, Z) + 0.5 * np.kron(X, np.eye(2)) + 0.25 * np.kron(np.eye(2), X)
sys.exit(0 if np.allclose(lh.get_gate((0, 1)), ex) else 1)
