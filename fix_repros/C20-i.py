import sys
import quimb as qu

bad = 0
for s in range(40):
    k = qu.rand_ket(8, seed=s)
    try:
        t = qu.trace_distance(k, k)
        bad += abs(t) > 1e-7
    except ValueError:
        bad += 1
print(bad)
sys.exit(1 if bad else 0)
