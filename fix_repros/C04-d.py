import sys
import numpy as np
import quimb.tensor as qtn
bad = False
t = qtn.rand_tensor((2, 3), "ab", tags="A")
tn = qtn.TensorNetwork([t])
tn2 = qtn.TensorNetwork([t, qtn.rand_tensor((2,), "c", tags="B")])
for name, f in [
    ("gauge_all_simple", lambda x: x.gauge_all_simple()),
    ("gauge_all('simple')", lambda x: x.gauge_all("simple")),
    ("two disconnected", lambda x: tn2.gauge_all_simple()),
    ("compress_all_simple", lambda x: x.compress_all_simple(max_bond=2)),
]:
    try:
        r = f(tn)
        print(name, "ok")
    except (StopIteration, RuntimeError, KeyError) as e:
        print(name, type(e).__name__, e); bad = True
# C12-k: 1x1 lattice
tn2d = qtn.TN2D_rand(1, 1, 2)
try:
    tn2d.gauge_all_simple()
    print("1x1 ok")
except (StopIteration, RuntimeError, KeyError) as e:
    print("1x1", type(e).__name__); bad = True
sys.exit(1 if bad else 0)
