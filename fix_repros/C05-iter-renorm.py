import sys
import numpy as np
from quimb.tensor.decomp import array_split
rng = np.random.default_rng(0)
x = rng.normal(size=(8, 8))
xh = x + x.T
bad = 0
for method, xx in (("svds", x), ("isvd", x), ("eigsh", xh)):
    tot = np.sum(np.linalg.svd(xx, compute_uv=False) ** 2)
    # max_bond 6 > d/2 -> dense fallback
    l, s, r = array_split(xx, method=method, cutoff=0.0, max_bond=6, absorb=None, renorm=2)
    print(method, s.size, np.sum(s**2), tot)
    if not np.isclose(np.sum(s**2), tot):
        bad = 1
sys.exit(bad)
