import sys
import numpy as np
import quimb as qu, quimb.tensor as qtn
A = qtn.rand_tensor((2, 2, 3), ("k0", "k1", "b"), seed=0)
tn = qtn.TensorNetwork([A])
G = qu.rand_matrix(4, seed=1)
ref = tn.gate_inds(G, ("k0", "k1"), contract=False)
bad = False
for c in ("split-gate", "swap-split-gate", "auto-split-gate"):
    x = tn.gate_inds(G, ("k0", "k1"), contract=c)
    ok = set(x.outer_inds()) == {"k0", "k1", "b"} and np.allclose(
        x.to_dense(["k0", "k1", "b"]), ref.to_dense(["k0", "k1", "b"]))
    print(c, x.outer_inds(), ok); bad |= not ok
sys.exit(1 if bad else 0)
