import sys
import numpy as np
import quimb as qu, quimb.tensor as qtn
psi = qtn.MPS_rand_state(1, 1, seed=0, normalize=False) * 3.0
Z = qu.pauli("Z")
try:
    x = psi.compute_local_expectation({(0,): Z}, method="envs", normalized=True)
except KeyError as e:
    print("KeyError", e); sys.exit(1)
v = psi.to_dense()
y = (v.conj().T @ Z @ v).item() / (v.conj().T @ v).item()
print(x, y)
sys.exit(0 if abs(x - y) < 1e-12 else 1)
