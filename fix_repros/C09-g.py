import sys
import numpy as np
import quimb as qu
import quimb.tensor as qtn
ok = True
psi = qtn.MPS_w_state(1)
ok &= psi.L == 1 and psi.num_tensors == 1
if ok:
    ok &= np.allclose(psi.to_dense().ravel(), [0, 1])
for L in (2, 3, 5):
    ok &= np.allclose(qtn.MPS_w_state(L).to_dense(), qu.w_state(L))
sys.exit(0 if ok else 1)
