import sys
import numpy as np
import quimb.tensor as qtn
bad = 0
for dt in ["float32", "complex64", "float64"]:
    A = qtn.rand_tensor((4, 3), ("a", "k"), dtype=dt)
    B = qtn.rand_tensor((3, 4), ("k", "c"), dtype=dt)
    tn = qtn.TensorNetwork([A, B])
    ref = tn.contract(all, output_inds=("a", "c")).data
    try:
        tn.compress_between(A.tags or 0, 1) if False else qtn.tensor_compress_bond(*tn.tensors, method="svd:eig", max_bond=2)
        A.split("a", method="svd:eig", cutoff=1e-6)
        A.split("a", method="svd:eig", cutoff=0.0)
        print(dt, "ok")
    except Exception as e:
        print(dt, type(e).__name__, str(e)[:300])
        bad = 1
try:
    Z = qtn.Tensor(np.zeros((4, 3)), ("a", "k"))
    Z.split("a", method="svd:eig", cutoff=1e-10)
    print("zero ok")
except Exception as e:
    print("zero (not repaired, informational)", type(e).__name__, str(e)[:300])
sys.exit(bad)
