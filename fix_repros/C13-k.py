import sys, warnings
import numpy as np
import quimb.tensor as qtn
warnings.simplefilter('ignore')
psi = qtn.MPS_rand_state(6, 4, seed=0) * 3.0
ok = True
rho = psi.partial_trace_compress([0, 1, 2], [3, 4, 5])
tr = rho.trace(['kA', 'kB'], ['bA', 'bB'])
ok &= np.allclose(tr, 1.0)
rho_n = psi.partial_trace_compress([0, 1, 2], [3, 4, 5], renorm=False)
ok &= np.allclose(rho_n.trace(['kA', 'kB'], ['bA', 'bB']), 9.0)
rho2 = psi.partial_trace_compress([0, 1], [3, 4, 5])
ok &= np.allclose(rho2.trace(['kA', 'kB'], ['bA', 'bB']), 1.0)
pn = psi / 3.0
# n.b. logneg_subsys has its own shortcut for this bipartition (not via partial_trace_compress)
print(tr, psi.logneg_subsys([0, 1, 2], [3, 4, 5]), pn.logneg_subsys([0, 1, 2], [3, 4, 5]))
sys.exit(0 if ok else 1)
