import sys, cmath
import quimb.tensor as qtn
circ = qtn.Circuit(2)
circ.apply_gate("X", 0)
bad = False
for seq in ("ADCRS", "", "R"):
    x = circ.amplitude("00", simplify_sequence=seq)
    print(repr(seq), x)
    bad |= cmath.isnan(complex(x))
sys.exit(1 if bad else 0)
