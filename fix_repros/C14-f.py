import sys
import quimb.tensor as qtn
from quimb.tensor.belief_propagation import sample_d2bp
bad = 0
for d in (1, 2, 3):
    psi = qtn.MPS_rand_state(4, 2, phys_dim=d, seed=0)
    try:
        config, tn, omega = sample_d2bp(psi, seed=1)
        print(d, config, omega)
    except ValueError as e:
        print(d, "ValueError", e)
        bad = 1
sys.exit(bad)
