import sys
import numpy as np
import quimb.tensor as qtn
bad = 0
for perm in [False, True]:
    A = qtn.Tensor(np.random.randn(2, 3), inds=("o", "b1"), tags="R")
    B = qtn.Tensor(np.random.randn(3, 2), inds=("b1", "b2"), tags="R")
    if perm:
        A.transpose_("b1", "o")
    C = qtn.Tensor(np.random.randn(2, 4), inds=("b2", "x"), tags="K")
    tn = qtn.TensorNetwork([A, B, C])
    out = tn.replace_with_identity("R")
    print(perm, out.outer_inds())
    if set(out.outer_inds()) != {"o", "x"}:
        bad = 1
sys.exit(bad)
