import sys
import numpy as np
from quimb.tensor.decomp import array_split
rng = np.random.default_rng(0)
bad = 0
q, _ = np.linalg.qr(rng.normal(size=(12, 12)))
for ev in (np.linspace(1.0, 0.1, 12), np.array([-1.0, 0.9, -0.8, 0.7] + [0.01 * i for i in range(8)])):
    x = (q * ev) @ q.T
    l, s, r = array_split(x, method="eigsh", cutoff=0.0, max_bond=2, absorb=None)
    want = np.sort(np.abs(ev))[::-1][:2]
    print(s, want, np.abs((l * s) @ r - (q[:, :2] * ev[:2]) @ q[:, :2].T).max())
    if not np.allclose(s, want):
        bad = 1
sys.exit(bad)
