import sys, warnings
import numpy as np
import quimb.tensor as qtn
warnings.simplefilter('ignore')
shapes = []
def fill(shape):
    shapes.append(tuple(shape))
    return np.ones(shape)
mpo = qtn.MatrixProductOperator.from_fill_fn(fill, L=6, bond_dim=3, phys_dim=2, sites=[1, 2, 4])
ok = shapes == [(3, 2, 2), (3, 3, 2, 2), (3, 2, 2)]
ok &= set(mpo.outer_inds()) == {f'{c}{i}' for c in 'kb' for i in (1, 2, 4)}
shapes.clear()
full = qtn.MatrixProductOperator.from_fill_fn(fill, L=3, bond_dim=3, phys_dim=2)
ok &= shapes == [(3, 2, 2), (3, 3, 2, 2), (3, 2, 2)]
sys.exit(0 if ok else 1)
