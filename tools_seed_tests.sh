#!/bin/bash
# usage: tools_seed_tests.sh <seeded-id> <test files...>  -- confirm the existing tests behave identically with the seeded
# patch applied (failing test ids compared with the unchanged checkout; some tests fail on both for lack of networkx)
ID=$1; shift
D=/verif/seeded/$ID
WT=/tmp/wt-tests-$ID
git -C /repo worktree remove --force $WT 2>/dev/null
git -C /repo worktree add -q $WT HEAD || exit 3
cd $WT
run() { PYTHONPATH=$WT NUMBA_CACHE_DIR=$WT/.nbcache /venv/bin/python -m pytest -q -p no:cacheprovider --timeout=900 -n 4 "$@" 2>&1 | grep -E "^(FAILED|ERROR)|^[0-9]+ (passed|failed|skipped)" | sed 's/ - .*//' | sort; }
run "$@" > /tmp/seed-tests-$ID.base.txt
git apply $D/patch.diff || { echo PATCH-DOES-NOT-APPLY; exit 3; }
run "$@" > /tmp/seed-tests-$ID.patched.txt
echo "base:    $(grep -E '^[0-9]+ (passed|failed|skipped)' /tmp/seed-tests-$ID.base.txt | tail -1)"
echo "patched: $(grep -E '^[0-9]+ (passed|failed|skipped)' /tmp/seed-tests-$ID.patched.txt | tail -1)"
if diff <(grep -E "^(FAILED|ERROR)" /tmp/seed-tests-$ID.base.txt) <(grep -E "^(FAILED|ERROR)" /tmp/seed-tests-$ID.patched.txt) >/dev/null; then echo "TESTS-IDENTICAL $ID"; else echo "TESTS-DIFFER $ID"; diff <(grep -E "^(FAILED|ERROR)" /tmp/seed-tests-$ID.base.txt) <(grep -E "^(FAILED|ERROR)" /tmp/seed-tests-$ID.patched.txt) | head -10; fi
cd /; git -C /repo worktree remove --force $WT
