#!/bin/sh
# Offline build of the overlay venv used by every check (idempotent).
# python 3.12 venv on top of /venv (quimb editable from /repo) + z3 / cvc5 / sympy / icontract / networkx
set -e
cd "$(dirname "$0")"
V=.venv
STAMP=$V/.stamp-v2
if [ -f "$STAMP" ] && $V/bin/python -c "import z3, cvc5, sympy, icontract, networkx, jsonschema, quimb" 2>/dev/null; then
  exit 0
fi
rm -rf "$V"
/venv/bin/python -m venv "$V"
echo "import site; site.addsitedir('/venv/lib/python3.12/site-packages')" > "$V/lib/python3.12/site-packages/_base.pth"
PIP_NO_INDEX=1 PIP_DISABLE_PIP_VERSION_CHECK=1 "$V/bin/pip" install -q --no-index --find-links /opt/veriftools/wheels \
   z3-solver cvc5 sympy icontract deal crosshair-tool jsonschema networkx >/dev/null
"$V/bin/python" -c "import z3, cvc5, sympy, icontract, networkx, jsonschema, quimb; print('overlay venv ok: z3', z3.get_version_string())"
touch "$STAMP"
