#!/bin/sh
# run the repository's pinned test-suite (guard off) with xdist and compare with the stable baseline
# usage: ./tools_baseline.sh [nproc]    -> prints tests of BASELINE.stable_pass that did not pass
N=${1:-10}
R=${VP_RUN_REPO:-/repo}
OUT=${BASELINE_OUT:-/tmp/baseline-junit.xml}
export BASELINE_OUT=$OUT
# N = 0: exactly the pinned command (serial: every test gets all BLAS threads); N > 0: xdist with N workers
if [ "$N" = "0" ]; then XD=""; else XD="-n $N"; fi
cd "$R" && /venv/bin/python -m pytest -ra -q -p no:cacheprovider --timeout=900 --continue-on-collection-errors $XD --junitxml=$OUT > $OUT.log 2>&1
/venv/bin/python - <<'PY'
import json, xml.etree.ElementTree as ET
base = set(json.load(open('/root/.vp/BASELINE.json'))['stable_pass'])
import os
t = ET.parse(os.environ['BASELINE_OUT']).getroot()
passed = set()
for tc in t.iter('testcase'):
    name = f"{tc.get('classname')}::{tc.get('name')}"
    if not any(ch.tag in ('failure','error','skipped') for ch in tc):
        passed.add(name)
missing = sorted(base - passed)
print("stable_pass:", len(base), "passed now:", len(passed & base), "missing:", len(missing))
for m in missing[:50]: print("  MISSING", m)
PY
