"""C03 -- labelled semantics: axis order never matters; non-in-place calls never mutate."""
import drivers.c03  # noqa: F401   (registers the drivers)

PROP = "C03"
LEVEL = "exploration"
LEVEL_TEXT = ("Bounded run-time contracts over every (f, f_) pair / method with an `inplace` parameter found by reflection on "
              "the tensor, network, 1D/2D/3D and arbitrary-geometry classes: receivers with read-only arrays are "
              "fingerprinted before and after the plain spelling, f(x) is compared tensor by tensor with f_(copy(x)) and, "
              "through an independent numpy.einsum evaluation, with f applied to axis-permuted copies of x. Binary operators "
              "likewise. No claim beyond the receivers, argument cases and dtypes of the table.")
LEVEL_NOTE = ("Trusted: numpy (einsum, transpose, read-only flag), the fingerprint (labels, tags, left_inds, dtype, bytes, "
              "exponent, maps, site properties), tolerances; the argument table defines the exercised domain.")
TECHNIQUE = "run-time contracts on the real functions vs independent numpy references over a stated bounded domain (bounded stand-in)"
E1 = []
PROVIDERS = []
TRUSTED = ["numpy.einsum evaluation of a network over its outer labels (times 10**exponent) as the labelled value",
           "numpy's read-only flag: any in-place write through an array shared with copies raises",
           "the fingerprint function (class, labels, tags, left_inds, dtype, shape, bytes, exponent, ind/tag maps, "
           "inner/outer sets, site-structure properties)",
           "axis permutations are produced with numpy.transpose + Tensor.modify(data, inds) (same label set: maps untouched)"]
ASSUMPTIONS = [
    "domain = the argument table in drivers/c03.py (1-10 cases per method) on 19 small receivers; dtypes f64/c128 (thorough: "
    "+ f32/c64, 4 seeds); tolerances: double rtol 1e-7 / atol 1e-9, single 2e-3 / 2e-4, multiplied by 1e3-1e6 for iterative "
    "or truncating routines",
    "a case refused (exception) by BOTH spellings is outside the method's domain for that receiver: counted as rejection, "
    "the receiver must still be unchanged; refused by the plain spelling only = violation",
    "results that depend on a random stream (randomize, gauge_all_random) and arguments that are positional by "
    "documentation are exempt from the permutation contract (flagged in the table); gauge-type routines are compared by "
    "value over the outer labels, not tensor by tensor",
    "the two spellings may wrap a fully contracted result differently (scalar / Tensor / one-tensor network): compared by value",
    "tensor ids are not part of the labelled content; documented-mutable arguments (gauges) are exempt from the frame check",
    "receivers avoid the literal label 'b' (hard-coded bond name of the split-gate modes, recorded under C02)",
]
EXPLANATION = ("E3: reflection finds ~170 methods with an `inplace` parameter on 19 receiver classes; for each argument case: "
               "(1) plain spelling leaves receiver/arguments unchanged (arrays read-only), (2) f(x) == f_(copy(x)) as labelled "
               "objects and the in-place spelling on a copy leaves the original unchanged, (3) f is invariant under random "
               "axis permutations of every tensor involved, (4) binary operators do not mutate operands, are permutation "
               "invariant and agree with numpy; (5) coverage: every reflected public method is exercised by at least one receiver.")
