"""C11 -- TEBD equals its documented Trotter product and converges at the stated order."""
import drivers.c11  # noqa: F401   (registers the drivers)

PROP = "C11"
LEVEL = "exploration"
LEVEL_TEXT = ("Bounded run-time contracts only: local Hamiltonian objects (1D, general graph, 2D, 3D) are compared term by term "
              "and as a sum with dense Hamiltonians built from the supplied dictionaries by explicit Kronecker products; their "
              "exponentiated gates and Trotter gate sequences with scipy expm; complete TEBD histories (several target times, "
              "orders 1/2/4, dt or tol, update_to / at_times, real and imaginary time, merged sweeps) on chains of up to 7 "
              "sites are replayed on a dense vector with the documented sweep order. Nothing is proved for all inputs.")
LEVEL_NOTE = ("Trusted: numpy / scipy.linalg.expm reference computations; the driver's reading of the documented rules (equal "
              "shares of one-site terms, right sweep = even bonds, left sweep = odd bonds, boundary bond with the right sweep "
              "on odd and the left sweep on even periodic chains, full steps of dt followed by one remainder step); "
              "to_dense() of the MPS as the observation; tolerances and domain bounds below.")
TECHNIQUE = "run-time contracts on the real functions vs independent numpy references over a stated bounded domain (bounded stand-in)"
E1 = []
PROVIDERS = []
TRUSTED = [
    "numpy / scipy.linalg reference computations (explicit Kronecker embedding, scipy.linalg.expm, dense matrix-vector products)",
    "MatrixProductState.to_dense() / TensorNetwork.to_dense() as the observation of the evolved state",
]
ASSUMPTIONS = [
    "domain: chains L 2..7 (periodic 3..6), local dimension 2 (3 for L <= 4), graphs with <= 6 nodes, lattices up to 3x3 and 2x2x2; "
    "random complex Hermitian (for LocalHam* also non-Hermitian) site-dependent non-exchange-symmetric terms",
    "no truncation: split cutoff 0 (state tolerance 1e-8) or the default cutoff 1e-10 on the discarded weight (tolerance 1e-3: imaginary time amplifies the truncation); no bond cap",
    "periodic MPS have no canonical form, so without truncation every gate doubles the bond: periodic histories are limited to two "
    "calls / two steps with orders 1 and 2; order 4 on periodic chains is covered at the level of single sweeps",
    "odd periodic chains: the right sweep contains two overlapping bonds, so merged (queued) right sweeps are not the product of the "
    "two sweeps: the exact formula is required only for single-step evolutions, otherwise first-order convergence",
    "t == T is required to 4 ulp (floating point t + (T - t)); tebd.err to 1e-9 relative; convergence ratios under step halving: "
    ">= 1.6 / 3.2 / 10 for orders 1 / 2 / 4",
    "number of full steps of a call = ceil((T - t)/dt - 1e-9) - 1, then one step of the remainder (exact multiples of dt included)",
    "arbitrary-geometry TEBDGen / SimpleUpdateGen only in imaginary time (the library rejects real time there), bond cap 64, cutoff 0",
]
EXPLANATION = (
    "Four drivers. local-ham-sum-and-expm: LocalHam1D / LocalHamGen / LocalHam2D / LocalHam3D built from every form of H2 / H1 "
    "argument (single array, default + overrides, explicit, keys in either or both orientations): sum of embedded terms == dense "
    "Hamiltonian, each term == pair part + equal shares of the one-site terms, get_gate_expm == expm(x term), orderings cover "
    "every pair once in site-disjoint layers. trotter-gates: trotter_schedule structure, get_trotter_gates and the Trotterised "
    "MPO propagator == written-out product formulas and converge at the stated order. tebd-product-formula: TEBD histories and "
    "single sweeps vs the dense replay, time and error bookkeeping, norm, convergence ratios. tebd-gen-sweeps: TEBDGen / "
    "SimpleUpdateGen sweeps on small graphs == ordered product of gates.")
