"""C18 -- Exact time evolution follows the Schroedinger / von Neumann equation"""
import drivers.c18  # noqa: F401   (registers the drivers)

PROP = "C18"
LEVEL = "exploration"          # until the E1 (SMT) part is added by the main session; do not claim more
LEVEL_TEXT = ("Bounded run-time contracts only: quimb.Evolution is driven through histories of update_to / at_times calls for "
              "every (method x state kind x Hamiltonian representation) cell on random Hermitian Hamiltonians of dimension "
              "2..8 and the reported (t, state) is compared with scipy.linalg.expm(-iH(t-t0)) applied one- or two-sidedly "
              "(time-dependent H: a converged 4th-order Magnus product); conservation laws, callback plumbing, int_stop, "
              "progress bar and the rejection of unsupported cells are checked on the same domain. Nothing is proved for "
              "larger systems or other Hamiltonians.")
LEVEL_NOTE = ("Trusted: scipy.linalg.expm, numpy.linalg.eigh (reference propagators); tolerances 1e-9 (solve), 1e-8 (expm), "
              "1e-5 (integrate), 2e-5 (time-dependent) on max|state - reference|; five input classes on which the unchanged "
              "library crashes or mis-evolves are recorded as known findings C18-a..e and are not value-checked.")
TECHNIQUE = "run-time contracts on the real functions vs independent numpy references over a stated bounded domain (bounded stand-in)"
E1 = []                        # filled later by the main session
PROVIDERS = []
TRUSTED = [
    "scipy.linalg.expm and numpy.linalg.eigh used for the reference propagators in drivers/c18.py",
    "the commutator-free 4th-order Magnus step (two exponentials per step, Gauss nodes) with step <= 0.02, accepted only "
    "when it agrees with step <= 0.01 to 1e-7",
]
ASSUMPTIONS = [
    "Hamiltonians: random Hermitian (complex and real symmetric), d in {2,3,4,5,8}, spectral radius about 1-2; "
    "time-dependent: H0 + cos(w1 t) H1 + sin(w2 t) t/(1+t^2) H2 with d in {2,3,4,6}; |t - t0| <= 7.5",
    "states: normalised random kets (qarray, ndarray column, 1-d array), pure and rank-<=3 mixed density operators "
    "(qarray, ndarray); sparse initial states are treated as 'accepted => must be right'",
    "supported cells (must work): solve x {qarray, ndarray, csr, csc, coo, bsr, presolved tuple/list}; integrate x the same "
    "plus scipy LinearOperator and callables H(t); expm x matrices x kets; a presolved (evals, evecs) pair always selects the "
    "diagonalisation route whatever `method` says (as the constructor documents)",
    "cells that must be rejected or else be right: solve / expm with LinearOperator or callable H(t); expm with a density "
    "operator; quimb.Lazy (only meaningful with the absent slepc backend; incidental exceptions tolerated there); a callable "
    "returning a LinearOperator",
    "time sequences: non-uniform, repeated, nearly repeated (1e-7 apart), starting at t0, one long step; non-monotone and "
    "t < t0 only for the diagonalisation and single-shot-exponential methods -- the property asks for them only where the "
    "method allows; the ODE stepper is only driven forward (driving it backwards occasionally makes scipy's dop853 run "
    "away to t ~ 1e4 with only a UserWarning -- observed, reported, outside the quantifier)",
    "integrator callbacks are invoked at every accepted step (documented), so for method='integrate' the contract is that "
    "every (t, state) a callback sees is correct and that the requested times are among them with exactly the reported "
    "state; for solve / expm: exactly one invocation per update with exactly the reported (t, state)",
    "tolerances: max-abs deviation 1e-9 solve, 1e-8 expm, 1e-5 integrate (scipy default rtol 1e-6), 2e-5 time-dependent; "
    "conserved quantities to 10x these",
]
EXPLANATION = (
    "E3 (bounded): 3 drivers. evolution-grid: the full support table (11 Hamiltonian representations x 3 methods x 6 state "
    "representations x 3 initial times x 5 time sequences x update_to / at_times), each history compared step by step with "
    "the matrix exponential (t, state, norm / trace, purity, energy), unsupported cells must raise, unknown methods must "
    "raise. time-dependent: callables returning qarray / ndarray / csr / LinearOperator with both integrator orders vs a "
    "time-ordered product of short-time exponentials; solve / expm must reject them. callbacks: single and dict compute "
    "callbacks with 2- and 3-argument signatures (the ham argument is the documented object), results vs own evaluation, "
    "int_stop (alone / with compute, rejected for other methods), progbar=True.")
