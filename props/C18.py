"""C18 -- Exact time evolution follows the Schroedinger / von Neumann equation"""
import drivers.c18  # noqa: F401   (registers the drivers)

PROP = "C18"
LEVEL = "exploration"
LEVEL_TEXT = "tbd"
LEVEL_NOTE = "tbd"
TECHNIQUE = "run-time contracts on the real functions vs independent numpy references over a stated bounded domain (bounded stand-in)"
E1 = []
PROVIDERS = []
TRUSTED = ["numpy / scipy.linalg reference computations"]
ASSUMPTIONS = []
EXPLANATION = "tbd"
