"""C19 -- all representations of one Hamiltonian denote the same operator; ranking is a bijection."""
import drivers.c19  # noqa: F401   (registers the drivers)

PROP = "C19"
LEVEL = "exploration"          # until the E1 (SMT) part is added by the main session
LEVEL_TEXT = ("Bounded run-time contracts only: every representation a SparseOperatorBuilder / model function / spin-chain "
              "builder can produce (dense, 7 sparse formats, matvec with and without workers, LinearOperator, MPO, local "
              "terms, LocalHam, ikron, coupling function, exact evaluation) is compared with an explicit sum of Kronecker "
              "products of textbook 2x2 (spin-S) matrices written in the driver, on random term lists of up to 7-8 qubits, "
              "before and after Jordan-Wigner and Pauli rewrites and inside Z2 / U1 / U1xU1 sectors; rank <-> configuration "
              "maps are checked exhaustively (bijection, exact sector, combinatorial size) for every labelling / ordering "
              "up to 11 sites. Nothing is proved; the domain is the stated finite one.")
LEVEL_NOTE = ("Trusted: numpy kron / matmul / einsum-free reshapes of the reference, scipy.sparse toarray, the textbook operator "
              "conventions stated in drivers/c19.py (Kronecker order = register order, bit 0 = up/empty, '+' = |1><0|, "
              "Jordan-Wigner z-strings on lower registers), tolerances 1e-10 (double) / 3e-5 (single) relative to max|H|.")
TECHNIQUE = "run-time contracts on the real functions vs independent numpy references over a stated bounded domain (bounded stand-in)"
E1 = []                        # filled later by the main session
PROVIDERS = []
TRUSTED = [
    "numpy reference computations (np.kron, matmul, reshape/transpose) and scipy.sparse .toarray()",
    "textbook single-site matrices and conventions defined in drivers/c19.py (not taken from quimb's _OPMAP)",
    "HilbertSpace.rank_to_config is used to *enumerate* a sector's basis; that this enumeration is a bijection onto exactly "
    "the sector is itself under contract (driver ranking-exhaustive), the order of the basis states is not prescribed",
]
ASSUMPTIONS = [
    "domain: <= 7 qubits for random builders (8 for model graphs / state machine, 11 for ranking), <= 7 (9) sites and D^L <= 729 "
    "for spin chains, localities 0..4, 1..40 terms",
    "rmatvec / adjoint of aslinearoperator are only required for hermitian operators (documented assumption of quimb)",
    "matvec with a matrix operand is only required without workers (documented operand: a vector); LinearOperator.matmat is "
    "required in both modes",
    "a real dtype is only requested (build_dense(dtype=float..)) when no term can carry a complex coefficient or operator",
    "sector contracts are stated for operators commuting with the symmetry (constructed so); whether single processed "
    "terms commute is recorded in params (termwise_symmetric) because the library's sector kernels depend on it",
    "sector matvec of operators whose single terms leave the sector is evaluated in a forked child without worker threads "
    "(the njit kernels index out of bounds there)",
    "LocalHam1D / build_local_ham forms are only required where that class can hold the operator (<= 2-local, every one-site "
    "term on a site covered by a bond, cyclic chains of length >= 3)",
    "cyclic chains: H = sum_i h_(i, i+1 mod L) (L = 2 counts the bond twice, as both quimb generators do); ham_j1j2 cyclic "
    "only for L >= 5, ham_heis_2D cyclic only for lattices >= 3 in both directions (otherwise wrap bonds coincide)",
    "MBL builders: the random fields are not predicted; required are (a) H - H_Heisenberg is a sum of single-site fields "
    "along the allowed directions bounded by dh (box / quasi-periodic), (b) MPO, LocalHam1D and matrix forms agree for one seed",
    "rand_operator: the meaning is taken from its own raw term list (terms_raw); structure (m terms, kmin..k operators "
    "from ops on distinct sites) is checked separately",
    "tolerances: 1e-10 * max(1,|H|max) in double precision, 3e-5 in single precision, 1e-8 for the SVD-compressed MPO",
]
EXPLANATION = (
    "E3 (bounded): six drivers. builder-representations: random term lists (all 13 operator names, several operators on one "
    "site, fermionic strings, repeated / cancelling terms, complex and integer coefficients) x site labellings x orderings "
    "x {none, Jordan-Wigner, Pauli(y), Pauli(zx)} x construction spellings: processed term list, build_dense, "
    "build_sparse_matrix in 7 formats and with workers, matvec (4 dtypes, 1-3 workers, out=, matrix operand), "
    "aslinearoperator (matvec, matmat, rmatvec, adjoint), build_mpo, build_local_terms, build_local_ham, "
    "build_matrix_ikron (dense / sparse), config_coupling / flatconfig_coupling, evaluate_exact_*, and rebuilds after "
    "add_term / toggles, each against the explicit Kronecker sum. ranking-exhaustive: every rank of every sector (none, Z2, "
    "U1, U1U1 with species or explicit blocks) for every labelling / ordering, plus mixed-radix spaces. symmetry-sectors: "
    "sector matrices / matvec / LinearOperator (default sector, per-call, override) vs the full reference restricted to the "
    "sector's basis states. model-builders: heisenberg / fermi_hubbard / spinless / rand_operator vs the model formula with "
    "own Jordan-Wigner strings. spin-chain-builders: MPO_ham_*, ham_1d_*, SpinHam1D vs ham_* generators vs the formula "
    "with textbook spin-S matrices. mpo-state-machine: dense term sets sharing prefixes / suffixes / coefficients.")
