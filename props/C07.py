"""C07 -- all circuit simulators implement the same unitary semantics, no stale caches"""
import drivers.c07  # noqa: F401   (registers the drivers)

PROP = "C07"
LEVEL = "exploration"
LEVEL_TEXT = "bounded run-time contracts only"
LEVEL_NOTE = ""
TECHNIQUE = "run-time contracts on the real functions vs independent numpy references over a stated bounded domain (bounded stand-in)"
E1 = []
PROVIDERS = []
TRUSTED = ["numpy reference computations"]
ASSUMPTIONS = []
EXPLANATION = ""
