"""C07 -- all circuit simulators implement the same unitary semantics, no stale caches"""
import drivers.c07  # noqa: F401   (registers the drivers)

PROP = "C07"
LEVEL = "exploration"
LEVEL_TEXT = ("Bounded run-time contracts: every registered gate against an own table of textbook matrices (unitarity for all "
              "parameter draws), and thousands of random programs on every circuit class, interleaving gate application, "
              "parameter updates, copies and every query type; each query is compared with the same query evaluated by an "
              "own dense numpy simulator on the gates recorded so far, and after every accepted or rejected gate the state "
              "held by the simulator is compared with that reference. Nothing is proved by this part.")
LEVEL_NOTE = ("Trusted: numpy (tensordot, eigh, qr, Generator) and the own gate table (H, X, Y, Z, S, T, SX, rotations, U1/2/3, "
              "controlled versions, SWAP, ISWAP, FSIM, FSIMG, GIVENS, RXX/RYY/RZZ, CCX/CCY/CCZ/CSWAP written from their "
              "textbook definitions; weak facts only for the qsim square roots, GIVENS2, XXPLUSYY, XXMINUSYY; unitarity only "
              "for SU4 -- for those the registry's own array defines the reference); numpy's Generator.choice(p=) inverting "
              "the cdf at one uniform draw (self-checked). Tolerances: 1e-8 exact simulators and MPS with cutoff 0, 1e-4 with "
              "the documented default cutoff 1e-10 / simple update, 2e-4 single precision, x10 for expectation values.")
TECHNIQUE = "run-time contracts on the real functions vs independent numpy references over a stated bounded domain (bounded stand-in)"
E1 = []
PROVIDERS = []
TRUSTED = [
    "numpy reference computations (tensordot / eigh / qr / random Generator)",
    "own table of textbook gate matrices (see LEVEL_NOTE for the gates that are only weakly specified)",
    "numpy Generator.choice(n, p=p) consumes one .random() double and inverts the cdf (checked when the driver starts)",
]
ASSUMPTIONS = [
    "programs on 1..6 qubits with <= 14 recorded gates and <= 26 steps; parameters uniform in [-3.5, 3.5] or special angles; "
    "initial state |0..0> or (20 %) a random MPS of bond 2 / a product MPS",
    "a gate may be rejected by any exception (counted; incidental exceptions listed separately); after a rejection the "
    "simulator must still hold the state of the gates recorded (read without the query caches)",
    "samples are checked by replaying numpy's uniform stream: every drawn outcome must be consistent with the reference "
    "conditional distribution at the same uniform draw (tolerance 1e-6 double, 2e-3 for complex64 / default-cutoff cases); "
    "sample_chaotic (unseeded inner draw), sample_gate_by_gate and simulate_counts are checked for support only",
    "idle wires of circ.uni (no tensor on the wire) are read as the identity",
    "PEPS simple update: only to_dense is compared (its local_expectation is approximate by design); PEPO: local_expectation "
    "on one site or one edge; both without truncation",
    "the harness runs drivers in daemonic workers: cotengra's 'auto' optimizers are kept from spawning a process pool "
    "(cotengra.parallel._IS_WORKER = True), path search is serial",
    "program-level risk flags (record_risk, copied_since_gate, quirks, ...) are part of the case parameters so that known "
    "findings are matched narrowly; they never change which checks are evaluated",
]
EXPLANATION = (
    "Driver gate-vocabulary: every label of ALL_GATES x parameter draws: Gate.array unitary and equal to the textbook "
    "matrix, Gate.build_mpo (0..2 controls) equal to the controlled matrix. Driver programs-vs-dense-reference: random "
    "programs over the full vocabulary, raw unitaries, (multi-)controls, all spellings of apply_gate, per-gate contract "
    "overrides, on Circuit (6 gate_contract settings), CircuitDense, CircuitMPS (3 modes), CircuitPermMPS, CircuitMPSLazy, "
    "CircuitPEPSSimpleUpdate, CircuitPEPOSimpleUpdate; queries to_dense, amplitude, uni / get_uni(transposed), partial_trace, "
    "local_expectation (operator lists, simplification / dtype / optimizer options), compute_marginal, sample (qubits, order, "
    "group_size), a sample generator advanced across apply_gate, sample_chaotic, sample_gate_by_gate, simulate_counts, "
    "psi.to_dense, copy, get_params / set_params / update_params_from with the same query repeated before and after.")
