"""C13 -- every route to a local expectation or reduced state gives the dense answer."""
import drivers.c13  # noqa: F401   (registers the drivers)

PROP = "C13"
LEVEL = "exploration"
LEVEL_TEXT = "tbd"
LEVEL_NOTE = "tbd"
TECHNIQUE = "run-time contracts on the real functions vs independent numpy references over a stated bounded domain (bounded stand-in)"
E1 = []
PROVIDERS = []
TRUSTED = ["numpy einsum / linear algebra reference computations"]
ASSUMPTIONS = []
EXPLANATION = "tbd"
