"""C13 -- every route to a local expectation or reduced state gives the dense answer."""
import drivers.c13  # noqa: F401   (registers the drivers)

PROP = "C13"
LEVEL = "exploration"
LEVEL_TEXT = ("Bounded run-time contracts only: every public route to a reduced density matrix or local expectation value "
              "(exact, cluster, loop expansion, generic compressed contraction, 1D canonical / environment, 2D plaquette and "
              "3D cell environments with an untruncating cap, operator trace / partial transpose) is executed on small states "
              "(<= 9 sites) and compared with <psi|G|psi>[/<psi|psi>] and the partial trace computed by numpy from the dense "
              "state, with complex non-hermitian operators on site tuples in arbitrary order so that transposition, "
              "conjugation, site-order and normalisation mistakes are visible. Nothing is proved for unbounded sizes.")
LEVEL_NOTE = ("Trusted: numpy einsum / matmul / eigvalsh reference on the raw tensor data of the inputs (the dense state is "
              "contracted by the driver itself, not by quimb); tolerances 1e-9 (double) and 3e-4 (single) relative to "
              "|G| x <psi|psi>, widened x3..x30 for routes that run QR/SVD sweeps or simple-update gauging; domain bounds as "
              "stated per driver.")
TECHNIQUE = "run-time contracts on the real functions vs independent numpy references over a stated bounded domain (bounded stand-in)"
E1 = []
PROVIDERS = []
TRUSTED = [
    "numpy einsum / matmul / trace / eigvalsh on dense arrays (reference semantics of state, partial trace, expectation)",
    "the driver's own pairwise contraction of the raw tensor data (including 10**exponent) as the denotation of a network",
    "cotengra path optimisers return valid contraction paths (process pools disabled inside the harness workers)",
]
ASSUMPTIONS = [
    "states: MPS open L<=8 / periodic L<=7 (bonds 1..3 mixed, site dims 2..3 mixed), PEPS up to 3x3 (bond<=3, open and "
    "periodic directions, 1xN), PEPS3D up to 2x2x3, random connected graph states / trees <= 8 sites with int / str / tuple "
    "labels, graph states with one hyper index (exact routes only); dtypes float32/64, complex64/128; stored exponent "
    "absent / set on the attribute / produced by equalize_norms_",
    "operators: random complex non-symmetric non-hermitian matrices on 1..3 sites, site tuples in random order incl. "
    "reversed neighbours and the two ends; normalised and unnormalised values (and normalized='return')",
    "approximate routes are run with max_bond=4096 (above every exact bond in the domain) and cutoff=0 so that they are "
    "exact; cluster / loop-expansion routes only with a cluster / generalized loop spanning all sites (autoreduce only on "
    "networks without degree-1 sites; simple loops only on rings)",
    "simple-update gauges are produced by gauge_all_simple_(gauges=...) and the reference state is rebuilt by the driver "
    "from the gauged tensors and the gauge vectors (so a defect of the gauging itself is not attributed to C13)",
    "option combinations that quimb documents as unsupported by an explicit NotImplementedError (canonical routes on "
    "periodic MPS, mode='full-bond' with equalize_norms) are outside the domain; reduce=True only for two-site terms",
    "magnetization / correlation are stated for normalised states; partial_trace_compress / logneg_subsys are compared "
    "through the spectrum of the compressed state (its basis is a compressed Schmidt basis), double precision, blocks of "
    "dimension <= 300, default lateral method 'isvd' only for uniform bond dimension (scipy 1.18 interpolative svd fails "
    "on rectangular LinearOperators)",
    "tolerances: 1e-9 (double) / 3e-4 (single) x |G|_F x <psi|psi>, x3 for 1D canonical routes, x10 generic compressed "
    "contraction, x30 boundary contraction and simple-update gauged clusters, x100..300 loop expansions with gauges",
]
EXPLANATION = (
    "E3 (bounded): six drivers. (1) tnag-exact-cluster-loop-routes: make_reduced_density_matrix, partial_trace_exact "
    "(matrix / array / tensor, normalised / not / 'return'), local_expectation_exact, compute_local_expectation_exact, "
    "get_cluster / partial_trace_cluster / local_expectation_cluster / compute_local_expectation_cluster (plain, simple-update "
    "gauged, loopunion), local_expectation_gloop_expand / compute_ / norm_gloop_expand, local_expectation_sloop_expand. "
    "(2) generic-compressed-routes: TensorNetworkGenVector.partial_trace / local_expectation / compute_local_expectation "
    "(flatten, reduce, symmetrized, contract_compressed / contract_around). (3) mps-canonical-and-environment-routes: "
    "partial_trace_to_dense_canonical, local_expectation_canonical, compute_local_expectation(_canonical / _via_envs), "
    "magnetization, correlation, partial_trace_to_mpo, partial_trace_compress, logneg_subsys. (4) lattice-boundary-routes-2d: "
    "PEPS.compute_local_expectation, compute_norm, normalize, compute_plaquette_environments over mode x canonize x layering "
    "x autogroup. (5) lattice-boundary-routes-3d: PEPS3D.partial_trace, partial_trace_cluster, compute_local_expectation. "
    "(6) operator-trace-and-partial-transpose. Every value is compared with numpy on the dense state built by the driver; "
    "reduced density matrices are checked for shape, hermiticity, trace and site order.")
