"""C15 -- Kronecker, embedding, permutation and partial-trace routines obey their algebra"""
import drivers.c15  # noqa: F401   (registers the drivers)

PROP = "C15"
LEVEL = "exploration"          # until the E1 (SMT) part is added by the main session; do not claim more
LEVEL_TEXT = ("Bounded run-time contracts only: every public routine of the family (kron / kronpow / & with every ownership "
              "range, ikron in all its placement modes, pkron, permute, partial_trace / ptr / itrace, partial_transpose, "
              "dim_map, dim_compress, dynal helpers, the ham_* builders with ownership) is compared with an explicit numpy "
              "reference on dimension lists with 1..5 subsystems, dims 1..8 (incl. dims of 1), total dimension <= 64, dense "
              "and csr/csc/coo/bsr inputs, four dtypes. For products and Hamiltonians with D <= 36 / 32 rows EVERY ownership "
              "range 0 <= ri < rf <= D is enumerated. Nothing is proved for larger systems.")
LEVEL_NOTE = ("Trusted: numpy kron / einsum / fancy indexing used by the references in drivers/c15.py; tolerances 1e-10 (double) "
              "and 3e-4 (single) relative to max(1, |ref|_max); 7 input classes on which the unchanged library crashes or "
              "returns a wrongly shaped result are recorded as known findings C15-a..g and are therefore not value-checked.")
TECHNIQUE = "run-time contracts on the real functions vs independent numpy references over a stated bounded domain (bounded stand-in)"
E1 = []                        # filled later by the main session
PROVIDERS = []
TRUSTED = [
    "numpy reference computations (np.kron, np.einsum, reshape / fancy indexing) in drivers/c15.py",
    "scipy.sparse constructors and .toarray() used to build sparse inputs and to densify results",
    "numpy.random legacy generator reproduces ham_mbl's documented field distribution for a given seed",
]
ASSUMPTIONS = [
    "total Hilbert-space dimension 2..64 (a 1x1 object is both ket and operator and is excluded); 1..5 subsystems; "
    "subsystem dimensions 1..8; kron ownership exhaustively for D <= 36, Hamiltonians for D <= 32 (2..5 spins, 2D up to "
    "2x3 with sampled ranges at D = 64)",
    "partial_trace / permute / ikron treat an index collection as a set where the docstrings do: the reduced state is "
    "ordered by ascending subsystem index whatever the order of `keep`; an operator overlaid with ikron covers the "
    "subsystems from its first to its last index (the form ham_j1j2 relies on) and is only exercised where that reading "
    "is unambiguous (operator larger than 1x1, first subsystem of dimension > 1 when there are gaps)",
    "sparse partial trace is only required for Hermitian operators and kets (documented domain: 'ket or density "
    "operator'; the sparse route symmetrises); the dense route is checked on general operators too",
    "partial_transpose of a vector: the vector is a ket (quimbify documents that a vector is assumed to be a ket), so "
    "bras are outside its domain; bras are in the domain of kron and permute",
    "representation of results (dense vs sparse, sparse format) is checked only where the call fixes it (stype given and "
    "result sparse for kron / ikron, sparse= / stype= of the ham_* builders); pkron ignores stype (always csr) -- noted, "
    "not counted as a violation of this property",
    "field sign conventions taken from the docstrings where given (ham_heis: -B.S, ham_j1j2: +Bz Sz, ham_mbl random "
    "fields: +h.S) and from the code where the docstring is silent (ham_heis_2D: +bz Sz, ham_mbl bz: -bz Sz via ham_heis)",
    "cyclic chains of 2 sites count the single bond twice (sum over i of S_i.S_{i+1 mod n}); cyclic j1j2 needs n >= 3 and "
    "cyclic 2D lattices need both extents >= 2 (self-bonds are meaningless)",
    "tolerances: 1e-10 for float64 / complex128, 3e-4 for float32 / complex64, relative to max(1, max|reference|)",
]
EXPLANATION = (
    "E3 (bounded): 7 drivers. dynal-helpers: mixed-radix digits, matching-digit prefix and factor slicing used by the "
    "ownership arithmetic. kron-ownership-exhaustive: kron over 21 factor-shape lists x dense/sparse/mixed formats x stype x "
    "coo_build x parallel, the full product and every row range; kronpow; the & operator. ikron-embedding: every placement "
    "mode (single site, overlay on a run, overlay across gaps, repeated operator, cyclic placement, one operator per site in "
    "any order, dims of -1) x option grid x random and exhaustive ownership ranges. dim-map-compress: coordinate flattening "
    "with wrap / trim / reject in 1-3 grid dimensions, ikron and partial_trace with nested dims, dim_compress as a "
    "bipartition-preserving map. permute-pkron: all permutations of kets / bras / operators in every format, products, "
    "permute-then-embed, pkron on every ordered subset. partial-trace: every subset of kept subsystems for kets, dense and "
    "sparse operators, ket vs projector, adjointness with ikron / pkron, partial_transpose, itrace. hamiltonians-ownership: "
    "six 1-d builders and the 2-d Heisenberg builder vs explicit sums of Kronecker products, with every ownership range.")
